# C19 - no input can crash, hang or over-read a parser.
#   (a) proof gate: coq/Props/Properties_C19.v (loader model totality + re-exports of the parser theorems)
#   (b) build descriptions: YAML shape generator -> files -> real YAML parser (`tree`) -> model `root` vs real BuildFile::load()
#       (`load`, accept-everything delegate) AND the property oracle on the implementation under ASan/UBSan
#       (`load` and `loadreal` = BuildSystem::loadDescription with the built-in tools): normal exit, no sanitizer report,
#       no signal, within a timeout, a failed load always reported through the delegate
#   (c) whole-manifest loading: grammar-mutated / truncated / random byte strings through the real ninja::ManifestLoader with
#       exact-size unterminated heap buffers under ASan
#   (d) the dependency-file parsers (props/c11.py: deps_part) and the Ninja lexer (props/c17lex.py: lexer_part) when available
import os, re, json, shutil, itertools, subprocess, tempfile, threading, select, time
import vlib
from vlib import hx

ASAN_ENV = dict(os.environ, ASAN_OPTIONS="detect_leaks=0:abort_on_error=0:allocator_may_return_null=1", UBSAN_OPTIONS="print_stacktrace=1")
TMP = os.path.join(vlib.WORK, "tmp", "c19-%d" % os.getpid())      # private to this run; removed at the end unless something was found

# ------------------------------------------------------------------ batch execution with crash / hang attribution

def classify(rc, err):
    if rc == -9:
        return "hang"
    for pat, name in (("stack-overflow", "stack-overflow"), ("heap-buffer-overflow", "heap-buffer-overflow"),
                      ("heap-use-after-free", "use-after-free"), ("stack-buffer-overflow", "stack-buffer-overflow"),
                      ("global-buffer-overflow", "global-buffer-overflow"), ("SEGV", "segv"), ("runtime error", "ubsan"),
                      ("AddressSanitizer", "asan")):
        if pat in err:
            return name
    return "signal%d" % (-rc) if rc < 0 else "exit%d" % rc

def run_batch(binary, reqs, env=None, per_timeout=30):
    """One request per line through a line-protocol driver, answers read with a deadline per request. The request that kills
    the driver (crash) or gets no answer in time (hang) is recorded and the batch resumes after it.
    Returns a list of ("ok", answer) | ("crash"|"hang", dict(rc, kind, stderr))."""
    res = [None] * len(reqs)
    i = 0
    os.makedirs(TMP, exist_ok=True)
    while i < len(reqs):
        errf = tempfile.TemporaryFile(dir=TMP)
        p = subprocess.Popen([binary], stdin=subprocess.PIPE, stdout=subprocess.PIPE, stderr=errf, env=env)
        payload = ("\n".join(reqs[i:]) + "\n").encode()
        def feed(p=p, payload=payload):
            try:
                p.stdin.write(payload)
                p.stdin.close()
            except (BrokenPipeError, OSError, ValueError):
                pass
        th = threading.Thread(target=feed, daemon=True)
        th.start()
        fd = p.stdout.fileno()
        buf = b""
        j = i
        fate = None
        deadline = time.time() + per_timeout
        while j < len(reqs):
            nl = buf.find(b"\n")
            if nl >= 0:
                res[j] = ("ok", buf[:nl].decode("utf-8", "replace"))
                buf = buf[nl + 1:]
                j += 1
                deadline = time.time() + per_timeout
                continue
            left = deadline - time.time()
            if left <= 0:
                fate = "hang"
                break
            r, _, _ = select.select([fd], [], [], min(left, 1.0))
            if not r:
                continue
            data = os.read(fd, 1 << 16)
            if not data:
                fate = "crash"
                break
            buf += data
        if fate == "hang":
            p.kill()
        try:
            rc = p.wait(timeout=20)
        except subprocess.TimeoutExpired:
            p.kill(); rc = p.wait()
        th.join(timeout=5)
        p.stdout.close()
        if fate is not None:
            errf.seek(0)
            e1 = errf.read().decode("utf-8", "replace")
            kind = "hang" if fate == "hang" else classify(rc, e1)
            lines = [l for l in e1.splitlines() if "ERROR" in l or "runtime error" in l or "SUMMARY" in l or l.lstrip().startswith("#")]
            res[j] = (fate, dict(rc=rc, kind=kind, timeout_s=per_timeout if fate == "hang" else None, stderr="\n".join(lines[:14])[-2500:] or e1[-1500:]))
            j += 1
        errf.close()
        i = j
    return res

# ------------------------------------------------------------------ YAML trees and their rendering

def S(x): return ("S", x if isinstance(x, bytes) else x.encode())
def M(*kv): return ("M", [(S(k) if isinstance(k, (str, bytes)) else k, v) for (k, v) in kv])
def Q(*xs): return ("Q", list(xs))
N = ("N",)
def A(x): return ("A", x.encode())
def B(x): return ("B", x.encode())

PLAIN = re.compile(rb"[A-Za-z0-9_./<][A-Za-z0-9_./<>+=-]*")

def scalar_text(b, rng):
    """A YAML spelling of the byte string b (plain, single- or double-quoted)."""
    styles = ["double"]
    if PLAIN.fullmatch(b):
        styles += ["plain", "plain"]
    if b and all(0x20 <= c < 0x7f and c != 0x27 for c in b):
        styles.append("single")
    st = rng.choice(styles)
    if st == "plain":
        return b
    if st == "single":
        return b"'" + b + b"'"
    out = bytearray(b'"')
    for c in b:
        if c == 0x22: out += b'\\"'
        elif c == 0x5c: out += b"\\\\"
        elif c == 0x0a: out += b"\\n"
        elif c == 0x09: out += b"\\t"
        elif c < 0x20 or c == 0x7f: out += b"\\x%02x" % c
        else: out.append(c)            # bytes >= 0x80 stay raw (possibly not UTF-8)
    return bytes(out + b'"')

def can_flow(n, as_value=True):
    k = n[0]
    if k in ("S", "A"): return True
    if k == "N": return False
    if k == "B": return False
    if k == "M": return all(can_flow(a) and (can_flow(b) or b[0] == "N") for a, b in n[1])
    return all(can_flow(x) for x in n[1])

def flow(n, rng):
    k = n[0]
    if k == "S": return scalar_text(n[1], rng)
    if k == "A": return b"*" + n[1]
    if k == "N": return b""
    if k == "M": return b"{" + b", ".join(flow(a, rng) + b": " + flow(b, rng) for a, b in n[1]) + b"}"
    return b"[" + b", ".join(flow(x, rng) for x in n[1]) + b"]"

def block(n, ind, rng, pflow=0.3):
    """Text that follows an introducer ("key:", "-", "?", ":"); children are indented by ind spaces."""
    k = n[0]
    pad = b" " * ind
    if k == "S": return b" " + scalar_text(n[1], rng) + b"\n"
    if k == "A": return b" *" + n[1] + b"\n"
    if k == "N": return b"\n"
    if k == "B":
        body = n[1].split(b"\n") if n[1] else []
        return b" |\n" + b"".join(pad + l + b"\n" for l in body)
    if not n[1]:
        return b" {}\n" if k == "M" else b" []\n"
    if can_flow(n) and rng.random() < pflow:
        return b" " + flow(n, rng) + b"\n"
    out = bytearray(b"\n")
    if k == "M":
        for a, b in n[1]:
            if a[0] == "S" and b"\n" not in a[1] and len(a[1]) < 900:
                out += pad + scalar_text(a[1], rng) + b":" + block(b, ind + 2, rng, pflow)
            else:
                out += pad + b"?" + block(a, ind + 2, rng, pflow) + pad + b":" + block(b, ind + 2, rng, pflow)
    else:
        for x in n[1]:
            out += pad + b"-" + block(x, ind + 2, rng, pflow)
    return bytes(out)

def render(docs, rng, pflow=0.3):
    parts = []
    for d in docs:
        t = block(d, 0, rng, pflow)
        parts.append(t[1:] if t[:1] in (b"\n", b" ") else t)
    if len(parts) == 1 and rng.random() < 0.8:
        return parts[0]
    return b"".join(b"---\n" + p for p in parts)

def encode(n):
    k = n[0]
    if k in ("S", "B", "A"): return [k + hx(n[1])]
    if k == "N": return ["N"]
    if k == "M": return ["M%d" % len(n[1])] + [t for a, b in n[1] for t in encode(a) + encode(b)]
    return ["Q%d" % len(n[1])] + [t for x in n[1] for t in encode(x)]

def depth_of(data):
    d = m = 0
    for c in data:
        if c in (0x5b, 0x7b):
            d += 1; m = max(m, d)
        elif c in (0x5d, 0x7d):
            d -= 1
    return m

# ------------------------------------------------------------------ the shape generator

TOOLS = ["shell", "phony", "mkdir", "symlink", "archive", "clang", "swift-compiler", "stale-file-removal", "shared-library"]
ATTRS = ["args", "env", "deps", "deps-style", "signature", "can-safely-interrupt", "inherit-env", "working-directory", "control-enabled",
         "allow-missing-inputs", "allow-modified-outputs", "always-out-of-date", "repair-via-ownership-analysis", "executable",
         "module-name", "module-output-path", "sources", "objects", "import-paths", "temps-path", "is-library",
         "enable-whole-module-optimization", "num-threads", "other-args", "module-aliases", "contents", "link-output-path",
         "compiler-style", "expectedOutputs", "roots", "description", "inputs", "outputs", "tool", "no-such-attribute", ""]
NODE_ATTRS = ["type", "is-directory", "is-directory-structure", "is-virtual", "is-command-timestamp", "is-mutated",
              "content-exclusion-patterns", "must-scan-after-paths", "no-such-attribute"]

def value_kinds(rng):
    """One value of every kind / shape an attribute can be given."""
    return [S("x"), S(""), S("true"), S("7"), S("-1"), S("99999999999999999999"), Q(), M(), N, A("al"), B("block\ntext"),
            Q(S("a"), S("b")), Q(S("a"), Q(S("b")), M(("k", S("v"))), N), M(("k", S("v"))), M(("k", S("v")), ("k", S("w"))),
            M(("k", Q(S("v")))), M((Q(S("k")), S("v"))), M((N, S("v"))), M(("k", N)), M(("k", M(("a", S("b"))))), Q(Q(Q()))]

CLIENT = M(("name", S("basic")), ("version", S("0")))

def base_doc():
    return M(("client", CLIENT),
             ("tools", M(("shell", M()))),
             ("targets", M(("", Q(S("<all>"))), ("t", Q(S("out"))))),
             ("default", S("t")),
             ("nodes", M(("out", M(("is-mutated", S("false")))))),
             ("commands", M(("c1", M(("tool", S("shell")), ("inputs", Q(S("in"))), ("outputs", Q(S("out"), S("<all>"))),
                                    ("description", S("C1")), ("args", Q(S("echo"), S("hi"))), ("env", M(("A", S("B"))))))
                           , ("c2", M(("tool", S("phony")), ("inputs", Q(S("out"))), ("outputs", Q(S("<c2>"))))))))

def with_section(doc, name, value):
    return ("M", [(k, (value if k == S(name) else v)) for (k, v) in doc[1]])

def sec(doc, name):
    for k, v in doc[1]:
        if k == S(name):
            return v

def gen_docs(chk):
    """Returns a list of (class key, [documents])."""
    rng = chk.rng
    out = []
    def add(key, *docs):
        out.append((key, list(docs)))
    base = base_doc()
    names = ["client", "tools", "targets", "default", "nodes", "commands"]
    bysec = {n: sec(base, n) for n in names}
    kinds = value_kinds(rng)
    # corpus first
    add("corpus-empty-mapping", M())
    add("corpus-base", base)
    add("corpus-client-only", M(("client", CLIENT)))
    # A. every selection / order / duplication of sections (up to 3 plus the full orders with one swap)
    for r in (1, 2, 3):
        for sel in itertools.product(names, repeat=r):
            add("sections:" + ",".join(sel), ("M", [(S(n), bysec[n]) for n in sel]))
    for i in range(6):
        for j in range(i + 1, 6):
            order = list(names); order[i], order[j] = order[j], order[i]
            add("sections-swap:%d,%d" % (i, j), ("M", [(S(n), bysec[n]) for n in order]))
        drop = [n for k, n in enumerate(names) if k != i]
        add("sections-drop:%d" % i, ("M", [(S(n), bysec[n]) for n in drop]))
        add("sections-dup:%d" % i, ("M", [(S(n), bysec[n]) for n in names[:i + 1] + names[i:]]))
    add("sections-unknown", ("M", base[1] + [(S("extra"), M())]))
    add("sections-unknown-mid", ("M", base[1][:2] + [(S("extra"), M())] + base[1][2:]))
    # B. every section value of every kind; C. every section key of every non-scalar kind
    for n in names:
        for ki, v in enumerate(kinds):
            add("section-value:%s:%d" % (n, ki), with_section(base, n, v))
        for ki, kk in enumerate([Q(S(n)), M((n, S("x"))), N, A(n), B(n), Q(), M()]):
            add("section-key:%s:%d" % (n, ki), ("M", [((kk if k == S(n) else k), v) for (k, v) in base[1]]))
    # root of every kind
    for ki, v in enumerate(kinds):
        add("root:%d" % ki, v)
    # client entries
    for ki, v in enumerate(kinds):
        add("client-value:%d" % ki, with_section(base, "client", M(("name", S("basic")), ("version", v))))
        add("client-key:%d" % ki, with_section(base, "client", M(("name", S("basic")), (v, S("0")))))
    for ver in ["", "0", "00", "1", "4294967295", "4294967296", "18446744073709551615", "18446744073709551616", "-0", "+0", "0x0", "1e3", " 0", "0 ", "٣"]:
        add("client-version:" + ver, with_section(base, "client", M(("name", S("basic")), ("version", S(ver)))))
    add("client-props", with_section(base, "client", M(("name", S("basic")), ("version", S("0")), ("file-system", S("device-agnostic")),
                                                       ("perform-ownership-analysis", S("yes")), ("x", S("y")), ("name", S("basic")))))
    for fsn in ["default", "checksum-only", "bogus", ""]:
        add("client-fs:" + fsn, with_section(base, "client", M(("name", S("basic")), ("file-system", S(fsn)))))
    add("client-other-name", with_section(base, "client", M(("name", S("other")))))
    add("client-empty", with_section(base, "client", M()))
    # tools section: every real tool (+ unknown) with every attribute name and every value kind
    for t in TOOLS + ["no-such-tool", ""]:
        add("tool-entry:%s" % t, with_section(base, "tools", M((t, M()))))
        for ki, v in enumerate(kinds):
            add("tool-value:%s:%d" % (t, ki), with_section(base, "tools", M((t, v))))
    for ki, v in enumerate(kinds):
        add("tool-key:%d" % ki, with_section(base, "tools", M((v, M()))))
        add("tool-attr-key:%d" % ki, with_section(base, "tools", M(("shell", M((v, S("x")))))))
    for t in TOOLS:
        for a in ATTRS:
            v = rng.choice(kinds)
            add("tool-attr:%s:%s" % (t, a), with_section(base, "tools", M((t, M((a, v))))))
    # targets
    for ki, v in enumerate(kinds):
        add("target-value:%d" % ki, with_section(base, "targets", M(("t", v))))
        add("target-key:%d" % ki, with_section(base, "targets", M((v, Q(S("out"))))))
        add("target-node:%d" % ki, with_section(base, "targets", M(("t", Q(S("a"), v, S("b"))))))
    add("target-dup", with_section(base, "targets", M(("t", Q(S("a"))), ("t", Q(S("b"))))))
    # default
    for dv in ["t", "", "missing", "T"]:
        add("default:" + dv, with_section(base, "default", S(dv)))
    add("default-before-targets", ("M", [(S("client"), CLIENT), (S("default"), S("t")), (S("targets"), bysec["targets"])]))
    # nodes
    for ki, v in enumerate(kinds):
        add("node-value:%d" % ki, with_section(base, "nodes", M(("out", v))))
        add("node-key:%d" % ki, with_section(base, "nodes", M((v, M()))))
        add("node-attr-key:%d" % ki, with_section(base, "nodes", M(("out", M((v, S("x")))))))
        for a in NODE_ATTRS:
            add("node-attr:%s:%d" % (a, ki), with_section(base, "nodes", M(("out", M((a, v))), ("dir/", M((a, v))), ("<virt>", M((a, v))))))
    # commands
    for ki, v in enumerate(kinds):
        add("command-value:%d" % ki, with_section(base, "commands", M(("c1", v))))
        add("command-key:%d" % ki, with_section(base, "commands", M((v, M(("tool", S("shell")))))))
        add("command-tool-value:%d" % ki, with_section(base, "commands", M(("c1", M(("tool", v), ("args", S("x")))))))
        add("command-tool-key:%d" % ki, with_section(base, "commands", M(("c1", M((v, S("shell")), ("args", S("x")))))))
        add("command-attr-key:%d" % ki, with_section(base, "commands", M(("c1", M(("tool", S("shell")), (v, S("x")), ("args", S("x")))))))
        for special in ("inputs", "outputs", "description"):
            add("command-%s:%d" % (special, ki), with_section(base, "commands", M(("c1", M(("tool", S("shell")), (special, v), ("args", S("x")))))))
    add("command-no-tool", with_section(base, "commands", M(("c1", M(("args", S("x")))))))
    add("command-tool-not-first", with_section(base, "commands", M(("c1", M(("args", S("x")), ("tool", S("shell")))))))
    add("command-tool-twice", with_section(base, "commands", M(("c1", M(("tool", S("shell")), ("tool", S("phony")), ("args", S("x")))))))
    add("command-empty", with_section(base, "commands", M(("c1", M()))))
    add("command-unknown-tool", with_section(base, "commands", M(("c1", M(("tool", S("no-such-tool")))), ("c2", M(("tool", S("shell")))))))
    add("command-duplicate", with_section(base, "commands", M(("c1", M(("tool", S("shell")), ("args", S("a")))), ("c1", M(("tool", S("shell")), ("args", S("b")))),
                                                              ("c3", M(("tool", S("phony")))))))
    add("command-bad-then-good", with_section(base, "commands", M(("c0", M(("args", S("x")), ("inputs", Q(M(("deep", Q(S("x")))))))), ("c1", M(("tool", S("shell")), ("args", S("x")))))))
    for t in TOOLS:
        add("command-tool-only:%s" % t, with_section(base, "commands", M(("c1", M(("tool", S(t)))))))
        add("command-typical:%s" % t, with_section(base, "commands", M(("c1", M(("tool", S(t)), ("inputs", Q(S("a"), S("b"))), ("outputs", Q(S("o"))))))))
        for a in ATTRS:
            for ki, v in enumerate(kinds):
                if chk.quick() and rng.random() < 0.55:
                    continue
                add("command-attr:%s:%s:%d" % (t, a, ki), with_section(base, "commands", M(("c1", M(("tool", S(t)), ("inputs", Q(S("in"))), ("outputs", Q(S("out"))), (a, v))))))
    # valid-looking combinations for each tool with realistic values (reach deeper into the tools' own checks)
    real = {"shell": [("args", S("echo hi")), ("args", Q()), ("args", Q(S(""))), ("args", S("")), ("env", M()), ("deps", S("d")), ("deps", Q(S("d1"), S("d2"))),
                      ("deps-style", S("makefile")), ("deps-style", S("dependency-info")), ("deps-style", S("bogus")), ("signature", S("s")),
                      ("inherit-env", S("false")), ("inherit-env", S("maybe")), ("working-directory", S("/tmp")), ("control-enabled", S("false")),
                      ("can-safely-interrupt", S("true")), ("allow-missing-inputs", S("true")), ("always-out-of-date", S("true")), ("allow-modified-outputs", S("xx"))],
            "clang": [("args", S("clang -c x.c")), ("args", Q(S("clang"))), ("deps", S("x.d"))],
            "mkdir": [], "symlink": [("contents", S("target")), ("link-output-path", S("/tmp/x")), ("repair-via-ownership-analysis", S("true"))],
            "archive": [], "shared-library": [("executable", S("cc")), ("other-args", Q(S("-O"))), ("other-args", S("-O -g")), ("compiler-style", S("cl")), ("compiler-style", S("swiftc")), ("compiler-style", S("bogus"))],
            "stale-file-removal": [("expectedOutputs", Q(S("/a"), S("/b"))), ("roots", Q(S("/"))), ("expectedOutputs", S("x")), ("roots", M())],
            "swift-compiler": [("executable", S("swiftc")), ("module-name", S("M")), ("module-output-path", S("M.swiftmodule")), ("sources", Q(S("a.swift"))), ("sources", S("a.swift b.swift")),
                               ("objects", Q(S("a.o"))), ("objects", S("a.o")), ("import-paths", Q(S("/i"))), ("temps-path", S("/t")), ("is-library", S("true")), ("is-library", S("x")),
                               ("enable-whole-module-optimization", S("true")), ("num-threads", S("4")), ("num-threads", S("x")), ("num-threads", S("-1")), ("other-args", S("-a -b")),
                               ("module-aliases", Q(S("a=b"))), ("module-aliases", Q(S("a")))],
            "phony": []}
    for t, lst in real.items():
        for k in range(chk.n(4, 40)):
            pick = [rng.choice(lst) for _ in range(rng.randint(0, 5))] if lst else []
            add("command-real:%s:%d" % (t, k), with_section(base, "commands", M(("c1", ("M", [(S("tool"), S(t)), (S("inputs"), Q(*[S(x) for x in rng.sample(["a", "b", "d/", "<v>"], rng.randint(0, 3))])),
                                                                                           (S("outputs"), Q(*[S(x) for x in rng.sample(["o", "p/", "<w>"], rng.randint(0, 3))]))] +
                                                                                          [(S(a), v) for a, v in pick])))))
    # ownership analysis with real commands
    own = with_section(base, "client", M(("name", S("basic")), ("perform-ownership-analysis", S("yes"))))
    add("ownership-basic", own)
    add("ownership-conflict", with_section(own, "commands", M(("c1", M(("tool", S("shell")), ("outputs", Q(S("/d/"))), ("args", S("x")), ("repair-via-ownership-analysis", S("true")))),
                                                              ("c2", M(("tool", S("shell")), ("outputs", Q(S("/d/f"))), ("args", S("x")), ("repair-via-ownership-analysis", S("true")))),
                                                              ("c3", M(("tool", S("shell")), ("inputs", Q(S("/d/"), S("/e/"))), ("outputs", Q(S("/e/g"))), ("args", S("x")), ("repair-via-ownership-analysis", S("true")))))))
    # multi-document streams
    add("multidoc-2", base, base)
    add("multidoc-scalar", base, S("x"))
    add("multidoc-null", base, N)
    add("multidoc-first-bad", S("x"), base)
    add("multidoc-3", M(("client", CLIENT)), M(), Q())
    # nesting (moderate: goes through the model as well)
    deep = S("x")
    for _ in range(120):
        deep = Q(deep) if rng.random() < 0.5 else M(("k", deep))
    for where in ("tools", "targets", "nodes", "commands", "client", "default"):
        add("nested:" + where, with_section(base, where, M(("a", deep))))
    add("nested-attr", with_section(base, "commands", M(("c1", M(("tool", S("shell")), ("args", deep), ("inputs", Q(deep)), ("env", M(("A", deep))))))))
    add("nested-key", with_section(base, "tools", M((deep, M()))))
    # long and non-UTF-8 scalars
    big = bytes(rng.choice(b"abc /\\\"'$") for _ in range(chk.n(20000, 1000000)))
    add("long-scalar-value", with_section(base, "commands", M(("c1", M(("tool", S("shell")), ("args", S(big)))))))
    add("long-scalar-key", with_section(base, "nodes", M((S(big), M()))))
    add("long-scalar-list", with_section(base, "commands", M(("c1", M(("tool", S("shell")), ("args", Q(*[S("a%d" % i) for i in range(chk.n(2000, 50000))])))))))
    for bs in (b"\xff", b"\xc3", b"a\xffb", b"\xed\xa0\x80", b"\xf4\x90\x80\x80", b"\xe2\x82", b"\x00", b"a\x00b", b"\x7f", b"\xef\xbb\xbf", b"\r", b"a\rb", b"\t", b"\x85", b"\xe2\x80\xa8"):
        add("bytes-value:" + bs.hex(), with_section(base, "commands", M(("c1", M(("tool", S("shell")), ("args", S(bs)), ("description", S(bs)))))))
        add("bytes-key:" + bs.hex(), with_section(base, "nodes", M((S(bs), M()))))
        add("bytes-tool:" + bs.hex(), with_section(base, "tools", M((S(bs), M()))))
    # random trees: random replacement of subtrees of the base document
    def rnd_node(d):
        r = rng.random()
        if d <= 0 or r < 0.35: return S(rng.choice(["", "x", "tool", "shell", "client", "inputs", "t", "out", "7"]))
        if r < 0.45: return rng.choice([N, A("al"), B("b")])
        if r < 0.75: return ("M", [(rnd_node(d - 2) if rng.random() < 0.15 else S(rng.choice(names + ["tool", "args", "inputs", "outputs", "description", "name", "version", "k", "c1", "shell", ""])), rnd_node(d - 1))
                                   for _ in range(rng.randint(0, 4))])
        return ("Q", [rnd_node(d - 1) for _ in range(rng.randint(0, 4))])
    def mutate(n, p):
        if rng.random() < p:
            return rnd_node(3)
        if n[0] == "M":
            kv = [(mutate(a, p / 3), mutate(b, p)) for a, b in n[1]]
            if kv and rng.random() < p: kv.insert(rng.randrange(len(kv) + 1), rng.choice(kv))
            if kv and rng.random() < p: kv.pop(rng.randrange(len(kv)))
            if len(kv) > 1 and rng.random() < p:
                i, j = rng.sample(range(len(kv)), 2); kv[i], kv[j] = kv[j], kv[i]
            return ("M", kv)
        if n[0] == "Q":
            return ("Q", [mutate(x, p) for x in n[1]])
        return n
    for k in range(chk.n(4000, 40000)):
        add("random:%d" % k, mutate(base, rng.choice([0.03, 0.06, 0.12])))
    for k in range(chk.n(150, 3000)):
        add("random-root:%d" % k, rnd_node(4))
    return out

# raw texts: constructs the tree renderer does not produce (anchors, tags, block scalar headers, directives, comments,
# document markers), the former crashers, and malformed documents (these must at least not crash)
RAW = [
    b"{}", b"", b"\n", b"# only a comment\n", b"---\n", b"---\n...\n", b"...\n", b"--- {}\n", b"[]", b"x", b"~", b"null", b"? \n", b": \n", b"? a\n", b"- a\n- b\n",
    b"client: ?x", b"client: :x", b"client: @", b"? @", b"client:\n  name: basic\n---\n@", b"client: {name: basic}\n? @", b"client:\n  name: basic\ntools: ?x",
    b"client:\n  name: basic\ntools:\n  a: ?x", b"client:\n  name: basic\ntools:\n  a:\n    k: ?x", b"client:\n  name: basic\ntools:\n  a:\n    k: {? @}",
    b"client:\n  name: basic\ntargets:\n  t: ?x", b"client:\n  name: basic\ndefault: ?x", b"client:\n  name: basic\nnodes:\n  n:\n    a: ?x",
    b"client:\n  name: basic\ncommands:\n  c:\n    tool: ?x", b"client:\n  name: basic\ncommands:\n  c:\n    tool: shell\n    inputs: ?x",
    b"client:\n  name: basic\ncommands:\n  c:\n    tool: shell\n    args: ?x", b"client:\n  name: basic\ncommands:\n  c:\n    tool: shell\n    ? @",
    b"client:\n  name: basic\ncommands:\n  ? @", b"client:\n  ? @", b"client:\n  name: ?x", b"&a &b client: {}", b"client: &a &b x", b"client: !!str !!str x",
    b"client: &a\n  name: basic\ntools: *a\n", b"client: &a {name: basic}\ncommands: {c1: *a}\n", b"&r client: &c {name: &n basic}\n", b"*a", b"client: *undefined\n",
    b"!!map {client: !!map {name: !!str basic}}", b"!<tag:yaml.org,2002:map> {client: {name: basic}}", b"%YAML 1.2\n---\nclient: {name: basic}\n",
    b"%TAG !e! tag:example.com,2000:\n---\nclient: !e!foo {name: basic}\n", b"client: !e!undefined {name: basic}\n", b"%TAG\n---\nclient: {}\n", b"%\n", b"%YAML\n", b"%FOO bar\n---\nx\n",
    b"client:\n  name: |\n    basic\n", b"client:\n  name: >-\n    basic\n    more\n", b"client:\n  name: |2\n      basic\n", b"client:\n  name: |+\n\n\n", b"client: |\n", b"client: |9\n x\n",
    b"client: |0\n x\n", b"client: |-+\n x\n", b"client:\n  name: |\n  basic\n", b"? |\n  client\n: {name: basic}\n", b"client: >\n\ttab\n",
    b"client:\n  name: \"basic\\n\\t\\x41\\u0041\\U00000041\\q\"\n", b"client:\n  name: \"unterminated\n", b"client:\n  name: 'unterminated\n", b"client:\n  name: 'it''s'\n",
    b"client:\n  name: \"\\x\"\n", b"client:\n  name: \"\\u12\"\n", b"client:\n  name: \"\\U0011FFFF\"\n", b"client:\n  name: \"\\", b"client:\n  name: \"a\\\n  b\"\n",
    b"client: {name: basic\n", b"client: {name: basic]]\n", b"client: [name, basic\n", b"client: {name: basic}}\n", b"client: {name basic}\n", b"client: {name: basic,, x: y}\n", b"client: [a b]\n",
    b"client:\n\tname: basic\n", b"client:\n  name: basic\n tools: {}\n", b"client:\n    name: basic\n  version: 0\n", b"client: {name: basic}\ntools\n", b"client: {name: basic}\ntools: {}\n  x: y\n",
    b"client: {name: basic} # comment\ntools: {} # c\n", b"client:   {name:    basic}   \n\n\n", b"client: {name: basic}\r\ntools: {}\r\n", b"client: {name: basic}\rtools: {}\r",
    b"\xef\xbb\xbfclient: {name: basic}\n", b"\xff\xfec\x00l\x00", b"\xfe\xff\x00c\x00l", b"client: {name: basic}\n\x00", b"\x00", b"client: {name: \x00}\n", b"client: {name: basic}\n\x1a",
    b"client: {name: basic}\n...\ntools: {}\n", b"client: {name: basic}\n--- \n---\n---\n", b"--- client: {name: basic}\n", b"---\nclient: {name: basic}\n...\n---\n...\n",
    b"client: {name: basic}\ncommands:\n  c1:\n    tool: shell\n    args: [a, b\n", b"client: {name: basic}\ncommands: {c1: {tool: shell, args: [a, [b, {c: d}]]}}\n",
    b"- client\n", b"client:\n- name\n", b"client:\n  - name: basic\n", b"? [client]\n: {name: basic}\n", b"? {client: x}\n: y\n", b"[client]: {name: basic}\n", b"{client: {name: basic}}: x\n",
    b"client: {name: basic}\ntools: {shell: {? [a, b] : c}}\n", b"client: {name: basic}\ntools: {shell: {a: [b, *x, &y c, !!str d, ~]}}\n", b"-", b"- -\n- - -\n", b"? ? ?\n", b": : :\n", b"- ? : x\n",
    b"client: {name: basic}\ncommands:\n  c1:\n    tool: shell\n    args: \"a\n\n      b\"\n", b"client: {name: basic}\ntargets: {t: [a, b,]}\n", b"client: {name: basic}\ntargets: {t: [,]}\n", b"client: {name: basic}\ntargets: {t: [a,,b]}\n",
    b"client: {name: basic,}\n", b"client: {,}\n", b"client: {: }\n", b"client: {? }\n", b"client: {? a, ? b}\n", b"client: {a, b}\n", b"client: [a: b, c: d]\n", b"client: [? a : b]\n",
]

def gen_raw(chk):
    rng = chk.rng
    out = [("raw:%d" % i, t) for i, t in enumerate(RAW)]
    # every truncation of two small documents, and single-byte edits of them
    seeds = [b"client:\n  name: basic\n  version: 0\ntools: {shell: {}}\ntargets:\n  \"\": [\"<all>\"]\ndefault: \"\"\nnodes:\n  a: {is-mutated: true}\ncommands:\n  c1:\n    tool: shell\n    inputs: [a]\n    outputs: [\"<all>\"]\n    args: [echo, \"x y\"]\n    env: {A: B}\n",
             b"client: {name: basic}\ncommands: {c1: {tool: &t shell, args: |\n      text\n  }, c2: {tool: *t, inputs: ['a', \"b\\x41\"]}}\n"]
    for si, s in enumerate(seeds):
        for cut in range(len(s)):
            out.append(("truncate:%d:%d" % (si, cut), s[:cut]))
        specials = b"?:@`%!&*|>-[]{},#'\"\\\t\r\n \x00\xff"
        for k in range(chk.n(700, 20000)):
            b = bytearray(s)
            for _ in range(rng.choice([1, 1, 1, 2, 3])):
                pos = rng.randrange(len(b) + 1)
                r = rng.random()
                ch = rng.choice(specials) if rng.random() < 0.8 else rng.randrange(256)
                if r < 0.4 and pos < len(b): b[pos] = ch
                elif r < 0.8: b.insert(pos, ch)
                elif pos < len(b): del b[pos]
            out.append(("edit:%d:%d" % (si, k), bytes(b)))
    for k in range(chk.n(200, 5000)):
        n = rng.choice([1, 2, 3, 8, 30, 200])
        alpha = b"?:@`%!&*|>-[]{},#'\"\\\t\n  aclient"
        out.append(("noise:%d" % k, bytes(rng.choice(alpha) if rng.random() < 0.9 else rng.randrange(256) for _ in range(n))))
    return out

# ------------------------------------------------------------------ build descriptions through model and implementation

def wellformed(data):
    """Syntactic well-formedness according to an independent YAML parser (PyYAML), None if unavailable."""
    try:
        import yaml
    except Exception:
        return None
    try:
        for _ in yaml.parse(data):
            pass
        return True
    except Exception:
        return False

# The tie between model and implementation does not depend on the WORDING of diagnostics.  Compared for every description:
#   (a) description delivered or not, (b) the number of error callbacks, (c) per callback whether it carries a source position
#   (the model's error class fixes that: "missing document" / "malformed YAML" have none, everything else is attached to a node),
#   (d) what the delegate had been handed when loading ended (tools looked up, distinct targets, nodes created, commands loaded,
#   default target).  The message text -> error code table of the driver is a refinement only: a recognised text must carry the
#   model's code at that index, an unrecognised one (code 99) is ignored and counted in the evidence.
UNLOCATED_CODES = {"10", "12", "13"}      # error(StringRef) without a node
EITHER_CODES = {"11"}                     # additional document: attached to its root when there is one

def tie(impl, model, check_positions=True):
    """impl: answer of `load`; model: answer of `root`. Returns (reason of disagreement or None, number of unrecognised texts)."""
    f = [x for x in impl.split(" ") if x != "BADPOS" and not x.startswith(("OTHER:", "OBSERVED:"))]
    m = model.split(" ")
    if m[0] not in ("OK", "ERR") or len(m) < 7:
        return "model outcome %s" % model[:40], 0
    if f[0] not in ("OK", "ERR") or len(f) < 8:
        return "implementation answer not understood", 0
    if f[0] != m[0]:
        return "accepted vs rejected", 0
    ic = [] if f[1] == "." else f[1].split(",")
    mc = [] if m[1] == "." else m[1].split(",")
    if len(ic) != len(mc):
        return "number of error callbacks (%d vs %d)" % (len(ic), len(mc)), 0
    if f[2:7] != m[2:7]:
        return "delivered to the delegate (tools targets nodes commands default): %s vs %s" % (" ".join(f[2:7]), " ".join(m[2:7])), 0
    pos = [] if f[7] == "P." else f[7][1:].split(",")
    unknown = 0
    for k, (a, b) in enumerate(zip(ic, mc)):
        if a == "99":
            unknown += 1
        elif a != b:
            return "error class of callback %d (%s vs %s)" % (k, a, b), unknown
        if check_positions and k < len(pos) and b not in EITHER_CODES:
            located = pos[k] != "-"
            if located != (b not in UNLOCATED_CODES):
                return "position of callback %d (%s, model class %s)" % (k, "present" if located else "absent", b), unknown
    return None, unknown

def bfile_part(chk, drv, drv_asan, model):
    rng = chk.rng
    ydir = os.path.join(TMP, "y")
    shutil.rmtree(ydir, ignore_errors=True)
    os.makedirs(ydir)
    cases = []          # (class key, data bytes, intended token list or None)
    for key, docs in gen_docs(chk):
        data = render(docs, rng, pflow=rng.choice([0.0, 0.3, 0.9]))
        cases.append((key, data, ["D%d" % len(docs)] + [t for d in docs for t in encode(d)]))
    for key, data in gen_raw(chk):
        cases.append((key, data, None))
    paths = []
    for i, (key, data, _) in enumerate(cases):
        p = os.path.join(ydir, "%d.llbuild" % i)
        with open(p, "wb") as f:
            f.write(data)
        paths.append(p)
    hp = [hx(p.encode()) for p in paths]
    trees = run_batch(drv, ["tree " + h for h in hp], per_timeout=20)
    loads = run_batch(drv_asan, ["load " + h for h in hp], env=ASAN_ENV, per_timeout=30)
    reals = run_batch(drv_asan, ["loadreal " + h for h in hp], env=ASAN_ENV, per_timeout=30)
    # model on the trees the real YAML parser produced
    mreq, midx = [], []
    for i, (st, ans) in enumerate(trees):
        if st == "ok" and ans.startswith("T "):
            toks = ans.split(" ")[2:]
            if len(toks) < 200000:
                mreq.append("root " + " ".join(toks)); midx.append(i)
    mres = run_batch(model, mreq, per_timeout=60)
    mans = {}
    for i, (st, ans) in zip(midx, mres):
        mans[i] = ans if st == "ok" else "MODEL-" + st.upper()
    stats = dict(docs=len(cases), wellformed_pyyaml=0, malformed_pyyaml=0, scanner_failed=0, intended_shape_realised=0, generated_trees=0,
                 load_ok=0, load_err=0, loadreal_ok=0, loadreal_err=0, compared=0, disagreements=0, disagreements_on_failed_streams=0,
                 model_crash_outcomes=0, error_codes_seen=set(), error_callbacks=0, unrecognised_error_texts=0)
    dis = []
    for i, (key, data, intended) in enumerate(cases):
        tst, tans = trees[i]
        failed = tst == "ok" and tans.startswith("T 1")
        stats["scanner_failed"] += 1 if failed else 0
        if intended is not None:
            stats["generated_trees"] += 1
            if tst == "ok" and tans.split(" ")[2:] == intended:
                stats["intended_shape_realised"] += 1
        rp = dict(input_hex=data.hex() if len(data) <= 6000 else None, input_len=len(data), input_head=data[:300].decode("latin1"), case=key, file=paths[i],
                  reproduce="write the bytes to F; %s (ASan build) <<< 'load <hex of F>'  /  'loadreal <hex of F>'; command line: llbuild buildsystem parse F" % drv_asan)
        if rp["input_hex"] is None:
            rp["input_note"] = "input longer than 6000 bytes: regenerated deterministically from the seed by the case key; also left in " + paths[i]
        # --- O: the property on the implementation
        for cmd, (st, ans) in (("tree", trees[i]), ("load", loads[i]), ("loadreal", reals[i])):
            if st == "ok":
                continue
            info = ans
            wf = wellformed(data)
            if info.get("kind") == "stack-overflow" and depth_of(data) >= 1000:
                k = "yaml-deep-nesting-stack-overflow"
                what = "a build description nested %d levels deep exhausts the stack inside llvm's YAML parser (%s)" % (depth_of(data), cmd)
            elif st == "hang":
                k = "bfile-%s-hang" % cmd
                what = "loading a build description does not terminate within the timeout (%s, case %s)" % (cmd, key)
            else:
                k = "bfile-%s-%s" % (cmd, info.get("kind"))
                what = "loading a %s build description ends in %s instead of an error callback (%s, case %s)" % (
                    {True: "well-formed", False: "malformed", None: ""}[wf], info.get("kind"), cmd, key)
            chk.violation(k, what, dict(rp, command=cmd, outcome=info, wellformed_per_pyyaml=wf), found_input=True, broken="c19 oracle on implementation (%s)" % cmd)
        lst, lans = loads[i]
        rst, rans = reals[i]
        if lst == "ok":
            f = lans.split(" ")
            stats["load_ok" if f[0] == "OK" else "load_err"] += 1
            if f[0] in ("OK", "ERR") and len(f) > 1 and f[1] != ".":
                stats["error_callbacks"] += len(f[1].split(","))
            if f[0] == "ERR" and (len(f) < 2 or f[1] == "."):
                chk.violation("bfile-silent-failure", "BuildFile::load() returned no description without reporting any error through the delegate (case %s)" % key,
                              dict(rp, command="load", answer=lans), found_input=True, broken="c19 oracle on implementation (errors only via the delegate)")
            if "BADPOS" in f:
                chk.violation("bfile-error-position-outside-buffer", "an error was reported at a position outside the buffer being parsed (case %s)" % key,
                              dict(rp, command="load", answer=lans), found_input=True, broken="c19 oracle on implementation (positions inside the buffer)")
            for x in f:
                if x.startswith("OTHER:"):
                    stats["unrecognised_error_texts"] += 1
                    t = vlib.unhx(x[6:]).decode("latin1")[:120]
                    seen = chk.notes.setdefault("unrecognised_error_texts_sample", [])
                    if t not in seen and len(seen) < 12:
                        seen.append(t)
                if x.startswith("OBSERVED:"):
                    chk.notes.setdefault("description_vs_delegate_counts", [])
                    if len(chk.notes["description_vs_delegate_counts"]) < 3:
                        chk.notes["description_vs_delegate_counts"].append(dict(case=key, answer=lans[:200]))
        if rst == "ok":
            f = rans.split(" ")
            stats["loadreal_ok" if f[0] == "OK" else "loadreal_err"] += 1
            if f[0] == "ERR" and f[1] == "0":
                chk.violation("bfile-silent-failure-real", "BuildSystem::loadDescription() failed without reporting any error through the delegate (case %s)" % key,
                              dict(rp, command="loadreal", answer=rans), found_input=True, broken="c19 oracle on implementation (errors only via the delegate)")
        # --- D: model vs implementation on the tree the real parser produced
        nontrivial = None
        if i in mans and lst == "ok":
            m = mans[i]
            if m == "CRASH":
                stats["model_crash_outcomes"] += 1
            stats["compared"] += 1
            ms = m.split(" ")
            if ms[0] in ("OK", "ERR") and len(ms) > 1 and ms[1] != ".":
                stats["error_codes_seen"].update(ms[1].split(","))
            why, _unknown = tie(lans, m, check_positions=not failed)
            if why is not None:
                if failed:
                    # the scanner failed somewhere in this text: the dump (which unescapes every scalar and walks every node)
                    # and the loader (which skips what it rejects) may notice the failure at different entries
                    stats["disagreements_on_failed_streams"] += 1
                    ex = chk.notes.setdefault("disagreements_on_failed_streams_examples", [])
                    if len(ex) < 4:
                        ex.append(dict(case=key, differs_in=why, input_hex=data.hex()[:1600], tree=tans[:300], implementation=lans, model=m))
                else:
                    stats["disagreements"] += 1
                    dis.append(dict(case=key, differs_in=why, input_head=data[:400].decode("latin1"), input_hex=data.hex() if len(data) < 3000 else None, tree=tans[:600], implementation=lans, model=m))
            nontrivial = ("bf", m[:80])
        chk.count(nontrivial if not key.startswith(("noise", "truncate", "edit")) or nontrivial else None)
    # well-formedness statistics on a sample (PyYAML is slow on big inputs)
    for i in rng.sample(range(len(cases)), min(len(cases), chk.n(400, 4000))):
        if len(cases[i][1]) < 5000:
            w = wellformed(cases[i][1])
            if w is True: stats["wellformed_pyyaml"] += 1
            elif w is False: stats["malformed_pyyaml"] += 1
    stats["error_codes_seen"] = sorted(stats["error_codes_seen"], key=lambda x: int(x))
    chk.cov["build_descriptions"] = stats
    chk.sample(dict(kind="build-description", case=cases[1][0], text=cases[1][1][:200].decode("latin1"), tree=trees[1][1][:120] if trees[1][0] == "ok" else None,
                    load=loads[1][1] if loads[1][0] == "ok" else None, model=mans.get(1), loadreal=reals[1][1] if reals[1][0] == "ok" else None))
    k = next((i for i, c in enumerate(cases) if c[0] == "command-tool-not-first"), 0)
    chk.sample(dict(kind="build-description", case=cases[k][0], text=cases[k][1][:160].decode("latin1"), load=loads[k][1] if loads[k][0] == "ok" else None, model=mans.get(k)))
    if dis:
        chk.notes["bfile_disagreements"] = dis[:5]
        if not chk.violations:
            d = dis[0]
            chk.violation("bfile-correspondence", "model (Parse/BuildFileRoot.v) and BuildFile::load() disagree on %d build descriptions (first: case %s, differing in %s: implementation %r, model %r); the oracle found no crash / hang / over-read" % (
                len(dis), d["case"], d["differs_in"], d["implementation"][:200], d["model"]), dict(broken="correspondence: Parse.BuildFileRoot.load vs lib/BuildSystem/BuildFile.cpp", examples=dis[:3]),
                found_input=False, broken="correspondence: Parse.BuildFileRoot.load")
    # the known finding: one very deep document, generated at run time (cheap: 2 x 60000 bytes)
    deep_n = 60000
    deep = b"client:\n  name: basic\ntools: {a: " + b"[" * deep_n + b"]" * deep_n + b"}\n"
    p = os.path.join(ydir, "deep.llbuild")
    open(p, "wb").write(deep)
    (st, ans), = run_batch(drv_asan, ["load " + hx(p.encode())], env=ASAN_ENV, per_timeout=120)
    chk.count(("bf-deep", st))
    chk.cov["build_descriptions"]["deep_nesting_%d" % deep_n] = st if st != "ok" else ans
    if st != "ok":
        kind = ans.get("kind")
        chk.violation("yaml-deep-nesting-stack-overflow" if kind in ("stack-overflow", "segv", "signal11") else "bfile-load-%s" % kind,
                      "a well-formed build description whose value is nested %d flow sequences deep ends in %s (recursion in llvm::yaml skip()/parse) instead of an error callback" % (deep_n, kind),
                      dict(generator="b'client:\\n  name: basic\\ntools: {a: ' + b'[' * %d + b']' * %d + b'}\\n'" % (deep_n, deep_n), input_len=len(deep), command="load", outcome=ans, file=p,
                           reproduce="python3 -c \"import sys; sys.stdout.buffer.write(b'client:\\n  name: basic\\ntools: {a: ' + b'['*1000000 + b']'*1000000 + b'}\\n')\" > F; llbuild buildsystem parse F   (regular build: SIGSEGV at depth 1000000; ASan build at %d)" % deep_n),
                      found_input=True, broken="c19 oracle on implementation (load)")
    # command-line layer on the corpus and a sample (crash of `llbuild buildsystem parse` itself, incl. its diagnostics printer)
    llb = cli_binary()
    pick = [i for i, c in enumerate(cases) if c[0].startswith(("corpus", "raw"))] + rng.sample(range(len(cases)), min(len(cases), chk.n(120, 2500)))
    ncli = 0
    for i in pick:
        rc, out, err = vlib.sh([llb, "buildsystem", "parse", "--no-output", paths[i]], timeout=30)
        ncli += 1
        if rc != 0:
            chk.violation("bfile-cli-%s" % ("hang" if rc == -9 else "signal%d" % -rc if rc < 0 else "exit%d" % rc),
                          "`llbuild buildsystem parse` ends abnormally (rc %d) on case %s" % (rc, cases[i][0]),
                          dict(input_hex=cases[i][1].hex()[:12000], case=cases[i][0], file=paths[i], reproduce="%s buildsystem parse --no-output %s" % (llb, paths[i]), stderr=err[-1500:]),
                          found_input=True, broken="c19 oracle on implementation (command line)")
    chk.cov["build_descriptions"]["cli_runs"] = ncli
    chk.count(None, ncli)

# ------------------------------------------------------------------ whole-manifest loading

NINJA_TIMEOUT = 10      # seconds per manifest; the slowest terminating case takes milliseconds
NINJA_SEEDS = [
    b"# comment\ncflags = -O2 $\n    -g\nrule cc\n  command = cc $cflags -c $in -o $out\n  description = CC $out\n  depfile = $out.d\n  deps = gcc\nrule link\n  command = ld $in -o $out\npool p\n  depth = 2\n"
    b"build a.o: cc a.c | a.h || gen\n  cflags = -O0 ${cflags}\n  pool = p\nbuild b.o: cc b$ c.c\nbuild prog: link a.o b.o\nbuild gen: phony\ndefault prog\n",
    b"rule r\n  command = $command\n  description = $description $$ $: $ x\n  rspfile = $out.rsp\n  rspfile_content = $in_newline\n  generator = 1\n  restat = 1\nbuild o1 o2: r i1 i2\n  x = $y\n  y = $x\ninclude inc.ninja\nsubninja sub.ninja\nbuild o3: r o1\ndefault o1 o3\n",
    b"a = 1\nb = $a$a ${a}x $\n  c\nrule x\n  command = true\r\nbuild out: x in\r\n  a = 2\r\nbuild out2: phony out\n",
]
NINJA_DICT = [b"rule ", b"build ", b"default ", b"include ", b"subninja ", b"pool ", b"command = ", b"depth = ", b"deps = gcc", b"deps = msvc", b"depfile = ", b"$", b"$$", b"${", b"}", b"$\n", b"$\r\n", b"$ ",
              b"$:", b":", b"|", b"||", b"=", b"\n", b"\r\n", b"\r", b"  ", b"\t", b"#", b"\xff", b"\x00", b"$in", b"$out", b"${out}", b"$command", b"phony", b" ", b"a.ninja", b"self.ninja"]

def ninja_cases(chk):
    rng = chk.rng
    cases = []      # (key, {filename: bytes}) main file = "build.ninja" unless key says otherwise
    def one(key, data, **more):
        files = {"build.ninja": data}
        files.update({k.replace("_", "."): v for k, v in more.items()})
        cases.append((key, files))
    # corpus: former crashers and termination questions
    one("self-command", b"rule r\n  command = $command\nbuild o: r i\n")
    one("mutual-rule-vars", b"rule r\n  command = $a\n  description = $b\n  a = $b\n  b = $a\nbuild o: r i\n")
    one("mutual-rule-vars2", b"rule r\n  command = $description\n  description = $command\nbuild o: r\n")
    one("mutual-bindings", b"a = $b\nb = $a\nrule r\n  command = $a $b\nbuild o: r\n  a = $b\n  b = $a\n")
    one("self-include", b"include build.ninja\n")
    one("self-subninja", b"subninja build.ninja\n")
    one("self-include-prefix", b"a = 1\nrule r\n  command = x\ninclude build.ninja\nbuild o: r\n")
    one("mutual-include", b"include other.ninja\n", other_ninja=b"include build.ninja\n")
    one("mutual-subninja", b"subninja other.ninja\n", other_ninja=b"rule r\n  command = x\nsubninja build.ninja\n")
    one("self-include-twice", b"include build.ninja\ninclude build.ninja\n")
    one("self-subninja-twice", b"subninja build.ninja\nsubninja build.ninja\n")
    one("mutual-include-twice", b"include other.ninja\ninclude other.ninja\n", other_ninja=b"include build.ninja\ninclude build.ninja\n")
    one("include-missing", b"include nothere.ninja\nsubninja nothere2.ninja\nbuild a: phony\n")
    one("include-dir", b"include .\ninclude ..\ninclude /\n")
    one("include-var", b"f = other.ninja\ninclude $f\n", other_ninja=b"x = 1\n")
    one("include-rule-scope", b"subninja other.ninja\nbuild o: r i\n", other_ninja=b"rule r\n  command = c $in\nbuild p: r q\n")
    one("include-rule-lifetime", b"include other.ninja\nbuild o: r i\n  command = over\nbuild o2: r i\n", other_ninja=b"rule r\n  command = c $in ${out} $\n   more\n  description = D\n")
    for tail in (b"$", b"a $", b"a = $", b"build o: r $", b"rule r\n  command = $", b"rule r\n  command = a$\n", b"a = ${", b"a = ${b", b"a = $\n", b"a = $\r", b"a = $\r\n", b"\xff", b"a\xff= 1\n", b"a = \xff\n",
                 b"build \xff: phony\n", b"rule \xff\n", b"#", b"#\xff", b" ", b"  ", b"\t", b"  a = 1", b"\r", b"\r\n", b"\n\r", b"\x00", b"a = 1\x00\n", b"build", b"rule", b"pool", b"default", b"include", b"subninja",
                 b"build ", b"build a", b"build a:", b"build a: ", b"build a: r", b"build a: r |", b"build a: r ||", b"build a: r | b || c", b"build : r\n", b"build a: \n", b"build a b c\n", b"pool\n", b"pool p\n", b"pool p\n  depth = 0\n",
                 b"pool p\n  depth = -1\n", b"pool p\n  depth = 99999999999999999999\n", b"pool p\n  depth = x\n", b"pool p\n  x = 1\n", b"pool p\n  depth = 1\npool p\n  depth = 2\n", b"rule r\nrule r\n", b"rule r\n  bogus = 1\n",
                 b"default\n", b"default nothere\n", b"default a b $\n c\n", b"rule r\n  command = x\nbuild o: r\n  pool = nope\n  deps = bogus\n  depfile = \n", b"rule r\n  command = x\n  deps = gcc\nbuild o: r\n",
                 b"rule r\n  command = x\n  depfile = d\n  deps = msvc\nbuild o: r\n", b"rule r\n  command = x\n  rspfile = /\nbuild o: r\n", b"rule r\n  command = x\n  rspfile = ../../../..\nbuild o: r\n",
                 b"build $: r\n", b"build $ : r\n", b"build a$:b: phony\n", b"build ${x}: phony\n", b"x = \nbuild $x: phony $x\n", b"=\n", b"= 1\n", b"a =\n", b"a=1\n", b"a = 1 = 2\n", b"a b = 1\n", b"a\n", b"|\n", b"||\n", b":\n"):
        one("tail:" + tail.hex()[:40], tail)
    # every truncation of the seeds, with the included files present
    inc = dict(inc_ninja=b"rule inc\n  command = i\nx = inc\n", sub_ninja=b"rule sub\n  command = s $x\nbuild so: sub si\n")
    for si, s in enumerate(NINJA_SEEDS):
        for cut in range(len(s) + 1):
            one("truncate:%d:%d" % (si, cut), s[:cut], **inc)
    # mutations: byte edits and dictionary splices, CR/LF mixes
    for k in range(chk.n(15000, 120000)):
        s = bytearray(rng.choice(NINJA_SEEDS))
        for _ in range(rng.choice([1, 1, 2, 3, 6])):
            r = rng.random()
            pos = rng.randrange(len(s) + 1)
            if r < 0.3:
                s[pos:pos] = rng.choice(NINJA_DICT)
            elif r < 0.5 and pos < len(s):
                s[pos] = rng.choice(b"$:|=#\n\r \t\xff\x00{}") if rng.random() < 0.8 else rng.randrange(256)
            elif r < 0.65:
                s.insert(pos, rng.choice(b"$:|=#\n\r \t\xff\x00{}"))
            elif r < 0.8 and pos < len(s):
                del s[pos:pos + rng.choice([1, 1, 2, 5, 20])]
            elif r < 0.9:
                s = s[:pos]
            else:
                s = bytearray(bytes(s).replace(b"\n", rng.choice([b"\r\n", b"\r", b"\n\r", b"\n\n"]), rng.randint(1, 8)))
        one("mutant:%d" % k, bytes(s), **inc)
    for k in range(chk.n(4000, 30000)):
        n = rng.choice([1, 2, 3, 5, 9, 40, 300])
        r = rng.random()
        if r < 0.5:
            data = b"".join(rng.choice(NINJA_DICT) for _ in range(n))
        else:
            data = bytes(rng.randrange(256) if rng.random() < 0.3 else rng.choice(b"abr $:|=#\n\r\t{}") for _ in range(n))
        one("random:%d" % k, data)
    return cases

def ninja_part(chk, drv_asan):
    rng = chk.rng
    ndir = os.path.join(TMP, "n")
    shutil.rmtree(ndir, ignore_errors=True)
    os.makedirs(ndir)
    cases = ninja_cases(chk)
    paths = []
    shared = None
    for i, (key, files) in enumerate(cases):
        extra = {k: v for k, v in files.items() if k != "build.ninja"}
        # cases with the standard companion files share directories of 500 to keep the file count low
        if set(extra) <= {"inc.ninja", "sub.ninja"} and not key.startswith(("self", "mutual", "include")):
            if shared is None or shared[1] >= 500:
                d = os.path.join(ndir, "s%d" % i)
                os.makedirs(d)
                open(os.path.join(d, "inc.ninja"), "wb").write(b"rule inc\n  command = i\nx = inc\n")
                open(os.path.join(d, "sub.ninja"), "wb").write(b"rule sub\n  command = s $x\nbuild so: sub si\n")
                shared = [d, 0]
            shared[1] += 1
            p = os.path.join(shared[0], "m%d.ninja" % i)
            open(p, "wb").write(files["build.ninja"])
        else:
            d = os.path.join(ndir, "c%d" % i)
            os.makedirs(d)
            for fn, data in files.items():
                open(os.path.join(d, fn), "wb").write(data)
            p = os.path.join(d, "build.ninja")
        paths.append(p)
    res = run_batch(drv_asan, ["ninja_load " + hx(p.encode()) for p in paths], env=ASAN_ENV, per_timeout=NINJA_TIMEOUT)
    stats = dict(manifests=len(cases), loaded=0, with_errors=0, commands=0, files_read=0, first_messages=set())
    for (key, files), p, (st, ans) in zip(cases, paths, res):
        rp = dict(case=key, files={k: v.hex() for k, v in files.items()}, main="build.ninja", file=p,
                  reproduce="write the files into one directory; %s (ASan build) <<< 'ninja_load <hex of path of build.ninja>'; command line: cd DIR && llbuild ninja load-manifest build.ninja" % drv_asan)
        if st != "ok":
            kind = ans.get("kind")
            chk.violation("ninja-load-%s" % ("hang" if st == "hang" else kind),
                          "loading a Ninja manifest %s (case %s)" % ("does not terminate within the timeout" if st == "hang" else "ends in %s instead of an error callback" % kind, key),
                          dict(rp, outcome=ans), found_input=True, broken="c19 oracle on implementation (ninja::ManifestLoader, exact-size buffers)")
            chk.count(("nj-crash", key))
            continue
        f = ans.split(" ")
        if f[0] not in ("OK", "NULL") or len(f) < 5:
            chk.violation("ninja-load-bad-answer", "driver answer not understood: %r" % ans[:200], dict(rp), found_input=False, broken="harness")
            continue
        stats["loaded"] += 1 if f[0] == "OK" else 0
        stats["with_errors"] += 1 if f[2] != "0" else 0
        stats["commands"] += int(f[1]); stats["files_read"] += int(f[3])
        if f[4] != "-":
            stats["first_messages"].add(vlib.unhx(f[4]).decode("latin1")[:60])
        if "BADPOS" in f:
            chk.violation("ninja-error-position-outside-buffer", "the manifest loader reported an error whose token lies outside the buffer of the current parser (case %s)" % key,
                          dict(rp, answer=ans), found_input=True, broken="c19 oracle on implementation (token positions inside the buffer)")
        if f[0] == "NULL" and f[2] == "0":
            chk.violation("ninja-silent-failure", "ManifestLoader::load() returned no manifest without reporting an error (case %s)" % key, dict(rp, answer=ans), found_input=True,
                          broken="c19 oracle on implementation (errors only via the callbacks)")
        chk.count(("nj", f[1], f[2] != "0", f[4][:24]) if not key.startswith("random") or f[1] != "0" else None)
    stats["distinct_first_messages"] = len(stats["first_messages"])
    stats["first_messages"] = sorted(stats["first_messages"])[:40]
    chk.cov["ninja_manifests"] = stats
    k = next(i for i, c in enumerate(cases) if c[0] == "self-include")
    chk.sample(dict(kind="ninja-manifest", case="self-include", text="include build.ninja", answer=res[k][1] if res[k][0] == "ok" else res[k][1].get("kind")))
    # command line on the corpus and a sample
    llb = cli_binary()
    pick = [i for i, c in enumerate(cases) if c[0].startswith(("self", "mutual", "include", "tail"))] + rng.sample(range(len(cases)), min(len(cases), chk.n(100, 2500)))
    for i in pick:
        if res[i][0] != "ok":
            continue            # already reported through the driver
        rc, out, err = vlib.sh([llb, "ninja", "load-manifest", paths[i]], timeout=30)
        if rc not in (0, 1):
            chk.violation("ninja-cli-%s" % ("hang" if rc == -9 else "signal%d" % -rc if rc < 0 else "exit%d" % rc),
                          "`llbuild ninja load-manifest` ends abnormally (rc %d) on case %s" % (rc, cases[i][0]),
                          dict(case=cases[i][0], files={k: v.hex() for k, v in cases[i][1].items()}, file=paths[i], reproduce="%s ninja load-manifest %s" % (llb, paths[i]), stderr=err[-1500:]),
                          found_input=True, broken="c19 oracle on implementation (command line)")
    chk.cov["ninja_manifests"]["cli_runs"] = len(pick)
    chk.count(None, len(pick))

# ------------------------------------------------------------------ include / subninja graphs on a real directory tree with links

LINK_TIMEOUT = 2        # seconds: every graph below is diagnosed in milliseconds when re-entering a file is recognised
LINK_CONFIRM = 6        # a graph that misses the deadline is run once more, alone, with this one (a loaded machine is not a finding)

def materialize(d, tree):
    """tree: name -> bytes | ["symlink", target] | ["hardlink", source name] | ["dir"]; "@DIR@" in file contents and link targets
    stands for the base name of d, "@ABS@" for its absolute path."""
    os.makedirs(d, exist_ok=True)
    base = os.path.basename(d)
    def sub(x):
        return x.replace("@DIR@", base).replace("@ABS@", d)
    later = []
    for name, v in tree.items():
        p = os.path.join(d, name)
        os.makedirs(os.path.dirname(p), exist_ok=True)
        if isinstance(v, (bytes, bytearray)):
            open(p, "wb").write(v.replace(b"@DIR@", base.encode()).replace(b"@ABS@", d.encode()))
        elif v[0] == "dir":
            os.makedirs(p, exist_ok=True)
        else:
            later.append((p, v))
    for p, v in later:
        if v[0] == "symlink":
            os.symlink(sub(v[1]), p)
        else:
            os.link(os.path.join(d, v[1]), p)

def tree_json(tree):
    return {k: (v.hex() if isinstance(v, (bytes, bytearray)) else list(v)) for k, v in tree.items()}

def tree_unjson(j):
    return {k: (bytes.fromhex(v) if isinstance(v, str) else list(v)) for k, v in j.items()}

def link_graphs():
    """(key, tree) with main file build.ninja; every graph re-enters a file that is still being loaded, twice per level."""
    out = []
    for kw in (b"include", b"subninja"):
        k = kw.decode()
        two = lambda path: kw + b" " + path + b"\n" + kw + b" " + path + b"\n"
        out.append(("%s:self" % k, {"build.ninja": two(b"build.ninja")}))
        out.append(("%s:self-dot" % k, {"build.ninja": two(b"./build.ninja")}))
        out.append(("%s:self-dotdot" % k, {"build.ninja": two(b"x/../build.ninja"), "x": ["dir"]}))
        out.append(("%s:self-absolute" % k, {"build.ninja": two(b"@ABS@/build.ninja")}))
        out.append(("%s:mutual" % k, {"build.ninja": two(b"other.ninja"), "other.ninja": two(b"build.ninja")}))
        out.append(("%s:three-cycle" % k, {"build.ninja": two(b"b.ninja"), "b.ninja": two(b"c.ninja"), "c.ninja": two(b"build.ninja")}))
        # the same file under an ever longer name: directory link to itself, prefix grows by one "d/" per level
        out.append(("%s:dirlink-self-growing" % k, {"build.ninja": b"p = ${p}d/\n" + two(b"${p}build.ninja"), "d": ["symlink", "."]}))
        out.append(("%s:dirlink-absolute-growing" % k, {"build.ninja": b"p = ${p}d/\n" + two(b"${p}build.ninja"), "d": ["symlink", "@ABS@"]}))
        out.append(("%s:dirlink-parent-growing" % k, {"build.ninja": b"p = ${p}sub/up/\n" + two(b"${p}build.ninja"), "sub": ["dir"], "sub/up": ["symlink", ".."]}))
        out.append(("%s:dirlink-pair-growing" % k, {"build.ninja": b"p = ${p}a/b/\n" + two(b"${p}build.ninja"), "a": ["dir"], "a/b": ["symlink", ".."]}))
        out.append(("%s:dotdot-dirname-growing" % k, {"build.ninja": b"p = ${p}../@DIR@/\n" + two(b"${p}build.ninja")}))
        # through a linked copy of the file
        out.append(("%s:symlinked-copy" % k, {"build.ninja": two(b"copy.ninja"), "copy.ninja": ["symlink", "build.ninja"]}))
        out.append(("%s:hardlinked-copy" % k, {"build.ninja": two(b"copy.ninja"), "copy.ninja": ["hardlink", "build.ninja"]}))
        for kind in ("symlink", "hardlink"):
            t = {"build.ninja": b"n = ${n}1\n" + two(b"l${n}.ninja")}
            for depth in range(1, 41):
                t["l" + "1" * depth + ".ninja"] = [kind, "build.ninja"]
            out.append(("%s:%s-chain-40" % (k, kind), t))
        out.append(("%s:symlink-to-symlink-chain" % k, dict([("build.ninja", b"n = ${n}1\n" + two(b"l${n}.ninja")), ("l1.ninja", ["symlink", "build.ninja"])] +
                                                            [("l" + "1" * dpt + ".ninja", ["symlink", "l" + "1" * (dpt - 1) + ".ninja"]) for dpt in range(2, 31)])))
    return out

def ninja_links_part(chk, drv_asan):
    ldir = os.path.join(TMP, "l")
    shutil.rmtree(ldir, ignore_errors=True)
    graphs = link_graphs()
    stats = dict(graphs=len(graphs), diagnosed=0, missed_deadline_once=0, errors=0, files_read=0)
    hangs = 0
    for i, (key, tree) in enumerate(graphs):
        d = os.path.join(ldir, "g%d" % i)
        materialize(d, tree)
        p = os.path.join(d, "build.ninja")
        rp = dict(case="links:" + key, tree=tree_json(tree), main="build.ninja", file=p, timeout_s=LINK_TIMEOUT,
                  reproduce="recreate the tree (name -> hex contents | [symlink, target] | [hardlink, source] | [dir]; @DIR@ = directory name, @ABS@ = its absolute path); "
                            "cd DIR && timeout %d llbuild ninja load-manifest build.ninja   (or: %s <<< 'ninja_load <hex of DIR/build.ninja>')" % (LINK_CONFIRM, drv_asan))
        (st, ans), = run_batch(drv_asan, ["ninja_load " + hx(p.encode())], env=ASAN_ENV, per_timeout=LINK_TIMEOUT)
        if st == "hang" and hangs == 0:
            stats["missed_deadline_once"] += 1
            (st, ans), = run_batch(drv_asan, ["ninja_load " + hx(p.encode())], env=ASAN_ENV, per_timeout=LINK_CONFIRM)
        chk.count(("nj-links", key, st))
        if st == "hang":
            hangs += 1
            chk.violation("ninja-load-does-not-terminate",
                          "loading a Ninja manifest that re-enters a file still being loaded (graph %s, two inclusions per level) does not return within %d s: "
                          "the recursion is not diagnosed and the work doubles with every level" % (key, LINK_CONFIRM),
                          dict(rp, outcome=ans), found_input=True, broken="c19 oracle on implementation (ninja::ManifestLoader terminates on include graphs with links)")
            if hangs >= 3:
                chk.notes["link_graphs_not_run"] = len(graphs) - i - 1
                break
            continue
        if st != "ok":
            chk.violation("ninja-load-%s" % ans.get("kind"), "loading a Ninja manifest ends in %s instead of an error callback (graph %s)" % (ans.get("kind"), key),
                          dict(rp, outcome=ans), found_input=True, broken="c19 oracle on implementation (ninja::ManifestLoader, exact-size buffers)")
            continue
        f = ans.split(" ")
        if len(f) >= 4 and f[0] in ("OK", "NULL"):
            stats["errors"] += int(f[2]); stats["files_read"] += int(f[3])
            if int(f[2]) >= 1:
                stats["diagnosed"] += 1
            else:
                chk.violation("ninja-recursive-include-unreported", "a manifest that includes itself (graph %s) loads without any error callback" % key,
                              dict(rp, answer=ans), found_input=True, broken="c19 oracle on implementation (problems reported through the error callback)")
    chk.cov["ninja_link_graphs"] = stats

# ------------------------------------------------------------------ parts owned by other areas

def other_parts(chk):
    for modname, fn in (("props.c11", "deps_part"), ("props.c17lex", "lexer_part"), ("props.ninjaparse", "parse_part")):
        try:
            mod = __import__(modname, fromlist=[fn])
            f = getattr(mod, fn)
        except Exception as e:
            chk.notes["part_unavailable:" + modname] = "%s.%s not available (%s: %s); that part of C19 did not run" % (modname, fn, type(e).__name__, str(e)[:200])
            continue
        try:
            f(chk)
            chk.notes["part_ran:" + modname] = fn
        except vlib.BuildError:
            raise
        except Exception as e:
            chk.notes["part_failed:" + modname] = "%s.%s raised %s: %s" % (modname, fn, type(e).__name__, str(e)[:300])

# ------------------------------------------------------------------ entry points

def private_copy(path, lock, name):
    """The libraries of /repo (and with them the drivers and llbuild) are relinked whenever another check runs after a
    commit; run from a private copy taken under the builder's lock."""
    os.makedirs(os.path.join(TMP, "bin"), exist_ok=True)
    dst = os.path.join(TMP, "bin", name)
    for attempt in range(6):
        try:
            with vlib.Lock(lock):
                tmp = dst + ".%d" % os.getpid()
                shutil.copy2(path, tmp)
                os.replace(tmp, dst)
            return dst
        except OSError:
            time.sleep(2)
    return path

def setup():
    drv = private_copy(vlib.build_drivers(["bfile_driver"])["bfile_driver"], "drv-hooks", "bfile_driver")
    drv_asan = private_copy(vlib.build_drivers(["bfile_driver"], "asan")["bfile_driver"], "drv-asan", "bfile_driver_asan")
    model = vlib.model_bin("bfile")
    return drv, drv_asan, model

def cli_binary():
    return private_copy(vlib.llbuild_bin(), "build-hooks", "llbuild")

def run(chk):
    try:
        return run_parts(chk)
    finally:
        if not chk.violations:
            shutil.rmtree(TMP, ignore_errors=True)

def run_parts(chk):
    drv, drv_asan, model = setup()
    chk.proof_gate()
    bfile_part(chk, drv, drv_asan, model)
    ninja_part(chk, drv_asan)
    ninja_links_part(chk, drv_asan)
    other_parts(chk)
    chk.assumptions = ["the build-description loader is given what llvm's YAML parser delivers for the file (the scanner is exercised under ASan/UBSan, not modelled)",
                       "delegate decisions (tool lookup, attribute acceptance, client configuration, ownership analysis) are abstract in the model; the differential uses the accept-everything delegate of `llbuild buildsystem parse`",
                       "hang = no answer within the per-input timeout (30 s); stack exhaustion by nesting depth is a recorded known finding of the vendored YAML parser",
                       "whole-manifest loading is checked by the oracle only (no Coq model of Parser.cpp / ManifestLoader.cpp); the lexer and the dependency-file parsers have their own models (c17lex, c11)"]
    return chk.finish(level="proof",
                      rule="build descriptions: every selection/order/duplication of up to 3 sections, every section / entry / attribute key and value of every node kind, every built-in tool x attribute name x value shape, "
                           "multi-document streams, nesting 120 deep, long and non-UTF-8 scalars, random subtree mutations, hand-written anchors/aliases/tags/block-scalar/malformed texts, every truncation and random edits of two documents; "
                           "each through the real YAML parser -> model and through BuildFile::load / BuildSystem::loadDescription under ASan+UBSan. non-trivial = distinct (outcome, error-code list, counts) of the real loader. "
                           "include graphs: self / mutual / 3-cycle includes and subninjas, and the same file re-entered under ever longer names through directory links (d -> ., absolute, parent), ../<dir>/, chains of 40 symbolic and hard links, all with fan-out 2, on a real directory tree, deadline 2 s. "
                           "manifests: corpus of self/mutual includes and self-referential variables, every truncation of 3 seed manifests, dictionary/byte mutants, random bytes, in exact-size unterminated heap buffers under ASan; "
                           "non-trivial = distinct (commands, errors?, first message)",
                      trusted=["hand-written model coq/Parse/BuildFileRoot.v tied by correspondence on the trees the real YAML parser produces", "llvm YAML scanner exercised, not modelled",
                               "harness/cpp/bfile_driver.cpp", "extraction (ExtrOcamlBasic) + ocaml/vmodel_bfile.ml", "AddressSanitizer / UndefinedBehaviorSanitizer (clang 14) as the over-read detector"])

def replay(chk, rp):
    """Re-run the recorded input through the recorded command."""
    print(json.dumps({k: (v if not isinstance(v, str) or len(v) < 400 else v[:400] + "...") for k, v in rp.items()}, indent=1))
    drv, drv_asan, model = setup()
    d = os.path.join(TMP, "replay")
    shutil.rmtree(d, ignore_errors=True)
    os.makedirs(d)
    key = rp.get("finding_key", "")
    if rp.get("tree"):
        materialize(d, tree_unjson(rp["tree"]))
        p = os.path.join(d, rp.get("main", "build.ninja"))
        (st, ans), = run_batch(drv_asan, ["ninja_load " + hx(p.encode())], env=ASAN_ENV, per_timeout=LINK_CONFIRM)
        print("ninja_load:", st, ans)
        if st != "ok":
            chk.violation(key or "ninja-load-does-not-terminate", rp.get("what", "replayed include graph still fails"), dict(rp, outcome=ans), found_input=True, broken=rp.get("broken"))
        chk.count(("replay", key))
        return run(chk)
    if rp.get("files"):
        for fn, h in rp["files"].items():
            open(os.path.join(d, fn), "wb").write(bytes.fromhex(h))
        p = os.path.join(d, rp.get("main", "build.ninja"))
        (st, ans), = run_batch(drv_asan, ["ninja_load " + hx(p.encode())], env=ASAN_ENV, per_timeout=30)
        print("ninja_load:", st, ans)
        if st != "ok":
            chk.violation(key or "ninja-load-crash", rp.get("what", "replayed manifest still fails"), dict(rp, outcome=ans), found_input=True, broken=rp.get("broken"))
        chk.count(("replay", key))
        return run(chk)
    if rp.get("input_hex") or rp.get("generator"):
        data = bytes.fromhex(rp["input_hex"]) if rp.get("input_hex") else eval(rp["generator"], {"__builtins__": {}})
        p = os.path.join(d, "replay.llbuild")
        open(p, "wb").write(data)
        cmd = rp.get("command", "load")
        if cmd not in ("tree", "load", "loadreal"):
            cmd = "load"
        (st, ans), = run_batch(drv_asan if cmd != "tree" else drv, ["%s %s" % (cmd, hx(p.encode()))], env=ASAN_ENV, per_timeout=120)
        print("%s:" % cmd, st, ans)
        if st != "ok":
            chk.violation(key or "bfile-crash", rp.get("what", "replayed build description still fails"), dict(rp, outcome=ans), found_input=True, broken=rp.get("broken"))
        elif key.startswith("bfile-silent") or "position" in key:
            f = ans.split(" ")
            if "BADPOS" in f or (f[0] == "ERR" and (len(f) < 2 or f[1] in (".", "0"))):
                chk.violation(key, rp.get("what", ""), dict(rp, answer=ans), found_input=True, broken=rp.get("broken"))
        chk.count(("replay", key))
    return run(chk)
