# implacc (P24): ACCEPTANCE tie of the small-step engine model coq/Engine/Impl.v with the queue discipline left open (coq/Engine/ImplGen.v).
# Instead of demanding that the real engine's output equals the deterministic loop `ibuild` line by line (props/impl.py, tie D), the
# observed trace of the real core::BuildEngine (harness/cpp/engine_driver.cpp, no iteration markers) must be the log of SOME run of
# ImplGen.msteps_gen: per build a guided depth-first search (ocaml/vmodel_implacc.ml, handler `accept`) looks for a sequence of steps
# taken from the computable enumerator ImplGen.enabled_gen (any position of any of the five queues; a completion of any computing task
# whose value is pending) whose ghost log is exactly the observed need/valid/create/start/prior/provide/avail/complete lines, after
# which the loop can be left (ImplAccept.acc_finish) with the observed result / wait-for graph / cycle, and the observed epoch, deps
# (ORDER included), dbrow and dbepoch lines equal the model state's.  The next build starts from the state the accepted run ended in.
# What the acceptance relies on: ImplGenProofs.enabled_gen_sound (every enumerated step is an mstep_gen), hence every accepted build is an
# in_build_gen run and the theorems over msteps_gen apply to what the engine did.  Trusted glue: the scenario interpreter, acc_begin /
# acc_finish (ImplAccept.v: the beginning and the end of ibuild_gen, not proved equal to it), irestart, dump_touch, value printing.
# Oracle O (independent of the model): the per-task protocol automaton enginelib.protocol_check on the implementation trace.
import os, random, time, atexit
import vlib, enginelib as E, enginechk as K

TMP = os.path.join(vlib.WORK, "tmp", "implacc")
BROKEN = "acceptance: the observed trace is not an msteps_gen run of Engine/Impl.v"


def _env():
    e = dict(os.environ)
    e.pop("VERIF_ITER_MARKS", None)
    return e


def acc_model(sess):
    """The line-protocol process of the implacc model, kept on the session object."""
    it = getattr(sess, "acc", None)
    if it is None:
        it = vlib.Interactive(vlib.model_bin("implacc"))
        sess.acc = it
        atexit.register(it.close)          # impl.Sess.close() does not know about this process
    return it


def acc_close(sess):
    it = getattr(sess, "acc", None)
    if it is not None:
        it.close()
        sess.acc = None


def _stats(chk, ans):
    """ok builds=.. events=.. steps=.. nodes=.. maxnodes=.. maxratio=.. ratiohist=a,b,c,d,e,f -> accumulated in chk.notes"""
    kv = dict(x.split("=", 1) for x in ans.split(" ")[1:] if "=" in x)
    n = chk.notes
    if int(kv.get("reduction_missed", 0)):
        n["builds_accepted_only_by_the_plain_search (a search reduction lost the run: tell P24)"] = \
            n.get("builds_accepted_only_by_the_plain_search (a search reduction lost the run: tell P24)", 0) + int(kv["reduction_missed"])
    for k in ("builds", "events", "steps", "nodes"):
        n["acceptance_" + k] = n.get("acceptance_" + k, 0) + int(kv.get(k, 0))
    n["acceptance_max_nodes_per_build"] = max(n.get("acceptance_max_nodes_per_build", 0), int(kv.get("maxnodes", 0)))
    n["acceptance_max_nodes_per_step"] = max(n.get("acceptance_max_nodes_per_step", 0.0), float(kv.get("maxratio", 1)))
    h = [int(x) for x in kv.get("ratiohist", "0,0,0,0,0,0").split(",")]
    old = n.get("acceptance_builds_by_nodes_per_step (=1, <=1.5, <=2, <=5, <=20, more)", [0] * 6)
    n["acceptance_builds_by_nodes_per_step (=1, <=1.5, <=2, <=5, <=20, more)"] = [a + b for a, b in zip(old, h)]
    return kv


def accept_history(chk, sess, lines, tag, origin, expect=None):
    """Drop-in for impl.one_history: run the history on the real engine, judge it by the protocol oracle and by acceptance."""
    from props import impl as I
    wd = os.path.join(TMP, chk.pid.lower(), tag)
    for attempt in range(6):
        try:
            rc, out, err, sp, tp = E.run_impl(sess.drv, lines, wd, env=_env())
            break
        except (PermissionError, OSError):
            if attempt == 5:
                raise
            time.sleep(5)       # another check is relinking the shared driver binary
    if rc != 0:
        chk.violation("driver-crash", "engine_driver exited with status %s" % rc, dict(scenario=lines, stderr=err[-2000:], origin=origin), found_input=True,
                      broken="memory safety of the engine across builds (e.g. rules left IsScanning by a build that returned success)")
        return False
    # the acceptance verdict is computed first (and counted on its own), the independent oracles below keep their priority in the report
    t0 = time.time()
    # once several histories have been rejected the tie is reported broken anyway: the confirming plain search of further rejections is skipped
    nrej = chk.notes.get("histories_rejected_by_acceptance", 0)
    ans = acc_model(sess).ask("accept %s %s%s" % (sp, tp, " 0" if nrej >= 8 else ""))
    dt = time.time() - t0
    chk.notes["histories"] = chk.notes.get("histories", 0) + 1
    chk.notes["acceptance_search_seconds_max"] = round(max(chk.notes.get("acceptance_search_seconds_max", 0.0), dt), 3)
    chk.notes["acceptance_search_seconds_total"] = round(chk.notes.get("acceptance_search_seconds_total", 0.0) + dt, 3)
    if not ans.startswith("ok "):
        chk.notes["histories_rejected_by_acceptance"] = chk.notes.get("histories_rejected_by_acceptance", 0) + 1
        if "SEARCH-BUDGET-EXHAUSTED" in ans:
            chk.notes["histories_rejected_inconclusively (search budget)"] = chk.notes.get("histories_rejected_inconclusively (search budget)", 0) + 1
        keep = os.environ.get("VERIF_ACC_KEEP")          # debugging aid: keep scenario + trace of every rejected history in this directory
        if keep:
            import shutil
            os.makedirs(keep, exist_ok=True)
            i = chk.notes["histories_rejected_by_acceptance"]
            shutil.copy(sp, os.path.join(keep, "rej%d.scenario.txt" % i))
            shutil.copy(tp, os.path.join(keep, "rej%d.impl.txt" % i))
            open(os.path.join(keep, "rej%d.verdict.txt" % i), "w").write("%.3fs %s\n" % (dt, ans))
        if len(chk.notes.setdefault("first_rejections", [])) < 5:
            chk.notes["first_rejections"].append(dict(origin=origin, acceptance=ans[:500]))
    if expect is not None:
        got = ["fail" if (b["result"] or "").startswith("result EMPTY") else "ok" for b in E.split_builds(out) if b["hdr"] != "restart"]
        if got != expect:
            chk.violation("stale-scan-after-success", "a build succeeded although a rule reached through a discovered dependency was left scanning "
                          "(expected build outcomes %s, got %s)" % (expect, got), dict(scenario=lines, implementation=out, origin=origin), found_input=True,
                          broken="executeTasks stall test (every scanning rule must be seen)")
            return False
    bad = []
    for b in E.split_builds(out):
        if b["hdr"] != "restart":
            errs, _ = E.protocol_check(b)
            bad += errs
    if bad:
        chk.violation("protocol", "the per-task protocol is violated on the real engine: %s" % bad[:3],
                      dict(scenario=lines, implementation=out, origin=origin, acceptance=ans), found_input=True, broken="task protocol / at-most-once on the implementation")
        return False
    nexec = sum(1 for x in out if x.startswith("create "))
    ncyc = sum(1 for x in out if x.startswith("cycle"))
    if any(x == "cycle" for x in out):
        k = "empty_cycle_reports (known C07 finding disc-cycle-empty-list, reproduced by the model)"
        chk.notes[k] = chk.notes.get(k, 0) + 1
    if not ans.startswith("ok "):
        if I.search_schedules(chk, sess, lines, tag, origin):
            return False
        chk.violation("impl-acceptance", "the trace of the real engine is not the log of any sequence of steps of the small-step model (any queue discipline, "
                      "any completion order): " + ans[:600],
                      dict(scenario=lines, implementation=out, model_explanation=ans, origin=origin), found_input=False, broken=BROKEN)
        return False
    kv = _stats(chk, ans)
    if int(kv.get("reduction_missed", 0)) and os.environ.get("VERIF_ACC_KEEP"):
        import shutil
        keep = os.environ["VERIF_ACC_KEEP"]
        os.makedirs(keep, exist_ok=True)
        i = chk.notes["histories"]
        shutil.copy(sp, os.path.join(keep, "missed%d.scenario.txt" % i))
        shutil.copy(tp, os.path.join(keep, "missed%d.impl.txt" % i))
    chk.notes["cycle_reports_accepted"] = chk.notes.get("cycle_reports_accepted", 0) + ncyc
    chk.count((tag.rstrip("0123456789"), nexec, ncyc) if nexec > 3 else None, n=max(1, nexec))
    return True


class Sess:
    """What accept_history needs of a session: the driver binary (impl.Sess has it too) and, lazily, the implacc model process."""
    def __init__(self, chk):
        self.chk = chk
        self.drv = vlib.build_drivers(["engine_driver"])["engine_driver"]
        self.acc = None

    def close(self):
        acc_close(self)


def _gate(chk):
    """The theorems the acceptance is about are those of Props/Properties_impl.v; the link enabled_gen -> mstep_gen is ImplGenProofs.v."""
    pid = chk.pid
    chk.pid = "impl"
    try:
        chk.proof_gate(extra_targets=["Engine/ImplGenProofs.vo", "Engine/ImplAccept.vo"])
    finally:
        chk.pid = pid


def run(chk):
    from props import impl as I
    sess = Sess(chk)
    acc_model(sess)
    _gate(chk)
    accept_history(chk, sess, I.STALE_SCAN, "stale-scan", "corpus", expect=["ok", "fail", "fail", "fail"])
    accept_history(chk, sess, ["db 0"] + I.STALE_SCAN[1:], "stale-scan-nodb", "corpus", expect=["ok", "fail", "fail", "fail"])
    for i, L in enumerate(I.CORPUS):
        accept_history(chk, sess, L, "corpus%d" % i, "corpus")
    n = chk.n(150, 6000)
    for i in range(n):
        rng = random.Random(chk.rng.random())
        sc = None if i % 2 == 0 else I.SCHEDS[1 + (i // 2) % 2]
        L = E.gen_history(rng, sched=sc, nops=(3, 12))
        accept_history(chk, sess, L, "%s%d" % ("sync" if sc is None else "defer", i % 40), "gen_history seed=%d index=%d" % (chk.seed, i))
        if i < 2:
            chk.sample("\n".join(L[:14]))
    for i in range(chk.n(80, 3000)):
        rng = random.Random(chk.rng.random())
        L = I.gen_cyclic(rng, I.SCHEDS[i % 3])
        accept_history(chk, sess, L, "cyc%d" % (i % 40), "gen_cyclic seed=%d index=%d" % (chk.seed, i))
        if i < 1:
            chk.sample("\n".join(L[:14]))
    sess.close()
    return chk.finish(level="proof",
                      rule="one evaluation = one rule execution of a generated history whose trace on the real engine (callback order, result, epoch, recorded "
                           "dependency order, db rows, wait-for graph, cycle) is accepted as a run of ImplGen.enabled_gen steps; non-trivial = history with "
                           "more than 3 executions",
                      trusted=["hand-written model coq/Engine/Impl.v + ImplGen.v tied by acceptance (guided search over ImplGen.enabled_gen) only",
                               "ImplAccept.acc_begin / acc_finish (beginning and end of a build, transcribed from ibuild_gen, nothing proved about them)",
                               "engine_driver.cpp (task DSL)", "ocaml/vmodel_implacc.ml (scenario interpreter, trace splitting, search, value printing)",
                               "extraction via ExtrOcamlBasic only", "cancellation is not modelled"])


def replay(chk, rp):
    sess = Sess(chk)
    accept_history(chk, sess, rp["scenario"], "replay", "replay")
    sess.close()
    return chk.finish(level="proof", rule="replay of one history")
