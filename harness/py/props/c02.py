# C02: work happens at most once per build and only for a true, reported reason.
# Theorems: coq/Props/Properties_C02.v over the specification engine.
# Tie D: same differential as C01 (reasons `need k reason input`, `create`, `valid` events are part of the canonical observations).
# Oracle O: a shadow record of epochs kept by the observer from the implementation's own trace (harness/py/enginechk.py: Shadow)
#        judges every reported reason, at-most-once, and the null-build / identical-recompute / order-only consequences.
import os, random
import vlib, enginelib as E, enginechk as K

SCHEDS = [None, lambda r: "defer:%d" % r.randint(0, 999), lambda r: "mixed:%d" % r.randint(0, 999)]


def add_null_builds(rng, L):
    """After some builds repeat the same build immediately (no external change) - in the same engine or, with a database, in a
    NEW engine over the same database: the repeat must execute nothing."""
    out = []
    usedb = L[0] == "db 1"
    for l in L:
        out.append(l)
        if l.startswith("build"):
            x = rng.random()
            if x < 0.3:
                out.append(l + " #null")
            elif x < 0.55 and usedb:
                out.append("restart")
                out.append(l + " #null")
                if rng.random() < 0.5:
                    out.append("restart")
                    out.append(l + " #null")
    return out


def oracle_null(lines, builds):
    bad = []
    real = [b for b in builds if b["hdr"] != "restart"]
    bl = [l for l in lines if l.startswith("build")]
    for i, l in enumerate(bl):
        if l.endswith("#null") and i < len(real):
            prev_ok = not any(x.startswith("cycle") for x in real[i - 1]["other"])
            ex = [e for e in real[i]["events"] if e.startswith("create")]
            if ex and prev_ok:
                bad.append(("null-build-executes", "a build repeated with no external change executed %s" % ex[:4]))
    return bad


def one_history(chk, sess, lines, tag, origin, model=True):
    r = sess.run([l.replace(" #null", "") for l in lines], tag)
    if r["rc"] != 0:
        chk.violation("driver-crash", "engine_driver exited with status %s" % r["rc"], dict(scenario=lines, stderr=r["err"][-2000:], origin=origin), found_input=True)
        return False
    builds = K.parse_impl(r["out"])
    bad = K.oracle_c02(lines, builds) + oracle_null(lines, builds)
    ok = not bad
    if bad:
        def still(cand):
            rr = sess.run([l.replace(" #null", "") for l in cand], tag + "-shrink")
            bb = K.parse_impl(rr["out"])
            return rr["rc"] == 0 and any(k == bad[0][0] for k, _ in K.oracle_c02(cand, bb) + oracle_null(cand, bb))
        small = K.shrink(lines, still)
        rr = sess.run([l.replace(" #null", "") for l in small], tag + "-min")
        chk.violation(bad[0][0], bad[0][1], dict(scenario=small, original_scenario=lines, implementation=rr["out"], oracle="shadow epochs", origin=origin),
                      found_input=True, broken="reported reason / at-most-once on the implementation")
    if not model:       # cancelled builds are schedule dependent: judged by the oracle only (the model has no cancellation in its extracted form)
        nexec = sum(1 for x in r["out"] if x.startswith("create "))
        chk.count(("c", tag) if any("cancelled" in x for x in r["out"]) else None, n=max(1, nexec))
        return ok
    mo = sess.model_run(r)
    a, b = E.canon_pair(r["out"], mo)
    if a != b and ok:
        ok = False
        chk.violation("spec-correspondence", "the specification engine and the real engine disagree on executions or reasons (the shadow-epoch oracle found nothing wrong on the implementation)",
                      dict(scenario=lines, diff=K.diff_text(a, b), origin=origin), found_input=False,
                      broken="correspondence Spec.ensure <-> BuildEngine (theorems of Properties_C02.v no longer tied to the code)")
    reasons = {}
    for l in r["out"]:
        if l.startswith("need "):
            reasons[l.split(" ")[2]] = reasons.get(l.split(" ")[2], 0) + 1
    for k, v in reasons.items():
        chk.notes.setdefault("reasons_seen", {})
        chk.notes["reasons_seen"][E.REASONS.get(int(k), k)] = chk.notes["reasons_seen"].get(E.REASONS.get(int(k), k), 0) + v
    nexec = sum(1 for x in r["out"] if x.startswith("create "))
    chk.count(("h", tag) if nexec > 3 else None, n=max(1, nexec))
    return ok


CORPUS = [
    # a dependency re-runs to an IDENTICAL value (key 3: payload mod 2), then a new engine over the database: nothing may run
    # (a realistic breaking change: the database write skipped when the value did not change, leaving the old builtAt stored)
    ["db 1", "rule 0 sig=0 obs=1", "rule 3 sig=0 obs=0 req=0", "rule 4 sig=0 obs=0 req=3", "set 0 1", "build 4", "set 0 2", "build 4", "set 0 3", "build 4",
     "restart", "build 4 #null", "restart", "build 4 #null"],
    ["db 1", "rule 0 sig=0 obs=1", "rule 1 sig=0 obs=1", "rule 6 sig=0 obs=0 req=0 follow=1", "rule 7 sig=0 obs=0 req=6", "set 0 1", "set 1 1", "build 7", "set 1 2", "build 7", "build 7 #null",
     "set 0 2", "build 7", "restart", "build 7 #null"],
]
# the three request kinds CALLED in every order: after a scan has cleaned the single-use entry the remaining entries must keep their own
# flags - a must-follow entry that turns into a value edge re-runs its rule with InputRebuilt(<order-only key>), which no reason permits;
# key 1 is the order-only input and is the only thing that changes before the third build
for _ord in ("rsf", "rfs", "srf", "sfr", "frs", "fsr"):
    for _db in (0, 1):
        CORPUS.append(["db %d" % _db, "rule 0 sig=0 obs=1", "rule 1 sig=0 obs=1", "rule 2 sig=0 obs=1", "rule 4 sig=0 obs=0 req=2 single=0 follow=1 ord=%s" % _ord,
                       "rule 5 sig=0 obs=0 req=4", "set 0 1", "set 1 1", "set 2 1", "build 5", "build 5 #null", "set 1 2", "build 5", "set 1 3"] +
                      (["restart"] if _db else []) + ["build 5", "build 5 #null", "set 2 2", "build 5", "set 0 5", "build 5"])


def cancel_family(chk, sess, n):
    """The fifth admissible reason: a rule whose previous execution was interrupted by a cancelled build re-runs (Forced) - and ONLY such a rule."""
    import props.c05 as c05
    for i in range(n):
        rng = random.Random(chk.rng.random())
        seed = rng.random()
        for sched, cancel in c05.cancel_variants(rng, 2):
            L = [l for l in c05.make_history(random.Random(seed), sched, cancel) if not l.startswith("fresh ")]
            one_history(chk, sess, L, "c%d" % (i % 20), "cancel family seed=%d index=%d %s %s" % (chk.seed, i, sched, cancel), model=False)


def run(chk):
    sess = K.Session(chk)
    chk.proof_gate(also=["impl"])
    # small-step model of the engine loop (Engine/Impl.v): exact-interleaving tie, theorems of Props/Properties_impl.v
    import props.impl as impl
    impl.phase(chk, {"hist"}, nhist=chk.n(40, 1000))
    n = chk.n(150, 6000)
    for i, L in enumerate(CORPUS):
        one_history(chk, sess, L, "corpus%d" % i, "corpus")
    cancel_family(chk, sess, chk.n(80, 1500))
    # directed: a build cancelled while already-built rules are only being SCANNED (waiting on an input that is running): they never had
    # a task, so the next build must not report them as Forced (their "previous execution" was not interrupted)
    for nn in range(0, 14):
        for sched in ("sync", "defer:3"):
            one_history(chk, sess, ["db 0", "rule 0 sig=0 obs=1", "rule 3 sig=0 obs=0 req=0", "rule 5 sig=0 obs=0 req=3", "rule 7 sig=0 obs=0 req=5", "set 0 1", "build 7", "set 0 2",
                                    "build 7 sched=%s cancel=cb:%d" % (sched, nn), "build 7", "set 0 3", "build 7 sched=%s cancel=iter:%d" % (sched, nn), "build 7"],
                        "corpus-scan-cancel", "corpus scan-cancel cb/iter:%d %s" % (nn, sched), model=False)
    for i in range(n):
        rng = random.Random(chk.rng.random())
        L = add_null_builds(rng, E.gen_history(rng, sched=SCHEDS[i % 3], nops=(3, 12)))
        one_history(chk, sess, L, "h%d" % (i % 40), "seed=%d index=%d" % (chk.seed, i))
        if i < 3:
            chk.sample("\n".join(L[:12]))
    sess.close()
    return chk.finish(level="proof",
                      rule="one evaluation = one rule execution of a generated history on the real engine, its reason judged by the observer's shadow epochs; non-trivial = history with more than 3 executions",
                      extra=dict(traces_validated_against_impl=n),
                      trusted=["hand-written model coq/Engine/Spec.v tied by differential execution only", "engine_driver.cpp", "shadow-epoch observer harness/py/enginechk.py",
                               "extraction via ExtrOcamlBasic only"])


def replay(chk, rp):
    sess = K.Session(chk)
    one_history(chk, sess, rp["scenario"], "replay", "replay")
    sess.close()
    return chk.finish(level="proof", rule="replay of one history")
