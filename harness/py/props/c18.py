# C18 - Ninja builds converge to the clean-build state and do no unnecessary work
#
# proved (coq/Props/Properties_C18.v): the decision logic of the command rule for ALL argument values.
# tied here:  (b) decision table: micro-scenarios put the real `llbuild ninja build` into each case of the
#                 decision function and compare executed?/diagnostics with the extracted model;
#             (c) convergence oracle: generated manifests x edit histories x -j1/-j4 x db/--no-db, output
#                 contents against a clean build, null rebuild, per-clause expectations, installed ninja as a
#                 second opinion.
# All timestamps are explicit (a logical clock); nothing depends on wall-clock ordering.
import os, json, shutil, itertools, random, concurrent.futures
import vlib

AREA = "ninjabuild"
BASE_S = 1600000000          # logical ticks are half seconds after this instant (2020): always older than "now"

# Behaviours of the current code that break a clause of the property and are listed in KNOWN_FINDINGS.txt
# (reported under exactly these key prefixes, so that they print as KNOWN-FINDING and anything else still counts):
#   generator-failed-not-retried       a generator command that wrote its output and failed is not retried (Ninja compatible)
#   order-only-failure-not-propagated  -k 0 / -k 2: the dependent of a failed ORDER-ONLY input still runs
#   phony-launders-failure             -k 0: a command behind a phony alias of a failed command still runs


def tick_ns(t):
    return (BASE_S + t // 2) * 10**9 + (t % 2) * 500000000


def stamp(path, t):
    ns = tick_ns(t)
    os.utime(path, ns=(ns, ns))


def put(path, content, t):
    with open(path, "w") as f:
        f.write(content)
    stamp(path, t)


def fi(path):
    """the FileInfo llbuild computes for the path, in the model's wire format"""
    try:
        st = os.stat(path)
    except OSError:
        return "M"
    return "%d:%d:%d:%d:%d:%d" % (st.st_dev, st.st_ino, st.st_mode, st.st_size, st.st_mtime_ns // 10**9, st.st_mtime_ns % 10**9)


def mtime(path):
    try:
        return os.stat(path).st_mtime_ns
    except OSError:
        return None


def rm(path):
    try:
        os.unlink(path)
    except OSError:
        pass


def runlog(d):
    try:
        return open(os.path.join(d, "runlog")).read().split()
    except OSError:
        return []


def build(llb, d, args=(), tool="llbuild"):
    """one build in a fresh process; returns (rc, names appended to runlog, stdout+stderr)"""
    before = runlog(d)
    if tool == "llbuild":
        cmd = [llb, "ninja", "build", "--no-regenerate", "-C", d] + list(args)
    else:
        cmd = ["ninja", "-C", d] + list(args)
    rc, out, err = vlib.sh(cmd, timeout=120)
    after = runlog(d)
    return rc, after[len(before):], out + err


# Printed text is never a basis for a verdict: which commands ran comes from the commands' own run log, success from the
# exit status, results from file contents, stored state from what a later build does.  The one OPTIONAL refinement (telling
# "skipped, missing input counted as a failure" from "skipped") reads the diagnostics, and is dropped for a build whose
# error lines are not all of a known shape (reworded diagnostics): such lines are only counted in the evidence notes.
KNOWN_ERROR_LINES = [
    r"process failed: ", r"missing input '[^']*' and no rule to build it$", r"cannot build '[^']*' due to missing input$",
    r"stopping build due to command failures$", r"build had \d+ command failures$", r"cycle detected among targets:",
]


def diagnostics(txt):
    """(error lines, number of them that are not of a known shape)"""
    import re
    errs = [l.split("error: ", 1)[1] for l in txt.splitlines() if l.startswith("llbuild: error: ")]
    unknown = sum(1 for e in errs if not any(re.match(p, e) for p in KNOWN_ERROR_LINES))
    return errs, unknown


# =================================================================== (b) decision table

E2_KINDS = ["src_old", "src_new", "src_eq", "missing", "up_ok_old", "up_ok_new", "up_fail", "up_skip", "up_noout"]
IMP_KINDS = ["none", "src_old", "src_new", "src_eq", "missing"]
OO_KINDS = ["none", "src_old", "src_new", "missing", "up_fail", "up_ok_new"]
PRIORS = ["none", "ok", "ok_otherhash", "ok_rewired", "failed", "skipped"]
OUT_STATES = ["untouched", "fresh", "equal", "older", "missing"]

T_OLD, T_USRC = 10, 8        # ticks of untouched sources / of the upstream commands' own sources
T_EQ = 20
T_NEW = 2 * (2200000000 - BASE_S)      # year 2039: newer than anything the wall clock stamps during the run


FMODES = ["exit1", "exit255", "ABRT", "SEGV", "TERM"]


def die_snippet(flag):
    """shell (ninja-escaped): end the spawned /bin/sh the way the flag file says: exit 1, exit 255, or killed by the named signal"""
    return ("case $$(cat %s) in exit1) exit 1;; exit255) exit 255;; *) ulimit -c 0; kill -$$(cat %s) $$$$; sleep 5; exit 1;; esac" % (flag, flag))


def table_manifest(case, variant):
    nouts = case["nouts"]
    mode = case.get("inputs", "normal")      # normal | epoch0 (inputs stamped 0.0) | none (no input at all) | oo_only (only an order-only input)
    if mode in ("none", "oo_only"):
        body = "echo made > out1" + (" && echo made > out2" if nouts == 2 else "")
    else:
        body = "cat e1 e2 > out1" + (" && cat e1 > out2" if nouts == 2 else "")
    # Tfail present: the command fails in the mode the file names - before doing anything, or (Tlate) after writing its outputs
    tcmd = "echo T >> runlog; if test -e Tfail && test ! -e Tlate; then %s; fi; %s && if test -e Tfail; then %s; fi" % (
        die_snippet("Tfail"), body, die_snippet("Tfail"))
    if variant == 2:
        tcmd += " && true v2"
    lines = ["rule T", "  command = " + tcmd]
    if case["generator"]:
        lines.append("  generator = 1")
    if case["restat"]:
        lines.append("  restat = 1")
    lines += ["rule U", "  command = echo U >> runlog; if test -e Ufail; then %s; fi; if test -e Unoout; then true; else cat usrc > e2; fi" % die_snippet("Ufail"),
              "rule O", "  command = echo O >> runlog; if test -e Ofail; then %s; fi; cat osrc > oo" % die_snippet("Ofail")]
    if case["e2"].startswith("up_"):
        lines.append("build e2: U usrc")
    if case["oo"].startswith("up_"):
        lines.append("build oo: O osrc")
    if variant == 3:
        # the input list as it was before a rewiring: explicit inputs in the other order, no implicit / order-only input
        # (the command line does not mention $in, so only the declared inputs differ)
        b = "build out1%s: T e2 e1" % (" out2" if nouts == 2 else "")
    else:
        b = "build out1%s: T%s" % (" out2" if nouts == 2 else "", "" if mode in ("none", "oo_only") else " e1 e2")
        if case["imp"] != "none":
            b += " | imp"
        if case["oo"] != "none":
            b += " || oo"
    lines += [b, "default out1", ""]
    return "\n".join(lines)


def table_case(llb, d, case):
    """Drive the real tool into one case of the decision table; returns the observation and the model request."""
    os.makedirs(d)
    J = lambda n: os.path.join(d, n)
    outs = ["out1", "out2"][:case["nouts"]]
    prior = case["prior"]
    mode = case.get("inputs", "normal")
    put(J("e1"), "e1\n", T_OLD)
    put(J("usrc"), "usrc\n", T_USRC)
    put(J("osrc"), "osrc\n", T_USRC)
    if not case["e2"].startswith("up_"):
        put(J("e2"), "e2\n", T_OLD)
    if mode == "epoch0":
        os.utime(J("e1"), ns=(0, 0))
        os.utime(J("e2"), ns=(0, 0))
    if case["imp"] != "none":
        put(J("imp"), "imp\n", T_OLD)
    if case["oo"] != "none" and not case["oo"].startswith("up_"):
        put(J("oo"), "oo\n", T_OLD)
    log = []
    # ---- phase 0: upstream commands get a stored value and a logical stamp on their outputs
    ups = [n for n, k in (("e2", case["e2"]), ("oo", case["oo"])) if k.startswith("up_")]
    if ups:
        open(J("build.ninja"), "w").write(table_manifest(case, 1))
        rc, ran, txt = build(llb, d, ["-j1"] + ups)
        for n in ups:
            stamp(J(n), T_OLD)
        rc2, ran2, txt2 = build(llb, d, ["-j1"] + ups)      # update-only: records the logical stamp
        log.append(("phase0", rc, ran, rc2, ran2))
        if rc != 0 or rc2 != 0 or ran2:
            return dict(error="phase 0 (upstream commands) did not behave as arranged", log=log, text=(txt + txt2)[-600:])
        open(J("runlog"), "w").close()
    # ---- phase 1: establish the stored value
    prior_val = "N"
    if prior != "none":
        open(J("build.ninja"), "w").write(table_manifest(case, 3 if prior == "ok_rewired" else 1))
        if prior == "failed":
            open(J("Tfail"), "w").write(case.get("fmode", "exit1") + "\n")
            if case.get("flate"):
                open(J("Tlate"), "w").close()
        if prior == "skipped":
            rm(J("e1"))
        rc, ran, txt = build(llb, d, ["-j1"])
        log.append(("phase1", rc, ran))
        if prior == "failed":
            rm(J("Tfail"))
            rm(J("Tlate"))
            prior_val = "F"
            if rc == 0 and "T" in ran:
                return dict(error="phase 1 did not fail as arranged", log=log, text=txt[-600:],
                            finding=("failure-not-reported", "the command %s%s, but the build exited with status 0" % (
                                {"exit1": "exited with status 1", "exit255": "exited with status 255"}.get(case.get("fmode", "exit1"), "was killed by SIG" + case.get("fmode", "")),
                                " after writing its output" if case.get("flate") else "")))
            if rc == 0 or "T" not in ran:
                return dict(error="phase 1 did not fail as arranged", log=log, text=txt[-600:])
        elif prior == "skipped":
            put(J("e1"), "e1\n", T_OLD)
            prior_val = "K"
            if rc == 0 or "T" in ran:
                return dict(error="phase 1 did not skip as arranged", log=log, text=txt[-600:])
        else:
            if rc != 0:
                return dict(error="phase 1 build failed", log=log, text=txt[-600:])
            prior_val = "S=1=" + ";".join(fi(J(o)) for o in outs)
    # ---- phase 2: mutate
    variant = 2 if prior in ("ok_otherhash", "ok_rewired") else 1
    open(J("build.ninja"), "w").write(table_manifest(case, 2 if prior == "ok_otherhash" else 1))
    changed = dict(e1=0, e2=0, imp=0, oo=0)
    k = case["e2"]
    if k == "src_new":
        stamp(J("e2"), T_NEW); changed["e2"] = 1
    elif k == "src_eq":
        stamp(J("e2"), T_EQ); changed["e2"] = 1
    elif k == "missing":
        rm(J("e2")); changed["e2"] = 1
    elif k == "up_ok_new":
        rm(J("e2")); changed["e2"] = 1
    elif k == "up_fail":
        rm(J("e2")); open(J("Ufail"), "w").write(case.get("fmode", "exit1") + "\n"); changed["e2"] = 1
    elif k == "up_skip":
        rm(J("e2")); rm(J("usrc")); changed["e2"] = 1
    elif k == "up_noout":
        rm(J("e2")); open(J("Unoout"), "w").close(); changed["e2"] = 1
    k = case["imp"]
    if k == "src_new":
        stamp(J("imp"), T_NEW); changed["imp"] = 1
    elif k == "src_eq":
        stamp(J("imp"), T_EQ); changed["imp"] = 1
    elif k == "missing":
        rm(J("imp")); changed["imp"] = 1
    k = case["oo"]
    if k == "src_new":
        stamp(J("oo"), T_NEW + 4); changed["oo"] = 1
    elif k == "missing":
        rm(J("oo")); changed["oo"] = 1
    elif k == "up_ok_new":
        rm(J("oo")); changed["oo"] = 1
    elif k == "up_fail":
        rm(J("oo")); open(J("Ofail"), "w").write(case.get("fmode", "exit1") + "\n"); changed["oo"] = 1
    if prior == "ok_rewired":
        # the engine re-scans the dependency list RECORDED by the previous build: inputs added by the rewiring are unknown to it
        changed["imp"] = 0
        changed["oo"] = 0
    # outputs relative to the newest logical stamp among the delivered inputs
    req = ([] if mode in ("none", "oo_only") else ["e1", "e2"]) + (["imp"] if case["imp"] != "none" else [])
    lm = [mtime(J(n)) for n in req]
    newest = max([m for m in lm if m is not None] + [0])
    if newest == 0:
        newest = tick_ns(1) if case["outs"] != ["equal"] else 0
    for o, st in zip(outs, case["outs"]):
        if st == "untouched":
            continue
        if st == "missing":
            rm(J(o)); continue
        if not os.path.exists(J(o)):
            open(J(o), "w").write("stale\n")
        ns = newest + {"fresh": 10**9, "equal": 0, "older": -500000000}[st]
        os.utime(J(o), ns=(ns, ns))
    pre = {n: fi(J(n)) for n in ["e1", "e2", "imp", "oo"] + outs}
    # ---- phase 3: the build under observation
    args = ["-j1"] + (["--strict"] if case["strict"] else []) + (["-k", "0"] if case["k0"] else [])
    rc, ran, txt = build(llb, d, args)
    log.append(("phase3", rc, ran))
    post = {n: fi(J(n)) for n in ["e2", "oo"]}

    def upstream_value(name, kind, letter, failflag):
        if letter in ran:
            if os.path.exists(J(failflag)):
                return "F"
            return "S=9=" + post[name]
        if kind == "up_skip":
            return "K"
        return "S=9=" + pre[name]

    def value(name, kind, letter, failflag):
        if kind.startswith("up_"):
            return upstream_value(name, kind, letter, failflag)
        return "M" if pre[name] == "M" else "E=" + pre[name]

    ins = [] if mode in ("none", "oo_only") else [
        "e%d=E=%s" % (changed["e1"], pre["e1"]) if pre["e1"] != "M" else "e1=M",
        "e%d=%s" % (changed["e2"], value("e2", case["e2"], "U", "Ufail"))]
    if case["imp"] != "none":
        ins.append("i%d=%s" % (changed["imp"], value("imp", case["imp"], "", "")))
    if case["oo"] != "none":
        ins.append("o%d=%s" % (changed["oo"], value("oo", case["oo"], "O", "Ofail")))
    # was the build already cancelled when T's inputs became available?  (default -k 1: the first command
    # failure cancels; a missing SOURCE input of T itself does not)
    upstream_failed = (("U" in ran and os.path.exists(J("Ufail"))) or ("O" in ran and os.path.exists(J("Ofail")))
                       or (case["e2"] == "up_skip"))
    cancelled = 1 if (upstream_failed and not case["k0"]) else 0
    ctx = "%d0%d" % (1 if case["strict"] else 0, cancelled)
    cmd = "%d:%d0%d%d" % (variant, 1 if case["generator"] else 0, 0, 1 if case["restat"] else 0)
    req_line = "step %s %s %s %s %s" % (ctx, cmd, prior_val, ",".join(ins) if ins else ".", ";".join(pre[o] for o in outs))
    return dict(request=req_line, ran=ran, rc=rc, executed=("T" in ran),
                cannot_build=(None if diagnostics(txt)[1] else any(e == "cannot build 'out1' due to missing input" for e in diagnostics(txt)[0])),
                unrecognised_error_lines=diagnostics(txt)[1], text=txt[-800:], log=log,
                pre=pre, ins=ins, cancelled=cancelled)


def table_oracle(case, ob):
    """The property's own expectation, from the property text and the actual stamps (independent of the Coq model):
    'run' / 'norun' / None (unspecified)."""
    vals = [i.split("=", 1) for i in ob["ins"]]
    requested = [v for (c, v) in vals if c[0] != "o"]
    if any(v in ("M", "F", "K") for v in requested):
        return "norun", "a failed/missing/skipped input: the command must not be executed"
    if ob["cancelled"]:
        return "norun", "the build was cancelled by an upstream failure"
    outs = [ob["pre"][o] for o in ["out1", "out2"][:case["nouts"]]]
    if any(o == "M" for o in outs):
        return "run", "an output is missing"

    def ts(f):
        p = f.split(":")
        return (int(p[4]), int(p[5]))
    in_ts = []
    for v in requested:
        f = v.split("=")[-1]
        if f == "M":
            return "run", "an input produced by a successful command does not exist"
        in_ts.append(ts(f))
    if case["prior"] == "ok_otherhash" and not case["generator"]:
        return "run", "the command line changed"
    if case["prior"] == "ok_rewired" and not case["generator"]:
        return "run", "the declared inputs of the command changed"
    if case["prior"] in ("failed", "skipped"):
        return "run", "the command failed / was skipped in the previous build: retried"
    if any(ts(o) < t for o in outs for t in in_ts):
        return "run", "an output is older than a non order-only input"
    if case["strict"] and any(ts(o) <= t for o in outs for t in in_ts):
        return "run", "--strict: an output is not newer than a non order-only input"
    if any(ts(o) == (0, 0) for o in outs):
        return None, ""          # an output stamped 0.0 equals the initial newestModTime {0,0}: --strict re-runs it, unspecified
    if case["prior"] == "ok" and all(ts(o) > t for o in outs for t in in_ts):
        return "norun", "unchanged command, every output newer than every non order-only input"
    return None, ""


def table_cases(chk):
    rng = chk.rng
    core = []
    # systematic core: every prior x generator x strict x output state x newest-input relation (single output, no extras)
    for prior in PRIORS:
        for gen in (0, 1):
            for strict in (0, 1):
                for ost in OUT_STATES:
                    for e2 in ("src_old", "src_new", "src_eq"):
                        core.append(dict(prior=prior, generator=gen, strict=strict, restat=0, nouts=1, outs=[ost], e2=e2, imp="none", oo="none", k0=0))
    # every input kind in every class position, against fresh and untouched outputs
    for e2 in E2_KINDS:
        for k0 in (0, 1):
            for ost in ("untouched", "fresh"):
                for prior in ("ok", "none"):
                    core.append(dict(prior=prior, generator=0, strict=0, restat=0, nouts=1, outs=[ost], e2=e2, imp="none", oo="none", k0=k0))
    for imp in IMP_KINDS[1:]:
        for ost in ("untouched", "fresh", "equal"):
            for strict in (0, 1):
                core.append(dict(prior="ok", generator=0, strict=strict, restat=0, nouts=1, outs=[ost], e2="src_old", imp=imp, oo="none", k0=0))
    for oo in OO_KINDS[1:]:
        for k0 in (0, 1):
            for ost in ("untouched", "fresh", "older"):
                core.append(dict(prior="ok", generator=0, strict=0, restat=0, nouts=1, outs=[ost], e2="src_old", imp="none", oo=oo, k0=k0))
    # two outputs
    for o1 in OUT_STATES:
        for o2 in OUT_STATES:
            core.append(dict(prior="ok", generator=0, strict=0, restat=0, nouts=2, outs=[o1, o2], e2="src_old", imp="none", oo="none", k0=0))
    # commands without any delivered input: no input at all, only an order-only input, inputs stamped 0.0 (newestModTime
    # stays {0,0}); a deleted output (also one of two) must re-run them in both modes
    for mode in ("none", "oo_only", "epoch0"):
        for prior in ("ok", "none", "ok_otherhash", "failed"):
            for strict in (0, 1):
                for gen in (0, 1):
                    for outs in (["untouched"], ["missing"], ["fresh"], ["equal"], ["untouched", "missing"], ["missing", "untouched"], ["fresh", "missing"]):
                        core.append(dict(prior=prior, generator=gen, strict=strict, restat=0, nouts=len(outs), outs=list(outs), e2="src_old", imp="none",
                                         oo=("src_old" if mode == "oo_only" else "none"), k0=0, inputs=mode))
    # failure MODES: exit 1, exit 255, killed by SIGABRT / SIGSEGV / SIGTERM, each also after the output was written; of the
    # command under test in the previous build (must be retried) and of an upstream command in this build (must stop it)
    for fm in FMODES:
        for flate in (0, 1):
            for ost in ("untouched", "fresh"):
                core.append(dict(prior="failed", generator=0, strict=0, restat=0, nouts=1, outs=[ost], e2="src_old", imp="none", oo="none", k0=0, fmode=fm, flate=flate))
        for k0 in (0, 1):
            core.append(dict(prior="ok", generator=0, strict=0, restat=0, nouts=1, outs=["untouched"], e2="up_fail", imp="none", oo="none", k0=k0, fmode=fm))
            core.append(dict(prior="ok", generator=0, strict=0, restat=0, nouts=1, outs=["untouched"], e2="src_old", imp="none", oo="up_fail", k0=k0, fmode=fm))
    # deviations of the current code that the table must reach
    core.append(dict(prior="failed", generator=1, strict=0, restat=0, nouts=1, outs=["fresh"], e2="src_old", imp="none", oo="none", k0=0))
    core.append(dict(prior="ok", generator=0, strict=0, restat=0, nouts=1, outs=["fresh"], e2="missing", imp="none", oo="none", k0=0))
    for gen in (0, 1):
        core.append(dict(prior="ok_rewired", generator=gen, strict=0, restat=0, nouts=1, outs=["untouched"], e2="src_old", imp="src_new", oo="none", k0=0))
        core.append(dict(prior="ok_rewired", generator=gen, strict=0, restat=0, nouts=1, outs=["untouched"], e2="src_old", imp="src_old", oo="src_new", k0=0))
    extra = []
    for _ in range(chk.n(150, 3000)):
        nouts = rng.choice([1, 1, 2])
        extra.append(dict(prior=rng.choice(PRIORS), generator=rng.choice([0, 0, 1]), strict=rng.choice([0, 0, 1]), restat=rng.choice([0, 0, 1]),
                          nouts=nouts, outs=[rng.choice(OUT_STATES) for _ in range(nouts)], e2=rng.choice(E2_KINDS),
                          imp=rng.choice(IMP_KINDS), oo=rng.choice(OO_KINDS), k0=rng.choice([0, 0, 1])))
        if rng.random() < 0.3:
            extra[-1]["fmode"] = rng.choice(FMODES)
            extra[-1]["flate"] = rng.choice([0, 1])
        if rng.random() < 0.15:
            e = extra[-1]
            e["inputs"] = rng.choice(["none", "oo_only", "epoch0"])
            e.update(e2="src_old", imp="none")
            if e["prior"] in ("skipped", "ok_rewired"):
                e["prior"] = "ok"
            if e["inputs"] == "oo_only" and e["oo"] == "none":
                e["oo"] = "src_old"
            if e["inputs"] == "none":
                e["oo"] = "none"
            e["outs"] = [o if o in ("untouched", "missing", "fresh") else "fresh" for o in e["outs"]]
    if chk.quick():
        # the quick tier keeps the named cases and a stratified half of the systematic core
        keep = [c for i, c in enumerate(core) if i % 2 == 0 or c["prior"] in ("failed", "ok_rewired") or c["e2"] == "missing"
                or (c.get("inputs", "normal") != "normal" and c["prior"] == "ok" and "missing" in c["outs"]) or "fmode" in c]
        core = keep
    seen, cases = set(), []
    for c in core + extra:
        key = case_key(c)
        if key not in seen:
            seen.add(key)
            cases.append(c)
    return cases


def case_key(c):
    return (c["prior"], c["generator"], c["strict"], c["restat"], c["nouts"], tuple(c["outs"]), c["e2"], c["imp"], c["oo"], c["k0"], c.get("inputs", "normal"), c.get("fmode", "exit1"), c.get("flate", 0))


def deviation(chk, key, what, replay):
    chk.violation(key, what, replay, found_input=True, broken="c18 oracle on llbuild ninja build")


def run_table(chk, llb, model, base):
    cases = table_cases(chk)
    results = [None] * len(cases)

    def work(i):
        try:
            return table_case(llb, os.path.join(base, "t%d" % i), cases[i])
        except Exception as e:      # a harness problem must not look like a pass
            return dict(error="harness exception: %r" % (e,))
    with concurrent.futures.ThreadPoolExecutor(max_workers=min(8, vlib.NCPU)) as ex:
        for i, r in enumerate(ex.map(work, range(len(cases)))):
            results[i] = r
    good = [(c, r) for (c, r) in zip(cases, results) if "error" not in r]
    bad = [(c, r) for (c, r) in zip(cases, results) if "error" in r]
    for (c, r) in bad:
        if r.get("finding"):
            chk.violation(r["finding"][0], "decision table, first build of a scenario: " + r["finding"][1], dict(case=c, phases=r.get("log"), output_tail=r.get("text")),
                          found_input=True, broken="c18 oracle on llbuild ninja build (decision table)")
    if bad:
        chk.notes["table_setup_failures"] = [dict(case=c, error=r["error"], log=r.get("log"), text=r.get("text")) for (c, r) in bad[:5]]
        setup_failure = ("table-setup", "%d decision-table scenarios could not be arranged (phase 1 did not behave as the scenario needs)" % len(bad),
                         dict(examples=chk.notes["table_setup_failures"]))
    rc, mo, me = vlib.run_lines(model, [r["request"] for (c, r) in good], timeout=600)
    assert rc == 0 and len(mo) == len(good), (rc, me[-500:], len(mo), len(good))
    ndis = 0
    hist = {}
    deferred = []      # correspondence-only verdicts are registered last: verdicts that carry a failing input come first
    unrecognised = 0
    if bad:
        deferred.append(setup_failure)
    for (c, r), m in zip(good, mo):
        model_runs = (m == "Task Run")
        hist[m] = hist.get(m, 0) + 1
        exp, why = table_oracle(c, r)
        nontrivial = case_key(c) if (m != "UpToDate" or r["executed"]) else None
        chk.count(nontrivial)
        rp = dict(case=c, model_request=r["request"], model=m, executed=r["executed"], rc=r["rc"], ran=r["ran"], oracle=exp, oracle_reason=why,
                  output_tail=r["text"], phases=r["log"],
                  how="sandbox as built by harness/py/props/c18.py:table_case; phase 3 = llbuild ninja build -j1%s%s" % (" --strict" if c["strict"] else "", " -k 0" if c["k0"] else ""))
        oracle_bad = (exp == "run" and not r["executed"]) or (exp == "norun" and r["executed"])
        if oracle_bad:
            if exp == "run" and c["generator"] and c["prior"] == "ok_rewired":
                deviation(chk, "rewire-generator-input-stale",
                          "a generator command whose declared inputs were rewired is not re-evaluated: the engine keeps scanning the old recorded "
                          "dependency list (the hash is not compared for generator commands), so a newer added input does not re-run it", rp)
            elif exp == "run" and c["generator"] and c["prior"] in ("failed", "skipped"):
                deviation(chk, "generator-failed-not-retried",
                          "a generator command that failed (or was skipped) in the previous build is not retried when its output is newer than its inputs", rp)
            elif exp == "norun" and r["executed"] and any(i.startswith("o") and i.split("=", 1)[1] in ("F", "K") for i in r["ins"]) and c["k0"]:
                pass    # judged below (order-only failure): the oracle above only looks at requested inputs
            else:
                chk.violation("table-%s-%s" % (exp, "executed" if r["executed"] else "not-executed"),
                              "decision table: %s, but the command was %s" % (why, "executed" if r["executed"] else "not executed"), rp,
                              found_input=True, broken="c18 oracle on llbuild ninja build (decision table)")
        # a failed order-only input must stop the dependent (property text); the code only does so through the global cancel
        oo_failed = any(i[0] == "o" and i.split("=", 1)[1] in ("F", "K") for i in r["ins"])
        if oo_failed and r["executed"]:
            deviation(chk, "order-only-failure-not-propagated",
                      "a command whose order-only input FAILED in this build is executed (-k 0)", rp)
        unrecognised += r["unrecognised_error_lines"]
        refinement_differs = r["cannot_build"] is not None and (m == "Task Skip1") != r["cannot_build"]
        if model_runs != r["executed"] or refinement_differs:
            ndis += 1
            if not oracle_bad:
                deferred.append(("table-correspondence",
                              "decision table: model (Ninja/NinjaRules.v rule_step) says %s, the tool %s the command%s; the property oracle found no failure" % (
                                  m, "executed" if r["executed"] else "did not execute", " and reported 'cannot build'" if r["cannot_build"] else ""),
                              rp))
    chk.cov["table_cases"] = len(cases)
    chk.cov["table_model_outcomes"] = hist
    chk.cov["table_disagreements"] = ndis
    if unrecognised:
        chk.notes["unrecognised_error_lines"] = "%d error lines of the tool were not of a known shape; the optional diagnostic refinement (Skip1 vs Skip0) was not applied to those builds" % unrecognised
    if good:
        c, r = good[len(good) // 3]
        chk.sample(dict(kind="decision-table", case=c, model_request=r["request"], executed=r["executed"], rc=r["rc"]))
    chk.c18_deferred = deferred
    return len(good) - ndis



# =================================================================== (c) convergence oracle

CMD_SH = r"""#!/bin/sh
# cmd.sh NAME TAG KIND NOUT out... -- in... [-H hdr...]
# deterministic command of the generated manifests: every output = its own name, NAME TAG, then the inputs and
# headers concatenated.  Fails iff an input or header contains a line FAIL:<when>:<how>: when = early (before writing
# anything) or late (after writing and stamping the outputs: compile, then validate); how = exit1, exit255, or a signal name
# (ABRT, SEGV, TERM): the process - the one llbuild spawned, the command lines `exec` this script - kills itself.
# restat: an output whose content would not change is left alone.  depfile: writes <first output>.d.
# Outputs that were written are stamped with the next tick of the sandbox's logical clock.
name=$1; tag=$2; kind=$3; n=$4; shift 4
outs=""
while [ "$n" -gt 0 ]; do outs="$outs $1"; shift; n=$((n-1)); done
shift
ins=""; hdrs=""; h=0
for a in "$@"; do
  if [ "$a" = "-H" ]; then h=1; elif [ $h = 1 ]; then hdrs="$hdrs $a"; else ins="$ins $a"; fi
done
echo "$name" >> runlog
mark=""
for f in $ins $hdrs; do
  if l=$(grep -m1 '^FAIL:' "$f" 2>/dev/null); then mark=$l; break; fi
done
when=""; how=""
if [ -n "$mark" ]; then when=${mark#FAIL:}; how=${when#*:}; when=${when%%:*}; fi
die() {
  case "$how" in
    exit1) exit 1;;
    exit255) exit 255;;
    *) ulimit -c 0; kill -$how $$; sleep 5; exit 1;;
  esac
}
if [ "$when" = early ]; then die; fi
tmp=.tmp.$name
{ echo "$name $tag"; cat /dev/null $ins $hdrs; } > $tmp || { rm -f $tmp; exit 1; }
touched=""
first=""
for o in $outs; do
  [ -z "$first" ] && first=$o
  { echo "== $o"; cat $tmp; } > $tmp.o
  if [ "$kind" = restat ] && cmp -s $tmp.o $o; then :; else cp $tmp.o $o; touched="$touched $o"; fi
done
if [ "$kind" = depfile ]; then echo "$first: $ins $hdrs" > $first.d; fi
rm -f $tmp $tmp.o
if [ -n "$touched" ]; then
  exec 9>>.clock.lock; flock 9
  t=$(cat .clock); t=$((t+1)); echo $t > .clock
  touch -d "@$((%d + t / 2)).$(( (t %% 2) * 5 ))00000000" $touched
  exec 9>&-
fi
if [ "$when" = late ]; then die; fi
exit 0
""" % BASE_S


class Cmd:
    def __init__(self, name, outs, exp, imp, oo, kind, hdrs=(), pool=None):
        self.name, self.outs, self.exp, self.imp, self.oo = name, list(outs), list(exp), list(imp), list(oo)
        self.kind, self.hdrs, self.pool, self.tag = kind, list(hdrs), pool, 1
        self.undeclared = []          # files the command line reads although the manifest does not declare them (yet)
        self.literal = None           # when set: the files the command line names, whatever class the manifest declares them in
        self.extra_outs = []          # files the command line writes although the build statement does not (yet / any more) declare them

    def copy(self):
        c = Cmd(self.name, self.outs, self.exp, self.imp, self.oo, self.kind, self.hdrs, self.pool)
        c.tag, c.undeclared = self.tag, list(self.undeclared)
        c.literal = None if self.literal is None else list(self.literal)
        c.extra_outs = list(self.extra_outs)
        return c


class World:
    """manifest + sources of one sandbox (the harness's own picture; nothing here comes from the Coq model)"""
    def __init__(self):
        self.src = {}            # source / header name -> content
        self.cmds = []
        self.phony = {}          # alias -> inputs
        self.defaults = []

    def copy(self):
        w = World()
        w.src = dict(self.src)
        w.cmds = [c.copy() for c in self.cmds]
        w.phony = {k: list(v) for k, v in self.phony.items()}
        w.defaults = list(self.defaults)
        return w

    def producer(self):
        return {o: c for c in self.cmds for o in c.outs}

    def files_read(self, c):
        """what the command line passes to cat: declared explicit+implicit FILE inputs, then undeclared reads"""
        if c.literal is not None:
            return list(c.literal)
        return [i for i in c.exp + c.imp if i not in self.phony] + c.undeclared

    def command_line(self, c):
        rd = self.files_read(c)
        written = c.outs + c.extra_outs
        return "exec ./cmd.sh %s t%d %s %d %s -- %s%s" % (c.name, c.tag, c.kind, len(written), " ".join(written), " ".join(rd),
                                                    (" -H " + " ".join(c.hdrs)) if c.hdrs else "")

    def manifest(self):
        L = ["pool p1", "  depth = 1", ""]
        for c in self.cmds:
            L += ["rule r_%s" % c.name, "  command = " + self.command_line(c), "  description = %s" % c.name]
            if c.kind == "restat":
                L.append("  restat = 1")
            if c.kind == "generator":
                L.append("  generator = 1")
            if c.kind == "depfile":
                L += ["  depfile = %s.d" % c.outs[0], "  deps = gcc"]
            if c.pool:
                L.append("  pool = %s" % c.pool)
            b = "build %s: r_%s %s" % (" ".join(c.outs), c.name, " ".join(c.exp))
            if c.imp:
                b += " | " + " ".join(c.imp)
            if c.oo:
                b += " || " + " ".join(c.oo)
            L += [b, ""]
        for a, ins in self.phony.items():
            L.append("build %s: phony %s" % (a, " ".join(ins)))
        if self.defaults:
            L.append("default " + " ".join(self.defaults))
        return "\n".join(L) + "\n"

    def targets(self):
        if self.defaults:
            return list(self.defaults)
        used = set(i for c in self.cmds for i in c.exp + c.imp + c.oo + c.hdrs) | set(i for v in self.phony.values() for i in v)
        return [o for c in self.cmds for o in c.outs if o not in used] + [a for a in self.phony if a not in used]

    def reachable(self):
        """commands the requested targets need (through every class of input and through aliases)"""
        prod = self.producer()
        seen, cmds, todo = set(), [], list(self.targets())
        while todo:
            n = todo.pop()
            if n in seen:
                continue
            seen.add(n)
            if n in self.phony:
                todo += self.phony[n]
            elif n in prod:
                c = prod[n]
                if c not in cmds:
                    cmds.append(c)
                todo += c.exp + c.imp + c.oo
        return cmds

    def expected_content(self, node, memo=None):
        """the content a clean build leaves in the file (None: the producing command fails in a clean build)"""
        memo = {} if memo is None else memo
        if node in memo:
            return memo[node]
        prod = self.producer()
        if node not in prod:
            r = self.src.get(node)
        else:
            c = prod[node]
            parts = [self.expected_content(i, memo) for i in self.files_read(c) + c.hdrs]
            if any(p is None for p in parts) or any(l.startswith("FAIL:") for p in parts for l in p.split("\n")):
                r = None
            else:
                r = "== %s\n%s t%d\n%s" % (node, c.name, c.tag, "".join(parts))
        memo[node] = r
        return r

    def dependents(self, names):
        """commands that depend (through any class of input, aliases included) on one of the named commands"""
        bad_nodes = set(o for c in self.cmds if c.name in names for o in c.outs)
        res = set()
        changed = True
        while changed:
            changed = False
            for a, ins in self.phony.items():
                if a not in bad_nodes and any(i in bad_nodes for i in ins):
                    bad_nodes.add(a); changed = True
            for c in self.cmds:
                if c.name not in res and c.name not in names and any(i in bad_nodes for i in c.exp + c.imp + c.oo):
                    res.add(c.name); bad_nodes.update(c.outs); changed = True
        return res

    def alias_dependents(self, names):
        """through explicit / implicit inputs, aliases included (no order-only edge)"""
        bad_nodes = set(o for c in self.cmds if c.name in names for o in c.outs)
        res = set()
        changed = True
        while changed:
            changed = False
            for a, ins in self.phony.items():
                if a not in bad_nodes and any(i in bad_nodes for i in ins):
                    bad_nodes.add(a); changed = True
            for c in self.cmds:
                if c.name not in res and c.name not in names and any(i in bad_nodes for i in c.exp + c.imp):
                    res.add(c.name); bad_nodes.update(c.outs); changed = True
        return res

    def hard_dependents(self, names, with_hdrs=False):
        """as dependents(), but only through explicit / implicit inputs that are not aliases; with_hdrs: also through
        depfile-discovered headers (they re-run the reader when they change, but a FAILED producer reaches the reader
        only through the declared order-only edge)"""
        bad_nodes = set(o for c in self.cmds if c.name in names for o in c.outs)
        res = set()
        changed = True
        while changed:
            changed = False
            for c in self.cmds:
                if c.name not in res and c.name not in names and any(i in bad_nodes for i in c.exp + c.imp + (c.hdrs if with_hdrs else [])):
                    res.add(c.name); bad_nodes.update(c.outs); changed = True
        return res


def gen_world(rng):
    w = World()
    nsrc = rng.randint(3, 5)
    for i in range(nsrc):
        w.src["s%d" % i] = "s%d v0\n" % i
    for i in range(2):
        w.src["h%d" % i] = "h%d v0\n" % i
    w.src["ord0"] = "ord0 v0\n"          # a source that is only ever used as an order-only input
    ncmd = rng.randint(3, 8)
    avail = ["s%d" % i for i in range(nsrc)]
    for i in range(ncmd):
        name = "c%d" % i
        outs = ["o%d" % i] + (["o%db" % i] if rng.random() < 0.25 else [])
        exp = rng.sample(avail, min(len(avail), rng.randint(1, 3)))
        inputless = rng.random() < 0.12          # `build version.txt: stamp` / `build gen.h: mkhdr || something`
        if inputless:
            exp = []
        rest = [a for a in avail if a not in exp]
        imp = rng.sample(rest, 1) if rest and rng.random() < 0.45 and not inputless else []
        rest = [a for a in rest if a not in imp]
        oo = []
        if rng.random() < 0.45:
            oo = ["ord0"] if (rng.random() < 0.5 or not rest) else rng.sample(rest, 1)
        kind = rng.choice(["plain", "plain", "plain", "restat", "generator", "depfile"])
        if inputless:
            kind = rng.choice(["plain", "plain", "restat", "generator"])
        hdrs = rng.sample(["h0", "h1"], rng.randint(1, 2)) if kind == "depfile" else []
        if kind == "depfile":
            # the generated-header shape: a file named by the depfile that the manifest declares ORDER-ONLY
            # (so that it exists before the first compile); its only change-tracking edge is the discovered one
            gens = [o for d in w.cmds for o in d.outs if o not in exp + imp + oo]
            if gens and rng.random() < 0.6:
                g = rng.choice(gens)
                oo.append(g); hdrs.append(g)
            if rng.random() < 0.35:
                oo.append(hdrs[0])
        pool = rng.choice([None, None, None, "p1", "console"])
        w.cmds.append(Cmd(name, outs, exp, imp, oo, kind, hdrs, pool))
        avail += outs
    # aliases: a top-level one, sometimes one that is used as an order-only input, rarely as an implicit input
    tops = [o for o in w.targets()]
    if rng.random() < 0.6 and tops:
        w.phony["all"] = rng.sample(tops, rng.randint(1, len(tops)))
    if rng.random() < 0.3 and ncmd >= 3:
        k = rng.randrange(1, ncmd - 1)
        w.phony["al%d" % k] = list(w.cmds[k - 1].outs[:1])
        tgt = w.cmds[rng.randrange(k + 1, ncmd)] if k + 1 < ncmd else None
        if tgt is not None:
            (tgt.imp if rng.random() < 0.35 else tgt.oo).append("al%d" % k)
    r = rng.random()
    if r < 0.4:
        w.defaults = []
    elif r < 0.7 and "all" in w.phony:
        w.defaults = ["all"]
    else:
        tops = w.targets()
        w.defaults = rng.sample(tops, rng.randint(1, len(tops)))
    return w


class Sandbox:
    def __init__(self, d, w, tool, llb):
        self.d, self.w, self.tool, self.llb = d, w, tool, llb
        os.makedirs(d)
        open(os.path.join(d, "cmd.sh"), "w").write(CMD_SH)
        os.chmod(os.path.join(d, "cmd.sh"), 0o755)
        open(os.path.join(d, ".clock"), "w").write("100\n")
        for n, c in w.src.items():
            self.write_source(n, c)
        self.write_manifest()

    def J(self, n):
        return os.path.join(self.d, n)

    def take_tick(self):
        t = int(open(self.J(".clock")).read()) + 1
        open(self.J(".clock"), "w").write("%d\n" % t)
        return t

    def write_source(self, n, content):
        put(self.J(n), content, self.take_tick())

    def write_manifest(self):
        # the manifest's own stamp is irrelevant (--no-regenerate; no rule produces it)
        open(self.J("build.ninja"), "w").write(self.w.manifest())

    def build(self, jobs, db, keep_going=None):
        if self.tool == "ninja":
            args = ["-j%d" % jobs] + (["-k", str(keep_going)] if keep_going is not None else [])
            return build(self.llb, self.d, args, tool="ninja")
        dbargs = ["--no-db"] if not db else (["--db", "my.db"] if db == "path" else [])
        args = ["-j%d" % jobs] + dbargs + (["-k", str(keep_going)] if keep_going is not None else [])
        return build(self.llb, self.d, args)

    def contents(self, nodes):
        out = {}
        for n in nodes:
            try:
                out[n] = open(self.J(n)).read()
            except OSError:
                out[n] = None
        return out


def apply_op(rng, w, sb_list, nops_done):
    """Pick one edit, apply it to the world and to every sandbox; returns a description dict (with the clause-level
    expectations the oracle checks) or None if the op is not applicable."""
    reach = w.reachable()
    if not reach:
        return None
    prod = w.producer()
    kinds = ["edit_source", "edit_source", "touch_source", "edit_implicit", "edit_header", "edit_orderonly", "delete_output", "delete_output",
             "change_command", "change_command", "add_statement", "remove_statement", "rewire_explicit", "rewire_implicit",
             "rewire_class", "fail", "fail", "declare_input"]
    kind = rng.choice(kinds)
    frozen = set(u for c in w.cmds for u in c.undeclared)
    op = dict(kind=kind)

    def edit(n):
        w.src[n] = "%s e%d\n" % (n, nops_done + 1)
        for sb in sb_list:
            sb.write_source(n, w.src[n])

    def readers(n, classes=("exp", "imp", "hdrs")):
        return [c for c in reach if any(n in getattr(c, k) for k in classes)]

    if kind == "edit_source":
        cands = [n for n in w.src if n.startswith("s") and n not in frozen and readers(n, ("exp",))]
        if not cands:
            return None
        n = rng.choice(cands)
        edit(n)
        op.update(node=n, must_run=[c.name for c in readers(n, ("exp", "imp"))])
    elif kind == "touch_source":
        cands = [n for n in w.src if n.startswith("s") and n not in frozen and readers(n, ("exp", "imp"))]
        if not cands:
            return None
        n = rng.choice(cands)
        for sb in sb_list:
            sb.write_source(n, w.src[n])      # same content, fresh stamp
        op.update(node=n, must_run=[c.name for c in readers(n, ("exp", "imp"))])
    elif kind == "edit_implicit":
        cands = [n for n in w.src if n not in frozen and readers(n, ("imp",))]
        if not cands:
            return None
        n = rng.choice(cands)
        edit(n)
        op.update(node=n, must_run=[c.name for c in readers(n, ("exp", "imp"))])
    elif kind == "edit_header":
        cands = [n for n in ("h0", "h1") if readers(n, ("hdrs",))]
        if not cands:
            return None
        n = rng.choice(cands)
        edit(n)
        op.update(node=n, must_run=[c.name for c in readers(n, ("hdrs",))])
    elif kind == "edit_orderonly":
        cands = [n for n in w.src if n not in frozen and any(n in c.oo for c in reach)
                 and not any(n in c.exp + c.imp + c.hdrs + c.undeclared for c in w.cmds)]
        if not cands:
            return None
        n = rng.choice(cands)
        edit(n)
        op.update(node=n, must_run=[], runs_nothing=True)
    elif kind == "delete_output":
        c = rng.choice(reach)
        o = rng.choice(c.outs)
        for sb in sb_list:
            rm(sb.J(o))
        op.update(node=o, must_run=[c.name])
    elif kind == "change_command":
        c = rng.choice(reach)
        c.tag += 1
        op.update(cmd=c.name, must_run=[] if c.kind == "generator" else [c.name], generator=(c.kind == "generator"))
        if c.kind == "generator":
            # the generator exemption: the old output stays; the harness's clean-build picture must follow Ninja here
            op["generator_exempt"] = c.name
    elif kind == "add_statement":
        i = len(w.cmds)
        while any(c.name == "c%d" % i for c in w.cmds):
            i += 1
        avail = [n for n in w.src if n.startswith("s") and n not in frozen] + [o for c in w.cmds for o in c.outs]
        c = Cmd("c%d" % i, ["o%d" % i], rng.sample(avail, min(2, len(avail))), [], [], rng.choice(["plain", "restat", "depfile"]))
        if c.kind == "depfile":
            c.hdrs = ["h1"]
        w.cmds.append(c)
        if w.defaults:
            if "all" in w.phony and w.defaults == ["all"]:
                w.phony["all"].append(c.outs[0])
            else:
                w.defaults.append(c.outs[0])
        op.update(cmd=c.name, must_run=[c.name])
    elif kind == "remove_statement":
        used = set(i for c in w.cmds for i in c.exp + c.imp + c.oo + c.hdrs) | set(i for v in w.phony.values() for i in v) | set(w.defaults)
        cands = [c for c in w.cmds if not any(o in used for o in c.outs)]
        if not cands or len(w.cmds) <= 2:
            return None
        c = rng.choice(cands)
        w.cmds.remove(c)
        op.update(cmd=c.name, must_run=[])
    elif kind == "rewire_explicit":
        c = rng.choice(reach)
        idx = w.cmds.index(c)
        avail = [n for n in w.src if n.startswith("s") and n not in frozen] + [o for d in w.cmds[:idx] for o in d.outs]
        avail = [a for a in avail if a not in c.exp + c.imp + c.oo + c.hdrs]
        if not avail:
            return None
        new = rng.choice(avail)
        if len(c.exp) > 1 and rng.random() < 0.5:
            c.exp[rng.randrange(len(c.exp))] = new
        else:
            c.exp.append(new)
        op.update(cmd=c.name, must_run=[] if c.kind == "generator" else [c.name], generator=(c.kind == "generator"))
        if c.kind == "generator":
            op["generator_exempt"] = c.name
    elif kind == "rewire_implicit":
        c = rng.choice(reach)
        idx = w.cmds.index(c)
        removable = [i for i in c.imp if i not in c.hdrs]
        if removable and rng.random() < 0.5:
            c.imp.remove(rng.choice(removable))
        else:
            avail = [n for n in w.src if n.startswith("s") and n not in frozen] + [o for d in w.cmds[:idx] for o in d.outs]
            avail = [a for a in avail if a not in c.exp + c.imp + c.oo + c.hdrs]
            if not avail:
                return None
            c.imp.append(rng.choice(avail))
        op.update(cmd=c.name, must_run=[] if c.kind == "generator" else [c.name], generator=(c.kind == "generator"))
        if c.kind == "generator":
            op["generator_exempt"] = c.name
    elif kind == "rewire_class":
        cands = [c for c in reach if (c.imp and any(i not in w.phony for i in c.imp)) or (c.oo and any(i not in w.phony for i in c.oo))]
        if not cands:
            return None
        c = rng.choice(cands)
        if c.imp and (not c.oo or rng.random() < 0.5):
            n = c.imp.pop(0); c.oo.append(n)
        else:
            n = c.oo.pop(0); c.imp.append(n)
        op.update(cmd=c.name, node=n, must_run=[] if c.kind == "generator" else [c.name], generator=(c.kind == "generator"))
        if c.kind == "generator":
            op["generator_exempt"] = c.name
    elif kind == "declare_input":
        # the command line already reads a file the manifest did not declare; the manifest is corrected (command line
        # unchanged), later the file is edited.  Arranged in two steps: here the undeclared read is introduced together
        # with its declaration being absent only in a PREVIOUS manifest, see run_history (scripted), so skip here.
        return None
    elif kind == "fail":
        cands = [n for n in w.src if n.startswith("s") and n not in frozen and readers(n, ("exp", "imp"))]
        if not cands:
            return None
        n = rng.choice(cands)
        late = rng.random() < 0.5
        how = rng.choice(["exit1", "exit1", "exit255", "ABRT", "SEGV", "TERM"])
        op.update(node=n, saved=w.src[n], failing=[c.name for c in readers(n, ("exp", "imp"))], late=late, how=how)
        w.src[n] = "FAIL:%s:%s\n" % ("late" if late else "early", how)
        for sb in sb_list:
            sb.write_source(n, w.src[n])
    for sb in sb_list:
        sb.w = w
        sb.write_manifest()
    return op


def history(llb, d, seed, jobs, db, keep_going, with_ninja, want_clean):
    """One generated manifest and edit history; returns findings (list of (key, what, replay)), counters, notes."""
    rng = random.Random(seed)
    w = gen_world(rng)
    sb = Sandbox(os.path.join(d, "llb"), w, "llbuild", llb)
    twins = [sb]
    nj = None
    if with_ninja:
        nj = Sandbox(os.path.join(d, "nj"), w, "ninja", llb)
        twins.append(nj)
    findings, known, notes = [], [], []      # findings stop the history; known findings are reported and the history goes on
    steps = []
    stats = dict(builds=0, nontrivial=set(), clean_builds=0, ninja_disagreements=0, ninja_compared=0)

    def record(kind, **kw):
        steps.append(dict(kind=kind, **kw))

    def rp(extra=None):
        r = dict(seed=seed, jobs=jobs, db=db, keep_going=keep_going, steps=steps, manifest=w.manifest(), sources=dict(w.src), sandbox=sb.d,
                 how="harness/py/props/c18.py:history(seed) regenerates the manifest and the edit sequence")
        if extra:
            r.update(extra)
        return r

    def alias_tainted():
        """commands that (transitively) have a phony alias among their explicit/implicit inputs: known to re-run every build"""
        direct = set(c.name for c in w.cmds if any(i in w.phony for i in c.exp + c.imp))
        return direct | w.hard_dependents(direct, with_hdrs=True)

    def check_success_state(tag, ran):
        reach = w.reachable()
        nodes = [o for c in reach for o in c.outs]
        got = sb.contents(nodes)
        memo = {}
        for n in nodes:
            exp = w.expected_content(n, memo)
            if got[n] != exp:
                findings.append(("stale-output", "after a successful build (%s) the content of %s differs from what a clean build of the same manifest and sources produces" % (tag, n),
                                 rp(dict(node=n, content=got[n], clean_build_content=exp, ran=ran))))
                return False
        return True

    def null_rebuild(tag):
        rc, ran, txt = sb.build(jobs, db, keep_going)
        stats["builds"] += 1
        record("null-rebuild", rc=rc, ran=ran)
        if db:
            if rc != 0 or ran:
                tainted = alias_tainted()
                if rc == 0 and ran and all(r in tainted for r in ran):
                    if not any(k == "phony-alias-input-reruns" for (k, _, _) in known):
                        known.append(("phony-alias-input-reruns", "an immediate rebuild re-runs %s: commands with a phony alias among their explicit/implicit inputs (or downstream of one) run on every build" % sorted(set(ran)),
                                      rp(dict(ran=ran, text=txt[-800:]))))
                else:
                    findings.append(("null-build-runs", "an immediate rebuild (%s) ran %s / exit status %d" % (tag, ran, rc), rp(dict(ran=ran, text=txt[-800:]))))
        else:
            # --no-db: no stored hash, every non-generator command is executed again (proved: c18_no_prior_runs);
            # generator commands decide on timestamps alone and must not run
            # a generator command runs only if one of its explicit/implicit inputs was re-written by a command that ran
            reach = w.reachable()
            direct = set(c.name for c in w.cmds if any(i in w.phony for i in c.exp + c.imp))    # an alias input always forces the run
            touched, must = set(), []
            for c in w.cmds:
                if c not in reach:
                    continue
                runs = c.kind != "generator" or c.name in direct or any(i in touched for i in c.exp + c.imp)
                if runs:
                    must.append(c.name)
                    if c.kind != "restat":
                        touched.update(c.outs)
            if rc != 0 or sorted(ran) != sorted(must):
                findings.append(("nodb-rebuild-mismatch", "--no-db: an immediate rebuild ran %s (exit status %d); expected exactly %s: every non-generator command "
                                 "(no stored hash) and the generator commands downstream of a re-written file" % (sorted(ran), rc, sorted(must)),
                                 rp(dict(ran=ran, text=txt[-800:]))))

    def build_all(tag):
        rc, ran, txt = sb.build(jobs, db, keep_going)
        stats["builds"] += 1
        nran = None
        if nj is not None:
            nrc, nran, ntxt = nj.build(jobs, True, keep_going)
        record("build", tag=tag, rc=rc, ran=ran, ninja_ran=nran)
        return rc, ran, txt, nran

    # ---- initial build
    rc, ran, txt, nran = build_all("initial")
    if rc != 0:
        findings.append(("initial-build-failed", "the initial build of a generated manifest failed", rp(dict(text=txt[-1500:]))))
        return findings + known, stats, notes, steps
    if not check_success_state("initial", ran):
        return findings + known, stats, notes, steps
    null_rebuild("after the initial build")
    def reclassify():
        """Manifest edits that move one input between explicit / implicit / order-only while the command line stays the
        same (a literal command line naming the file), then an edit of that input: the command must see it (seed C18-3).
        Returns False if a finding stops the history, None if not applicable."""
        frozen = set(u for c in w.cmds for u in c.undeclared)
        cands = []
        for c in w.reachable():
            if c.kind == "generator" or c.literal is not None:
                continue
            for cls in ("exp", "imp", "oo"):
                for x in getattr(c, cls):
                    if x in w.src and x.startswith("s") and x not in c.hdrs and x not in frozen and not (cls == "exp" and len(c.exp) == 1) \
                            and (c.exp + c.imp + c.oo).count(x) == 1:
                        cands.append((c, cls, x))
        if not cands:
            return None
        c, cls, x = rng.choice(cands)
        order = [k for k in ("exp", "imp", "oo") if k != cls]
        rng.shuffle(order)
        path = [cls, order[0]] + ([order[1]] if order[0] == "oo" else [])      # always ends in a class that triggers
        stats["nontrivial"].add(("reclassify " + ">".join(path), jobs, db, keep_going))

        def sync(tag):
            for t in twins:
                t.w = w
                t.write_manifest()
            rc, ran, txt, nran = build_all(tag)
            if rc != 0:
                findings.append(("build-failed", "the build after '%s' failed although no command can fail" % tag, rp(dict(ran=ran, text=txt[-1200:]))))
                return None
            return ran
        c.literal = w.files_read(c) + ([x] if cls == "oo" else [])
        if cls == "oo":
            record("op", op="literal command line now reads the order-only input", cmd=c.name, node=x)
            ran = sync("literal command line")
            if ran is None or not check_success_state("literal command line", ran):
                return False
            null_rebuild("after making the command line literal")
            if findings:
                return False
        cur = cls
        for nxt in path[1:]:
            getattr(c, cur).remove(x)
            getattr(c, nxt).append(x)
            record("op", op="reclassify", cmd=c.name, node=x, frm=cur, to=nxt, command_line="unchanged")
            ran = sync("reclassify %s: %s -> %s" % (x, cur, nxt))
            if ran is None:
                return False
            if c.name not in ran:
                notes.append(dict(note="reclassifying %s of %s (%s -> %s, command line unchanged) did not re-run it (the hash covers the classes)" % (x, c.name, cur, nxt), seed=seed))
            cur = nxt
        # now the input is explicit or implicit: an edit must re-run the command and reach the output
        w.src[x] = "%s q%d\n" % (x, len(steps))
        for t in twins:
            t.write_source(x, w.src[x])
        record("op", op="edit the reclassified input", node=x, cmd=c.name, declared=cur)
        ran = sync("edit after reclassify")
        if ran is None:
            return False
        if c.name not in ran:
            findings.append(("reclassified-input-edit-did-not-rerun", "input %s of %s was moved %s (command line unchanged) and then edited with a fresh mtime: the command "
                             "was not executed (ran %s)" % (x, c.name, " -> ".join(path), ran), rp(dict(ran=ran, cmd=c.name, node=x, path=path))))
            return False
        if not check_success_state("edit after reclassify", ran):
            return False
        null_rebuild("after the edit of a reclassified input")
        if findings:
            return False
        # back to a command line derived from the declaration
        c.literal = None
        ran = sync("command line derived again")
        if ran is None or not check_success_state("command line derived again", ran):
            return False
        null_rebuild("after restoring the derived command line")
        return not findings

    def gain_lose_output():
        """An existing build statement gains an output (one the command line already writes, so the command text does not
        change; the stray file is removed as in a fresh checkout) and later loses it again."""
        cands = [c for c in w.reachable() if len(c.outs) == 1 and not c.extra_outs and c.literal is None]
        if not cands:
            return None
        c = rng.choice(cands)
        nb = c.outs[0] + "x"
        stats["nontrivial"].add(("gain/lose output", jobs, db, keep_going))

        def sync(tag):
            for t in twins:
                t.w = w
                t.write_manifest()
            rc, ran, txt, nran = build_all(tag)
            if rc != 0:
                findings.append(("build-failed", "the build after '%s' failed although no command can fail" % tag, rp(dict(ran=ran, text=txt[-1200:]))))
                return None
            return ran
        c.extra_outs = [nb]
        record("op", op="command line also writes an undeclared file", cmd=c.name, node=nb)
        ran = sync("command writes an extra file")
        if ran is None or not check_success_state("command writes an extra file", ran):
            return False
        null_rebuild("after the command line change")
        if findings:
            return False
        # the statement gains the output; command text unchanged; the stray file is not there (fresh checkout)
        c.extra_outs = []
        c.outs.append(nb)
        for t in twins:
            rm(t.J(nb))
        record("op", op="build statement gains an output", cmd=c.name, node=nb, command_line="unchanged")
        ran = sync("statement gains an output")
        if ran is None:
            return False
        got = sb.contents([nb])[nb]
        exp = w.expected_content(nb)
        if got != exp:
            demanded = nb in w.targets() or any(nb in d.exp + d.imp + d.oo + d.hdrs for d in w.reachable())
            key = "added-output-not-built" if (got is None and not demanded) else "stale-output"
            item = (key, "`build %s` was edited to `build %s %s` (command text unchanged): the build ran %s and %s, a clean build of the same manifest produces it" % (
                c.outs[0], c.outs[0], nb, ran, "left %s missing" % nb if got is None else "left %s stale" % nb), rp(dict(ran=ran, node=nb, content=got, clean_build_content=exp)))
            if key == "added-output-not-built":
                if not any(k == key for (k, _, _) in known):
                    known.append(item)
                # bring the sandbox to the clean-build state (a changed command text invalidates the stale select result) and go on
                c.tag += 1
                record("op", op="change_command (recovery)", cmd=c.name)
                ran = sync("forced after added-output-not-built")
                if ran is None:
                    return False
            else:
                findings.append(item)
                return False
        if not check_success_state("statement gains an output", ran):
            return False
        null_rebuild("after the statement gained an output")
        if findings:
            return False
        # ... and loses it again (the command still writes the file)
        c.outs.remove(nb)
        c.extra_outs = [nb]
        record("op", op="build statement loses an output", cmd=c.name, node=nb, command_line="unchanged")
        ran = sync("statement loses an output")
        if ran is None or not check_success_state("statement loses an output", ran):
            return False
        null_rebuild("after the statement lost an output")
        if findings:
            return False
        c.extra_outs = []
        ran = sync("command line without the extra file")
        if ran is None or not check_success_state("command line without the extra file", ran):
            return False
        null_rebuild("after removing the extra file from the command line")
        return not findings

    def cycle_op():
        """A manifest edit that declares a dependency cycle (a statement lists its own output, or an earlier statement lists
        the output of one of its dependents, as explicit / implicit / order-only input): the build must fail and run no
        command of the cycle; after the edit is reverted the build converges."""
        reach = [c for c in w.reachable() if c.literal is None]
        # (a generator statement is not re-evaluated for a changed definition - known finding rewire-generator-input-stale -
        # so the edit is made to a non-generator statement)
        firsts = [c for c in reach if c.kind != "generator"]
        if not firsts:
            return None
        ci = rng.choice(firsts)
        down = w.dependents({ci.name})
        cands = [c for c in reach if c.name in down]
        cj = rng.choice(cands) if cands and rng.random() < 0.7 else ci
        cls = rng.choice(["exp", "imp", "oo"])
        back = cj.outs[0]
        if back in ci.exp + ci.imp + ci.oo:
            return None
        members = set([ci.name]) | (down & (set(c.name for c in w.cmds if cj.name in w.dependents({c.name})) | set([cj.name])))
        stats["nontrivial"].add(("cycle %s len%s" % (cls, "1" if cj is ci else ">1"), jobs, db, keep_going))
        getattr(ci, cls).append(back)
        if ci not in w.reachable():
            # without a `default` the root targets are the outputs nobody lists as an input: the edit took the cycle out of the build
            getattr(ci, cls).remove(back)
            return None
        record("op", op="declare a dependency cycle", cmd=ci.name, node=back, cls=cls, members=sorted(members))
        for t in twins:
            t.w = w
            t.write_manifest()
        rc, ran, txt, nran = build_all("declared cycle")
        nrc = steps[-1].get("ninja_rc")
        if rc == 0 or any(r in members for r in ran):
            findings.append(("cycle-not-rejected", "`build %s` was edited to list %s (an output of %s) as %s input, a dependency cycle through %s: the build exited with "
                             "status %d and ran %s" % (" ".join(ci.outs), back, "itself" if cj is ci else "its dependent " + cj.name,
                                                       {"exp": "an explicit", "imp": "an implicit", "oo": "an order-only"}[cls], sorted(members), rc, ran),
                             rp(dict(ran=ran, text=txt[-800:], members=sorted(members)))))
            return False
        if "cycle" not in txt:
            notes.append(dict(note="a declared dependency cycle failed the build without the word 'cycle' in the output", seed=seed))
        getattr(ci, cls).remove(back)
        record("op", op="revert the cycle", cmd=ci.name)
        for t in twins:
            t.w = w
            t.write_manifest()
        rc, ran, txt, nran = build_all("cycle reverted")
        if rc != 0:
            findings.append(("build-failed", "the build after reverting a declared cycle failed", rp(dict(ran=ran, text=txt[-1200:]))))
            return False
        if not check_success_state("cycle reverted", ran):
            return False
        null_rebuild("after reverting the cycle")
        return not findings

    nops = rng.randint(5, 9)
    done = 0
    guard = 0
    while done < nops and guard < 60 and not findings:
        guard += 1
        if rng.random() < 0.07:
            r = cycle_op()
            if r is None:
                continue
            done += 1
            if r is False:
                break
            continue
        if rng.random() < 0.10:
            r = gain_lose_output()
            if r is None:
                continue
            done += 1
            if r is False:
                break
            continue
        if rng.random() < 0.18:
            r = reclassify()
            if r is None:
                continue
            done += 1
            if r is False:
                break
            continue
        op = apply_op(rng, w, twins, done)
        if op is None:
            continue
        done += 1
        stats["nontrivial"].add((op["kind"] + (":%s:%s" % ("late" if op["late"] else "early", op["how"]) if op["kind"] == "fail" else ""), jobs, db, keep_going))
        record("op", **{("op" if k == "kind" else k): v for k, v in op.items() if k != "saved"})
        if op["kind"] == "fail":
            rc, ran, txt, nran = build_all("with a failing command")
            failing = set(op["failing"])
            deps = w.dependents(failing)
            hard = w.hard_dependents(failing)
            if rc == 0:
                findings.append(("failure-not-reported", "command(s) %s %s%s, but the build exited with status 0 (ran %s)" % (
                    sorted(failing & set(ran)), {"exit1": "exited with status 1", "exit255": "exited with status 255"}.get(op["how"], "were killed by SIG" + op["how"]),
                    " after writing their outputs" if op["late"] else "", ran), rp(dict(ran=ran, text=txt[-800:]))))
                break
            if not (failing & set(ran)):
                findings.append(("failing-command-not-run", "none of the commands reading the edited input %s ran" % op["node"], rp(dict(ran=ran, failing=sorted(failing)))))
                break
            wrong = [r for r in ran if r in deps]
            if wrong:
                soft = [r for r in wrong if r not in hard]
                if keep_going not in (None, 1) and len(soft) == len(wrong):
                    # reached only through an alias or an order-only edge: the two keep-going findings
                    viaalias = w.alias_dependents(failing)
                    for r in soft:
                        key = "phony-launders-failure" if r in viaalias else "order-only-failure-not-propagated"
                        if not any(k == key for (k, _, _) in known):
                            known.append((key, "keep-going build (-k %s): %s ran although a command it depends on %s failed" % (
                                keep_going, r, "through a phony alias" if r in viaalias else "through an order-only input"), rp(dict(ran=ran, failing=sorted(failing)))))
                else:
                    findings.append(("failed-dependent-ran", "dependents %s of the failing command(s) %s were executed" % (wrong, sorted(failing)), rp(dict(ran=ran, text=txt[-800:]))))
                    break
            # retried next time
            rc2, ran2, txt2, nran2 = build_all("again, not repaired")
            if rc2 == 0 or not (failing & set(ran2)):
                tried = [c for c in w.cmds if c.name in failing and c.name in ran]
                if op.get("late") and any(c.kind == "generator" and c.name not in ran2 for c in tried):
                    # (the partial output of the generator command then reaches its dependents, so nothing more can be judged in this step)
                    # known: a generator command that failed after writing its output takes the timestamp shortcut
                    if not any(k == "generator-failed-not-retried" for (k, _, _) in known):
                        known.append(("generator-failed-not-retried", "generator command(s) %s failed after writing their outputs and were not retried by the next build (ran %s, exit status %d)" % (
                            sorted(c.name for c in tried), ran2, rc2), rp(dict(ran=ran2, text=txt2[-800:]))))
                else:
                    findings.append(("failed-not-retried", "nothing was edited after a build in which %s failed%s, yet the next build did not retry them (ran %s, exit status %d)" % (
                        sorted(failing & set(ran)), " AFTER writing their outputs" if op.get("late") else "", ran2, rc2), rp(dict(ran=ran2, text=txt2[-800:]))))
                    break
            wrong2 = [r for r in ran2 if r in hard]
            if wrong2 and not any(c.kind == "generator" for c in w.cmds if c.name in failing):
                findings.append(("failed-dependent-ran", "the build after a failed one (nothing edited) executed dependents %s of the failing command(s) %s" % (wrong2, sorted(failing)),
                                 rp(dict(ran=ran2, text=txt2[-800:]))))
                break
            # repair
            w.src[op["node"]] = "%s r%d\n" % (op["node"], done)
            for t in twins:
                t.write_source(op["node"], w.src[op["node"]])
            record("op", op="repair", node=op["node"])
            rc, ran, txt, nran = build_all("after the repair")
            if rc != 0:
                findings.append(("repair-does-not-converge", "after repairing the failing input the build still fails", rp(dict(ran=ran, text=txt[-1200:]))))
                break
            if not check_success_state("after the repair", ran):
                break
            null_rebuild("after the repair")
            continue
        # ---- an ordinary edit
        rc, ran, txt, nran = build_all(op["kind"])
        if rc != 0:
            findings.append(("build-failed", "the build after '%s' failed although no command can fail" % op["kind"], rp(dict(ran=ran, text=txt[-1500:]))))
            break
        if op.get("generator_exempt"):
            # boundary (documented, Ninja compatible): a generator command is not re-run for a changed definition.
            # Bring it to the clean-build state by deleting its outputs, then continue.
            c = [c for c in w.cmds if c.name == op["generator_exempt"]][0]
            if c.name in ran and db:
                notes.append(dict(note="generator command %s WAS re-run after its definition changed" % c.name, seed=seed))
            for t in twins:
                for o in c.outs:
                    rm(t.J(o))
            record("op", op="force-generator", cmd=c.name)
            rc, ran, txt, nran = build_all("forced generator")
            if rc != 0:
                findings.append(("build-failed", "the build after deleting a generator command's outputs failed", rp(dict(ran=ran, text=txt[-1500:]))))
                break
        reach_names = set(c.name for c in w.reachable())
        missing = [m for m in op.get("must_run", []) if m in reach_names and m not in ran]
        if missing and not op.get("generator_exempt"):
            findings.append(("%s-did-not-rerun" % op["kind"].replace("_", "-"), "after '%s' (%s) the command(s) %s were not executed (ran: %s)" % (
                op["kind"], op.get("node") or op.get("cmd"), missing, ran), rp(dict(ran=ran, expected_to_run=op.get("must_run")))))
            break
        tainted = alias_tainted()
        if op.get("runs_nothing") and db and any(r not in tainted for r in ran):
            findings.append(("order-only-edit-reran", "editing %s, which is used only as an order-only input, ran %s" % (op["node"], ran), rp(dict(ran=ran))))
            break
        if not check_success_state(op["kind"], ran):
            break
        if nran is not None and db:
            stats["ninja_compared"] += 1
            if sorted(set(nran)) != sorted(set(r for r in ran if r not in tainted or r in nran)):
                stats["ninja_disagreements"] += 1
                if len(notes) < 6:
                    notes.append(dict(note="ninja 1.11.1 ran %s, llbuild ran %s after %s" % (sorted(set(nran)), sorted(set(ran)), op["kind"]), seed=seed))
        null_rebuild("after %s" % op["kind"])
    # ---- a real clean build of the final state, to validate the harness's own picture of "clean build"
    if want_clean and not findings:
        cd = os.path.join(d, "clean")
        cs = Sandbox(cd, w, "llbuild", llb)
        rc, ran, txt = cs.build(4, False)
        stats["clean_builds"] += 1
        reach = w.reachable()
        nodes = [o for c in reach for o in c.outs]
        got, inc = cs.contents(nodes), sb.contents(nodes)
        if rc != 0:
            findings.append(("clean-build-failed", "the clean build of the final manifest failed", rp(dict(text=txt[-1500:]))))
        else:
            for n in nodes:
                if got[n] != inc[n]:
                    findings.append(("stale-output", "content of %s after the incremental history differs from a real clean build in a fresh directory" % n,
                                     rp(dict(node=n, content=inc[n], clean_build_content=got[n]))))
                    break
    return findings + known, stats, notes, steps


# ------------------------------------------------------------------- scripted regression scenarios

def scripted(llb, base):
    """Small fixed histories: the inputs of repaired findings (corpus), of the known findings, and clause-level
    expectations the random histories do not assert.  Returns (findings, number of scenarios)."""
    out = []
    n = [0]

    def sandbox(name, manifest, files):
        n[0] += 1
        d = os.path.join(base, name)
        os.makedirs(d)
        for f, (content, t) in files.items():
            put(os.path.join(d, f), content, t)
        open(os.path.join(d, "build.ninja"), "w").write(manifest)
        return d

    def rpl(d, log, **kw):
        return dict(sandbox=d, manifest=open(os.path.join(d, "build.ninja")).read(), builds=log, **kw)

    # -- repaired 66b1a7c: declaring an implicit input the command line already reads, then editing it
    for gen in (0, 1):
        M = "rule R\n  command = cat a.txt b.txt > $out; echo $out >> runlog\n%sbuild out: R a.txt%s\n"
        d = sandbox("rewire%d" % gen, M % ("  generator = 1\n" if gen else "", ""), {"a.txt": ("a\n", 10), "b.txt": ("b\n", 10)})
        log = [build(llb, d, ["-j1"])]
        open(os.path.join(d, "build.ninja"), "w").write(M % ("  generator = 1\n" if gen else "", " | b.txt"))
        log.append(build(llb, d, ["-j1"]))
        put(os.path.join(d, "b.txt"), "b2\n", T_NEW)
        log.append(build(llb, d, ["-j1"]))
        content = open(os.path.join(d, "out")).read() if os.path.exists(os.path.join(d, "out")) else None
        if content != "a\nb2\n":
            out.append(("rewire-generator-input-stale" if gen else "rewire-implicit-input-stale",
                        "an implicit input was added to the build statement (command line unchanged) and then edited: the command was not re-run, "
                        "the output is %r, a clean build gives 'a\\nb2\\n'%s" % (content, " (generator rule)" if gen else ""),
                        rpl(d, log, history=["build", "declare `| b.txt`", "build", "edit b.txt (fresh mtime)", "build"])))
    # -- repaired a03bdd8: an input goes missing while the output is newer than the other inputs
    M = "rule CAT\n  command = cat $in > $out; echo $out >> runlog\nbuild c: CAT src2 | m\n"
    d = sandbox("missing", M, {"src2": ("s2\n", 10), "m": ("m\n", 10)})
    log = [build(llb, d, ["-j1"])]
    rm(os.path.join(d, "m"))
    log.append(build(llb, d, ["-j1"]))
    log.append(build(llb, d, ["-j1"]))
    if log[1][0] == 0 or log[2][0] == 0:
        out.append(("missing-input-accepted", "an input of an up-to-date command was deleted: exit statuses of the next two builds are %d, %d (a clean build fails: "
                    "missing input and no rule to build it)" % (log[1][0], log[2][0]), rpl(d, log, history=["build", "delete m", "build", "build"])))
    # -- known: a generator command that writes its output and then fails is not retried
    for gen in (1, 0):
        M = "rule G\n  command = echo $out >> runlog; cat $in > $out; test ! -e failflag\n%sbuild g: G src\n" % ("  generator = 1\n" if gen else "")
        d = sandbox("genfail%d" % gen, M, {"src": ("s\n", 10), "failflag": ("", 10)})
        log = [build(llb, d, ["-j1"]), build(llb, d, ["-j1"])]
        if log[0][0] == 0:
            out.append(("scripted-setup", "the failing command did not fail", rpl(d, log)))
        elif log[1][0] == 0 or "g" not in log[1][1]:
            out.append(("generator-failed-not-retried" if gen else "failed-not-retried",
                        "a %scommand that wrote its output and then failed is not retried by the next build (exit status %d, ran %s)" % (
                            "generator " if gen else "", log[1][0], log[1][1]), rpl(d, log, history=["build (fails)", "build"])))
    # -- known (keep-going): failure behind an order-only edge / behind an alias; default -k 1 must stop everything
    M = ("rule CAT\n  command = cat $in > $out; echo $out >> runlog\nrule FAIL\n  command = echo $out >> runlog; false\n"
         "build a: FAIL src\nbuild p: phony a\nbuild b: CAT src2 || a\nbuild c: CAT src2 | p\nbuild e: CAT src2 a\ndefault b c e\n")
    for k in (None, 0, 2):
        d = sandbox("keepgoing%s" % k, M, {"src": ("s\n", 10), "src2": ("s2\n", 10)})
        log = [build(llb, d, ["-j1"] + ([] if k is None else ["-k", str(k)]))]
        rc, ran, txt = log[0]
        if rc == 0 or "a" not in ran:
            out.append(("failure-not-reported", "a failing command: exit status %d, ran %s" % (rc, ran), rpl(d, log)))
        if "e" in ran:
            out.append(("failed-dependent-ran", "-k %s: the command with the failed command's output as an explicit input was executed" % k, rpl(d, log)))
        if "b" in ran:
            out.append(("order-only-failure-not-propagated" if k is not None else "failed-dependent-ran",
                        "-k %s: `build b: CAT src2 || a` ran although a failed" % k, rpl(d, log)))
        if "c" in ran:
            out.append(("phony-launders-failure" if k is not None else "failed-dependent-ran",
                        "-k %s: `build c: CAT src2 | p` (p: phony a) ran although a failed" % k, rpl(d, log)))
    # -- known: a phony alias among the inputs re-runs the command on every build
    M = ("rule CAT\n  command = cat $in > $out; echo $out >> runlog\nbuild a: CAT src\nbuild al: phony a\n"
         "build c: CAT src2 | al\nbuild d: CAT src2 || al\ndefault c d\n")
    d = sandbox("alias", M, {"src": ("s\n", 10), "src2": ("s2\n", 10)})
    log = [build(llb, d, ["-j1"]), build(llb, d, ["-j1"])]
    if log[1][0] != 0 or "d" in log[1][1] or "a" in log[1][1]:
        out.append(("null-build-runs", "alias scenario: the immediate rebuild ran %s" % log[1][1], rpl(d, log)))
    elif "c" in log[1][1]:
        out.append(("phony-alias-input-reruns", "`build c: CAT src2 | al` (al: phony a) is executed again by an immediate rebuild", rpl(d, log, history=["build", "build"])))
    # -- a command that fails AFTER writing its output (compile, then validate): the output is not older than the inputs.
    #    Nothing edited: the next build must retry it, fail again, and must not run the dependent (seed C18-1)
    M = ("rule gen\n  command = echo gen >> runlog && cp -p src out && grep -q GOOD out\nrule use\n  command = echo use >> runlog && cp -p out final\n"
         "build out: gen src\nbuild final: use out\ndefault final\n")
    for variant in ("db", "nodb", "j4"):
        args = {"db": ["-j1"], "nodb": ["-j1", "--no-db"], "j4": ["-j4"]}[variant]
        d = sandbox("failafter-" + variant, M, {"src": ("BAD v1\n", 10)})
        log = [build(llb, d, args), build(llb, d, args)]
        hist = ["build (gen writes out, then fails)", "build (nothing edited)"]
        if log[0][0] == 0 or log[0][1] != ["gen"]:
            out.append(("failure-not-reported", "fail-after-output scenario, first build: exit status %d, ran %s" % (log[0][0], log[0][1]), rpl(d, log, history=hist)))
        elif log[1][0] == 0 or "gen" not in log[1][1]:
            out.append(("failed-not-retried", "a command that wrote its output (cp -p: same mtime as the input) and then failed is not retried by the next build although nothing "
                        "was edited: exit status %d, ran %s%s" % (log[1][0], log[1][1], "; the dependent was built from the failed command's output" if "use" in log[1][1] else ""),
                        rpl(d, log, history=hist)))
        elif "use" in log[1][1] or os.path.exists(os.path.join(d, "final")):
            out.append(("failed-dependent-ran", "the dependent of a command that failed after writing its output was executed", rpl(d, log, history=hist)))
        else:
            put(os.path.join(d, "src"), "GOOD v2\n", 20)
            log += [build(llb, d, args), build(llb, d, args)]
            fin = open(os.path.join(d, "final")).read() if os.path.exists(os.path.join(d, "final")) else None
            if log[2][0] != 0 or fin != "GOOD v2\n":
                out.append(("repair-does-not-converge", "after repairing the source: exit status %d, final = %r" % (log[2][0], fin), rpl(d, log)))
            elif variant != "nodb" and (log[3][0] != 0 or log[3][1]):
                out.append(("null-build-runs", "fail-after-output scenario: the immediate rebuild after the repair ran %s" % log[3][1], rpl(d, log)))
    # -- failure MODES of the spawned process (seed C18-6): exit 1, exit 255, killed by SIGABRT / SIGSEGV / SIGTERM, before or
    #    after writing the output.  Same oracles for all: non-zero exit status, dependent not run, retried, converges after repair
    TOOL = ("#!/bin/sh\necho \"$2\" >> runlog\n"
            "die() { case $(cat crash.mode) in exit1) exit 1;; exit255) exit 255;; *) ulimit -c 0; kill -$(cat crash.mode) $$; sleep 5; exit 1;; esac; }\n"
            "if [ -e crash.mode ] && [ ! -e late.flag ]; then die; fi\ncat \"$1\" > \"$2\"\nif [ -e crash.mode ]; then die; fi\nexit 0\n")
    M = ("rule tool\n  command = exec ./tool $in $out\nrule cat\n  command = cat $in > $out && echo $out >> runlog\n"
         "build mid: tool src\nbuild fin: cat mid\ndefault fin\n")
    for fm in FMODES:
        for late in (0, 1):
            files = {"src": ("hello\n", 10), "tool": (TOOL, 10), "crash.mode": (fm + "\n", 10)}
            if late:
                files["late.flag"] = ("", 10)
            d = sandbox("failmode-%s-%d" % (fm, late), M, files)
            os.chmod(os.path.join(d, "tool"), 0o755)
            how = {"exit1": "exits with status 1", "exit255": "exits with status 255"}.get(fm, "is killed by SIG" + fm) + (" after writing its output" if late else "")
            log = [build(llb, d, ["-j1"]), build(llb, d, ["-j1"])]
            hist = ["build (the tool %s)" % how, "build (nothing edited)", "repair", "build", "build"]
            bad = None
            for i in (0, 1):
                rc, ran, txt = log[i]
                if "mid" not in ran:
                    bad = ("failed-not-retried" if i else "scripted-setup", "build %d did not run the tool (ran %s, exit status %d)" % (i + 1, ran, rc))
                elif "fin" in ran or os.path.exists(os.path.join(d, "fin")):
                    bad = ("failed-dependent-ran", "build %d: the dependent of a command that %s was executed (ran %s, exit status %d)" % (i + 1, how, ran, rc))
                elif rc == 0:
                    bad = ("failure-not-reported", "build %d: a command that %s, yet the build exited with status 0 (ran %s)" % (i + 1, how, ran))
                if bad:
                    break
            if not bad:
                rm(os.path.join(d, "crash.mode"))
                log += [build(llb, d, ["-j1"]), build(llb, d, ["-j1"])]
                fin = open(os.path.join(d, "fin")).read() if os.path.exists(os.path.join(d, "fin")) else None
                if log[2][0] != 0 or fin != "hello\n":
                    bad = ("repair-does-not-converge", "after the tool was repaired: exit status %d, fin = %r" % (log[2][0], fin))
                elif log[3][0] != 0 or log[3][1]:
                    bad = ("null-build-runs", "failure-mode scenario: the immediate rebuild after the repair ran %s" % log[3][1])
            if bad:
                out.append((bad[0], bad[1], rpl(d, log, history=hist, failure_mode=fm, after_output=bool(late))))
    # -- the generated-header shape: a header produced by another command, declared ORDER-ONLY (so that it exists before the
    #    first compile) and named by the compiler's depfile; regenerating it must re-run the compile (seed C18-2).
    #    Same with a plain source header that is declared order-only and named by the depfile.
    for shape in ("generated", "plain", "generated-depsgcc"):
        M = ("rule gen\n  command = echo gen >> runlog && cp -p hdr.in gen.h\nrule cc\n"
             "  command = echo cc >> runlog && cat src.c gen.h > out.o && printf 'out.o: src.c gen.h\\n' > out.d\n  depfile = out.d\n%s"
             "%sbuild out.o: cc src.c || gen.h\ndefault out.o\n") % ("  deps = gcc\n" if shape == "generated-depsgcc" else "",
                                                                       "" if shape == "plain" else "build gen.h: gen hdr.in\n")
        files = {"src.c": ("int main;\n", 10), ("gen.h" if shape == "plain" else "hdr.in"): ("#define V 1\n", 10)}
        d = sandbox("genheader-" + shape, M, files)
        log = [build(llb, d, ["-j1"]), build(llb, d, ["-j1"])]
        put(os.path.join(d, "gen.h" if shape == "plain" else "hdr.in"), "#define V 22222\n", 20)
        log.append(build(llb, d, ["-j1"]))
        log.append(build(llb, d, ["-j1"]))
        obj = open(os.path.join(d, "out.o")).read() if os.path.exists(os.path.join(d, "out.o")) else None
        hist = ["build", "build", "edit %s (fresh mtime)" % ("gen.h" if shape == "plain" else "hdr.in"), "build", "build"]
        if log[0][0] != 0 or log[1][0] != 0 or log[1][1]:
            out.append(("null-build-runs", "generated-header scenario (%s): first builds: %s" % (shape, [(l[0], l[1]) for l in log[:2]]), rpl(d, log, history=hist)))
        elif "cc" not in log[2][1] or obj != "int main;\n#define V 22222\n":
            out.append(("edit-header-did-not-rerun", "a header that the manifest declares as an ORDER-ONLY input and that the depfile names was %s: the compile command was not "
                        "re-run (ran %s), out.o = %r, a clean build gives 'int main;\\n#define V 22222\\n'" % (
                            "edited" if shape == "plain" else "regenerated from its edited source", log[2][1], obj), rpl(d, log, history=hist)))
        elif log[3][0] != 0 or log[3][1]:
            out.append(("null-build-runs", "generated-header scenario (%s): the immediate rebuild ran %s" % (shape, log[3][1]), rpl(d, log, history=hist)))
    # -- reclassifying an input with an unchanged (literal) command line, all six directions, then editing it (seed C18-3):
    #    declared explicit/implicit afterwards: the edit must re-run the command; declared order-only afterwards: it must not
    decl = {"exp": "a.txt b.txt", "imp": "a.txt | b.txt", "oo": "a.txt || b.txt"}
    for frm in ("exp", "imp", "oo"):
        for to in ("exp", "imp", "oo"):
            if frm == to:
                continue
            M = "rule join\n  command = cat a.txt b.txt > out.txt && echo out.txt >> runlog\nbuild out.txt: join %s\n"
            d = sandbox("reclass-%s-%s" % (frm, to), M % decl[frm], {"a.txt": ("a-1\n", 10), "b.txt": ("b-1\n", 12)})
            log = [build(llb, d, ["-j1"])]
            open(os.path.join(d, "build.ninja"), "w").write(M % decl[to])
            log.append(build(llb, d, ["-j1"]))
            put(os.path.join(d, "b.txt"), "b-2\n", T_NEW)
            log.append(build(llb, d, ["-j1"]))
            content = open(os.path.join(d, "out.txt")).read() if os.path.exists(os.path.join(d, "out.txt")) else None
            hist = ["build with `%s`" % decl[frm], "manifest: `%s` (command line unchanged)" % decl[to], "build", "edit b.txt (fresh mtime)", "build"]
            if log[0][0] != 0 or log[1][0] != 0 or log[2][0] != 0:
                out.append(("build-failed", "reclassify scenario %s -> %s: exit statuses %s" % (frm, to, [l[0] for l in log]), rpl(d, log, history=hist)))
            elif to in ("exp", "imp") and (log[2][1] != ["out.txt"] or content != "a-1\nb-2\n"):
                out.append(("reclassified-input-edit-did-not-rerun", "b.txt was moved from %s to %s input of `build out.txt` (command line unchanged) and then edited: the command "
                            "was not re-run (ran %s), out.txt = %r, a clean build gives 'a-1\\nb-2\\n'" % (
                                {"exp": "an explicit", "imp": "an implicit", "oo": "an order-only"}[frm], {"exp": "an explicit", "imp": "an implicit"}[to], log[2][1], content),
                            rpl(d, log, history=hist)))
            elif to == "oo" and log[2][1]:
                out.append(("order-only-edit-reran", "b.txt was moved from %s to order-only and then edited: the build ran %s" % (frm, log[2][1]), rpl(d, log, history=hist)))
    # -- commands without delivered inputs whose output is deleted (seed C18-4): no input at all / only an order-only input /
    #    one of two outputs; default and --strict; consumers must find the file again
    M = ("rule version\n  command = echo version-1 > $out && echo $out >> runlog\nrule header\n  command = echo generated-header > $out && echo $out >> runlog\n"
         "rule two\n  command = echo one > two.a && echo two > two.b && echo two >> runlog\nrule join\n  command = cat $in > $out && echo $out >> runlog\n"
         "build version.txt: version\nbuild gen.h: header || a.txt\nbuild two.a two.b: two\nbuild out.txt: join a.txt version.txt two.b | gen.h\n")
    for strict in (0, 1):
        for victim in ("version.txt", "gen.h", "two.b", "two.a"):
            args = ["-j1"] + (["--strict"] if strict else [])
            d = sandbox("noinput-%s-%d" % (victim, strict), M, {"a.txt": ("a-1\n", 10)})
            log = [build(llb, d, args), build(llb, d, args)]
            rm(os.path.join(d, victim))
            log.append(build(llb, d, args))
            hist = ["build", "build", "delete %s" % victim, "build%s" % (" --strict" if strict else "")]
            if log[0][0] != 0 or log[1][0] != 0 or log[1][1]:
                out.append(("null-build-runs", "input-less scenario: first builds %s" % [(l[0], l[1]) for l in log[:2]], rpl(d, log, history=hist)))
            elif not os.path.exists(os.path.join(d, victim)) or log[2][0] != 0:
                out.append(("delete-output-did-not-rerun", "the output %s of a command without explicit/implicit inputs was deleted: the next build did not re-create it "
                            "(exit status %d, ran %s)" % (victim, log[2][0], log[2][1]), rpl(d, log, history=hist)))
    # -- an existing build statement gains an output: `build a: r x` -> `build a b: r x`; with the command text unchanged or
    #    changed, with b demanded or not; then it loses the output again.  Oracle: b as a clean build leaves it; rebuild runs nothing
    for text_changes in (0, 1):
        for demanded in (0, 1):
            C1 = "cp x a; echo run >> runlog" if text_changes else "cp x a; cp x b; echo run >> runlog"
            C2 = "cp x a; cp x b; echo run >> runlog"
            M = "rule r\n  command = %s\nbuild %s: r x\ndefault %s\n"
            d = sandbox("gainout-%d-%d" % (text_changes, demanded), M % (C1, "a", "a"), {"x": ("x1\n", 10)})
            log = [build(llb, d, ["-j1"])]
            rm(os.path.join(d, "b"))                     # no stray copy (as in a fresh checkout)
            open(os.path.join(d, "build.ninja"), "w").write(M % (C2, "a b", "a b" if demanded else "a"))
            log += [build(llb, d, ["-j1"]), build(llb, d, ["-j1"])]
            b = open(os.path.join(d, "b")).read() if os.path.exists(os.path.join(d, "b")) else None
            hist = ["build `build a: r x`", "edit to `build a b: r x` (command text %s), default %s" % ("changed" if text_changes else "unchanged", "a b" if demanded else "a"), "build", "build"]
            if log[0][0] != 0 or log[1][0] != 0:
                out.append(("build-failed", "gains-an-output scenario: exit statuses %s" % [l[0] for l in log], rpl(d, log, history=hist)))
            elif b != "x1\n":
                out.append(("added-output-not-built" if not demanded else "stale-output",
                            "`build a: r x` was edited to `build a b: r x` (command text %s, default target %s): the build ran %s and b is %r; a clean build of the "
                            "same manifest produces b = 'x1\\n'" % ("changed" if text_changes else "unchanged", "a b" if demanded else "a", log[1][1], b), rpl(d, log, history=hist)))
            elif log[2][0] != 0 or log[2][1]:
                out.append(("null-build-runs", "gains-an-output scenario: the immediate rebuild ran %s" % log[2][1], rpl(d, log, history=hist)))
            else:
                open(os.path.join(d, "build.ninja"), "w").write(M % (C2, "a", "a"))
                put(os.path.join(d, "x"), "x2\n", T_NEW)
                l2 = [build(llb, d, ["-j1"]), build(llb, d, ["-j1"])]
                a = open(os.path.join(d, "a")).read() if os.path.exists(os.path.join(d, "a")) else None
                if l2[0][0] != 0 or a != "x2\n":
                    out.append(("stale-output", "the statement lost its second output and x was edited: a = %r (clean build: 'x2\\n')" % a, rpl(d, log + l2, history=hist)))
                elif l2[1][0] != 0 or l2[1][1]:
                    out.append(("null-build-runs", "loses-an-output scenario: the immediate rebuild ran %s" % l2[1][1], rpl(d, log + l2, history=hist)))
    # -- same root, stronger: after the statement gained an output, the select rule of `a` keeps the old command rule's stored
    #    result and dependency list, so even deleting `a` (needed by c) is not repaired
    C2 = "cp x a; cp x b; echo run >> runlog"
    M = "rule r\n  command = %s\nbuild %s: r x\nrule u\n  command = cat a > c; echo use >> runlog\nbuild c: u a\ndefault c\n"
    d = sandbox("gainout-deleted", M % (C2, "a"), {"x": ("x1\n", 10)})
    log = [build(llb, d, ["-j1"])]
    open(os.path.join(d, "build.ninja"), "w").write(M % (C2, "a b"))
    rm(os.path.join(d, "a")); rm(os.path.join(d, "b"))
    log.append(build(llb, d, ["-j1"]))
    if log[0][0] == 0 and not os.path.exists(os.path.join(d, "a")):
        out.append(("added-output-not-built-deleted-output", "`build a: r x` was edited to `build a b: r x` (command text unchanged) and a, b were deleted: the build of c "
                    "(which reads a) ran %s with exit status %d and left a missing" % (log[1][1], log[1][0]),
                    rpl(d, log, history=["build", "edit to `build a b: r x`, delete a and b", "build"])))
    # -- dependency cycles declared at the Ninja level (seed C07-8): a non-phony statement listing its own output as explicit /
    #    implicit / order-only input, 2- and 3-statement cycles, in default and --strict mode: the build fails and runs no command
    #    of the cycle (ninja 1.11.1: "dependency cycle").  The phony self-reference is tolerated in default mode (CMake writes
    #    it; ninja warns and ignores it) and rejected under --strict ("no bug compatibility").
    R = "rule G\n  command = echo $out >> runlog; cat in > $out\n"
    CYC = {
        "self-exp": (R + "build out: G in out\nbuild all: phony out\ndefault all\n", ["out"]),
        "self-imp": (R + "build out: G in | out\nbuild all: phony out\ndefault all\n", ["out"]),
        "self-oo": (R + "build out: G in || out\nbuild all: phony out\ndefault all\n", ["out"]),
        "self-2outs": (R + "build out out2: G in | out2\nbuild all: phony out\ndefault all\n", ["out"]),
        "two": (R + "build a: G in b\nbuild b: G in a\ndefault a\n", ["a", "b"]),
        "two-imp-oo": (R + "build a: G in | b\nbuild b: G in || a\ndefault a\n", ["a", "b"]),
        "three": (R + "build a: G in c\nbuild b: G in a\nbuild c: G in b\nbuild free: G in\ndefault a free\n", ["a", "b", "c"]),
        "phony-two": (R + "build out: G in\nbuild p: phony q\nbuild q: phony p out\ndefault p\n", []),
    }
    for name, (M, members) in CYC.items():
        for strict in (0, 1):
            d = sandbox("cycle-%s-%d" % (name, strict), M, {"in": ("i\n", 10)})
            log = [build(llb, d, ["-j1"] + (["--strict"] if strict else []))]
            rc, ran, txt = log[0]
            nj = vlib.sh(["ninja", "-C", d, "-n"], timeout=60)
            if rc == 0 or any(m in ran for m in members):
                out.append(("cycle-not-rejected", "declared dependency cycle (%s%s): exit status %d, ran %s; the build must fail and run no command of the cycle %s "
                            "(ninja 1.11.1: exit status %d%s)" % (name, ", --strict" if strict else "", rc, ran, members, nj[0], ", 'dependency cycle'" if "cycle" in nj[1] + nj[2] else ""),
                            rpl(d, log, history=["build%s" % (" --strict" if strict else "")])))
    M = R + "build out: G in\nbuild all: phony out all\ndefault all\n"
    for variant, MM in (("exp", M), ("oo", M.replace("phony out all", "phony out || all"))):
        for strict in (0, 1):
            d = sandbox("cycle-phony-self-%s-%d" % (variant, strict), MM, {"in": ("i\n", 10)})
            log = [build(llb, d, ["-j1"] + (["--strict"] if strict else []))]
            rc, ran, txt = log[0]
            if not strict and (rc != 0 or ran != ["out"]):
                out.append(("phony-self-reference-rejected", "default mode: a phony statement listing itself must be tolerated (CMake writes it, ninja ignores it with a warning): "
                            "exit status %d, ran %s" % (rc, ran), rpl(d, log)))
            if strict and rc == 0:
                out.append(("cycle-not-rejected", "--strict: a phony statement listing itself (`build all: phony out %sall`) was accepted with exit status 0; strict mode has no "
                            "bug compatibility and must report the cycle" % ("|| " if variant == "oo" else ""), rpl(d, log)))
    # -- tolerated shapes (seed C07-10): a phony statement with SEVERAL outputs that lists its first / second / last output among
    #    its own explicit / implicit / order-only inputs is not a cycle in default mode (the self-reference is left out for every
    #    output, c18_start_keys_phony_lenient): the build succeeds and builds the real input; --strict reports the cycle.
    #    (ninja 1.11.1 tolerates only the single-output form; its verdict is recorded, not judged.)
    PH = {
        "first": ("build all extras: phony out.txt all\n", "all"),
        "second": ("build all extras: phony out.txt extras\n", "all"),
        "last-of-3": ("build all extras more: phony out.txt more\n", "all"),
        "second-oo": ("build all extras: phony out.txt || extras\n", "all"),
        "second-imp-demanded": ("build all extras: phony out.txt | extras\n", "extras"),
        "two-of-3": ("build all extras more: phony out.txt extras | more\n", "more"),
    }
    for name, (stmt, target) in PH.items():
        M = "rule G\n  command = echo $out >> runlog; cat in > $out\nbuild out.txt: G in\n" + stmt + "default %s\n" % target
        for strict in (0, 1):
            d = sandbox("phony-multi-%s-%d" % (name, strict), M, {"in": ("i\n", 10)})
            log = [build(llb, d, ["-j1"] + (["--strict"] if strict else []))]
            if not strict:
                log.append(build(llb, d, ["-j1"]))
            rc, ran, txt = log[0]
            nj = vlib.sh(["ninja", "-C", d, "-n"], timeout=60)
            if not strict and (rc != 0 or ran != ["out.txt"] or not os.path.exists(os.path.join(d, "out.txt"))):
                out.append(("false-cycle-on-tolerated-phony", "default mode: `%s` lists one of its own outputs among its inputs, which is tolerated for phony statements "
                            "(the self-reference is not requested): the build must succeed and build out.txt, but exit status %d, ran %s (ninja 1.11.1 -n: exit status %d)" % (
                                stmt.strip(), rc, ran, nj[0]), rpl(d, log, history=["build"])))
            elif not strict and (log[1][0] != 0 or log[1][1]):
                out.append(("null-build-runs", "tolerated phony self-reference (%s): the immediate rebuild ran %s / exit status %d" % (name, log[1][1], log[1][0]), rpl(d, log)))
            elif strict and rc == 0:
                out.append(("cycle-not-rejected", "--strict: `%s` was accepted with exit status 0; strict mode must report the cycle" % stmt.strip(), rpl(d, log)))
    # -- a cycle through an order-only edge (seed C07-9 cross-check): must fail and run nothing of the cycle
    M = "rule CAT\n  command = echo $out >> runlog; cat $in > $out\nbuild mid: CAT src || gen\nbuild gen: CAT mid\ndefault gen\n"
    for strict in (0, 1):
        d = sandbox("cycle-orderonly-%d" % strict, M, {"src": ("s\n", 10)})
        log = [build(llb, d, ["-j1"] + (["--strict"] if strict else []))]
        rc, ran, txt = log[0]
        if rc == 0 or ran:
            out.append(("cycle-not-rejected", "cycle through an order-only edge (`build mid: CAT src || gen`, `build gen: CAT mid`): exit status %d, ran %s" % (rc, ran), rpl(d, log)))
    # -- restat: an upstream command that leaves its output untouched does not re-run its dependents; without restat it does
    for restat in (1, 0):
        M = ("rule MK\n  command = echo $out >> runlog; if [ ! -f $out ]; then cp $in $out; fi\n%srule CP\n  command = echo $out >> runlog; cp $in $out\n"
             "build mid: MK src\nbuild fin: CP mid\n") % ("  restat = 1\n" if restat else "")
        d = sandbox("restat%d" % restat, M, {"src": ("s\n", 10)})
        log = [build(llb, d, ["-j1"])]
        stamp(os.path.join(d, "src"), T_NEW)
        log.append(build(llb, d, ["-j1"]))
        ran = log[1][1]
        if "mid" not in ran:
            out.append(("edit-source-did-not-rerun", "restat scenario: the command reading the touched source did not run", rpl(d, log)))
        elif restat and "fin" in ran:
            out.append(("restat-downstream-reran", "restat = 1 and the output was left untouched, yet the dependent was executed", rpl(d, log)))
        # without restat llbuild forces the change downstream, but the dependent's task then takes the update-if-newer
        # shortcut (its input's stamp did not move): nothing runs either; Ninja would run it.  Not a clause of the property.
    # -- depfile-discovered header, with the database; the same history without the database converges too
    for db in (1, 0):
        M = ("rule CC\n  deps = gcc\n  depfile = $out.d\n  command = echo $out >> runlog; echo \"$out: $in hdr\" > $out.d && cat $in hdr > $out\n"
             "rule CAT\n  command = echo $out >> runlog; cat $in > $out\nbuild obj: CC src\nbuild fin: CAT obj\n")
        d = sandbox("depfile%d" % db, M, {"src": ("s\n", 10), "hdr": ("h\n", 10)})
        args = ["-j1"] + ([] if db else ["--no-db"])
        log = [build(llb, d, args), build(llb, d, args)]
        put(os.path.join(d, "hdr"), "h2\n", T_NEW)
        log.append(build(llb, d, args))
        fin = open(os.path.join(d, "fin")).read() if os.path.exists(os.path.join(d, "fin")) else None
        if db and log[1][1]:
            out.append(("null-build-runs", "depfile scenario: the immediate rebuild ran %s" % log[1][1], rpl(d, log)))
        if "obj" not in log[2][1] or fin != "s\nh2\n":
            out.append(("edit-header-did-not-rerun", "a header named only in the depfile was edited: ran %s, final content %r (clean build: 's\\nh2\\n')%s" % (
                log[2][1], fin, "" if db else " [--no-db]"), rpl(d, log)))
    # -- order-only: ordering is imposed on the first build, edits do not trigger
    M = ("rule CAT\n  command = echo $out >> runlog; cat $in > $out\nbuild gen: CAT gsrc\nbuild use: CAT usrc || gen\ndefault use\n")
    d = sandbox("orderonly", M, {"gsrc": ("g\n", 10), "usrc": ("u\n", 10)})
    log = [build(llb, d, ["-j4"])]
    put(os.path.join(d, "gsrc"), "g2\n", T_NEW)
    log.append(build(llb, d, ["-j4"]))
    if log[0][1] != ["gen", "use"]:
        out.append(("order-only-not-ordered", "first build ran %s; the order-only input must be built first" % log[0][1], rpl(d, log)))
    if log[1][1] != ["gen"]:
        out.append(("order-only-edit-reran", "after editing the source of the order-only input the build ran %s (expected only its producer)" % log[1][1], rpl(d, log)))
    return out, n[0]


def run_histories(chk, llb, base):
    rng = chk.rng
    nh = chk.n(40, 400)
    plans = []
    for i in range(nh):
        seed = rng.getrandbits(40)
        jobs = 1 if i % 2 == 0 else 4
        db = (i % 4 != 3)
        if db and i % 8 == 2:
            db = "path"          # --db <path> instead of the default build.db
        kg = [None, None, None, 0, None, 2][i % 6]
        plans.append((i, seed, jobs, db, kg, (i % 4 == 0 and db), (i % 5 == 0)))

    def work(p):
        i, seed, jobs, db, kg, with_ninja, want_clean = p
        try:
            return history(llb, os.path.join(base, "h%d" % i), seed, jobs, db, kg, with_ninja, want_clean)
        except Exception as e:
            import traceback
            return ([("history-harness-error", "harness exception in a generated history: %r" % (e,), dict(seed=seed, trace=traceback.format_exc()[-1500:]))],
                    dict(builds=0, nontrivial=set(), clean_builds=0, ninja_disagreements=0, ninja_compared=0), [], [])
    tot = dict(builds=0, clean_builds=0, ninja_disagreements=0, ninja_compared=0)
    okh = 0
    with concurrent.futures.ThreadPoolExecutor(max_workers=min(8, vlib.NCPU)) as ex:
        results = list(ex.map(work, plans))
    allnotes = []
    for p, (findings, st, notes, steps) in zip(plans, results):
        for k in tot:
            tot[k] += st[k]
        for key in st["nontrivial"]:
            chk.count(("history",) + tuple(str(x) for x in key))
        chk.count(None, n=max(0, st["builds"] - len(st["nontrivial"])))
        real = 0
        for (key, what, rpd) in findings:
            if chk.violation(key, what, rpd, found_input=(key not in ("history-harness-error", "nodb-rebuild-mismatch")),
                             broken="c18 oracle on llbuild ninja build (history)" if key != "nodb-rebuild-mismatch" else "correspondence: Ninja.NinjaRules (no prior value => Run)"):
                real += 1
        if not real:
            okh += 1
        allnotes += notes
        if p[0] == 1 and steps:
            chk.sample(dict(kind="history", seed=p[1], jobs=p[2], db=p[3], keep_going=p[4], steps=steps[:8]))
    chk.cov["histories"] = nh
    chk.cov["history_builds"] = tot["builds"]
    chk.cov["clean_builds_in_fresh_directories"] = tot["clean_builds"]
    chk.cov["ninja_steps_compared"] = tot["ninja_compared"]
    chk.cov["ninja_disagreements"] = tot["ninja_disagreements"]
    if allnotes:
        chk.notes["history_notes"] = allnotes[:8]
    return okh


def run(chk):
    shared = vlib.llbuild_bin()
    model = vlib.model_bin(AREA)
    chk.proof_gate()
    base = os.path.join(vlib.WORK, "tmp", "c18")
    shutil.rmtree(base, ignore_errors=True)
    os.makedirs(base)
    # a private copy of the binary: other checks rebuild and re-link the shared one while this check runs
    llb = os.path.join(base, "llbuild")
    with vlib.Lock("build-hooks"):
        shutil.copy2(shared, llb)
    ok_table = run_table(chk, llb, model, os.path.join(base, "table"))
    sf, ns = scripted(llb, os.path.join(base, "scripted"))
    for (key, what, rpd) in sf:
        chk.violation(key, what, rpd, found_input=True, broken="c18 oracle on llbuild ninja build (scripted history)")
    chk.count(None, n=ns)
    chk.cov["scripted_scenarios"] = ns
    ok_hist = run_histories(chk, llb, os.path.join(base, "hist"))
    for (key, what, rpd) in getattr(chk, "c18_deferred", []):
        chk.violation(key, what, rpd, found_input=False, broken="correspondence: Ninja.NinjaRules.rule_step / decide")
    chk.cov["traces_validated_against_impl"] = ok_table + ok_hist
    chk.notes["proved_vs_sampled"] = (
        "PROVED for all argument values (Props/Properties_C18.v over Ninja/NinjaRules.v): the command rule's decision (hash change, failed/missing/skipped "
        "inputs, older/missing outputs with the exact </<= boundary, order-only and class insensitivity, null build, no-database boundary), validity of stored "
        "values (retry of failed/skipped, missing outputs, hash), newestModTime = maximum, what the command hash covers. "
        "SAMPLED at the CLI: system-level convergence against a clean build, restat, depfile-discovered inputs, pools, multiple outputs through the select rules, "
        "-j1/-j4, --no-db, -k 0 / -k 2.")
    chk.notes["design_boundaries"] = [
        "--no-db: no stored command hash, so every non-generator command runs on every build (c18_no_prior_runs); the null-build clause is checked with the database only",
        "default (non --strict) mode does not re-run on EQUAL timestamps (c18_decide_equal_stamp_nonstrict_refuted); edits in the histories always take a fresh tick of a logical clock",
        "a generator command is not re-run for a changed definition (Ninja semantics): the histories force it once by deleting its outputs before comparing with the clean build",
    ]
    chk.assumptions = [
        "commands are deterministic functions of the files named on their command line; every edit and every command execution takes a fresh tick of a logical clock (explicit mtimes, no wall-clock dependence)",
        "FileInfo / isMissing / operator== as modelled in Codec/FileObs.v (tied by C13); checksum field all-zero in the Ninja driver",
        "the engine around the rule (task created iff stored value invalid or a requested input changed; must-follow inputs never trigger) is modelled by rule_step and tied by the decision table only",
        "the command hash is opaque in the model (c_hash); what it covers is hash_material (c18_hash_material_injective) and is tied by the rewiring scenarios",
        "installed ninja 1.11.1 is used as a second opinion on which commands run; disagreements are notes",
    ]
    return chk.finish(level="proof",
                      rule="decision table: micro-scenarios (prior value none/ok/other hash/rewired inputs/failed/skipped x generator x strict x restat x 1-2 outputs in states "
                           "untouched/fresh/equal/older/missing x explicit/implicit/order-only inputs that are old/equal/newer/missing sources or upstream commands that are "
                           "up to date/re-run/fail/are skipped/produce nothing x -k 1/-k 0), explicit mtimes, `executed?` and the 'cannot build' diagnostic compared with the "
                           "extracted rule_step; non-trivial = the task is created (anything but UpToDate), distinct by the scenario parameters. "
                           "histories: generated manifests (3-8 statements, explicit/implicit/order-only, 1-2 outputs, phony aliases, depfile, restat, generator, pools, default) x "
                           "random edits (edit/touch source, implicit, header, order-only, delete output, change command, add/remove statement, rewire, fail+repair) x -j1/-j4 x db/--no-db x -k; "
                           "non-trivial = distinct (edit kind, jobs, db, keep-going)",
                      trusted=["hand-written model coq/Ninja/NinjaRules.v, tied by the decision table (correspondence)",
                               "extraction (ExtrOcamlBasic) + ocaml/vmodel_ninjabuild.ml", "Python's os.stat / os.utime as the independent observer and clock",
                               "/bin/sh, cat, cmp, flock, touch in the generated commands"])


def replay(chk, rp):
    print(json.dumps({k: v for k, v in rp.items() if k not in ("coq_log_tail",)}, indent=1, default=str)[:6000])
    return run(chk)
