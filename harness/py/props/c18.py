# C18 - Ninja builds converge to the clean-build state and do no unnecessary work
#
# proved (coq/Props/Properties_C18.v): the decision logic of the command rule for ALL argument values.
# tied here:  (b) decision table: micro-scenarios put the real `llbuild ninja build` into each case of the
#                 decision function and compare executed?/diagnostics with the extracted model;
#             (c) convergence oracle: generated manifests x edit histories x -j1/-j4 x db/--no-db, output
#                 contents against a clean build, null rebuild, per-clause expectations, installed ninja as a
#                 second opinion.
# All timestamps are explicit (a logical clock); nothing depends on wall-clock ordering.
import os, json, shutil, itertools, random, concurrent.futures
import vlib

AREA = "ninjabuild"
BASE_S = 1600000000          # logical ticks are half seconds after this instant (2020): always older than "now"

# Behaviours of the current code that break a clause of the property and are listed in KNOWN_FINDINGS.txt
# (reported under exactly these key prefixes, so that they print as KNOWN-FINDING and anything else still counts):
#   generator-failed-not-retried       a generator command that wrote its output and failed is not retried (Ninja compatible)
#   order-only-failure-not-propagated  -k 0 / -k 2: the dependent of a failed ORDER-ONLY input still runs
#   phony-launders-failure             -k 0: a command behind a phony alias of a failed command still runs


def tick_ns(t):
    return (BASE_S + t // 2) * 10**9 + (t % 2) * 500000000


def stamp(path, t):
    ns = tick_ns(t)
    os.utime(path, ns=(ns, ns))


def put(path, content, t):
    with open(path, "w") as f:
        f.write(content)
    stamp(path, t)


def fi(path):
    """the FileInfo llbuild computes for the path, in the model's wire format"""
    try:
        st = os.stat(path)
    except OSError:
        return "M"
    return "%d:%d:%d:%d:%d:%d" % (st.st_dev, st.st_ino, st.st_mode, st.st_size, st.st_mtime_ns // 10**9, st.st_mtime_ns % 10**9)


def mtime(path):
    try:
        return os.stat(path).st_mtime_ns
    except OSError:
        return None


def rm(path):
    try:
        os.unlink(path)
    except OSError:
        pass


def runlog(d):
    try:
        return open(os.path.join(d, "runlog")).read().split()
    except OSError:
        return []


def build(llb, d, args=(), tool="llbuild"):
    """one build in a fresh process; returns (rc, names appended to runlog, stdout+stderr)"""
    before = runlog(d)
    if tool == "llbuild":
        cmd = [llb, "ninja", "build", "--no-regenerate", "-C", d] + list(args)
    else:
        cmd = ["ninja", "-C", d] + list(args)
    rc, out, err = vlib.sh(cmd, timeout=120)
    after = runlog(d)
    return rc, after[len(before):], out + err


# =================================================================== (b) decision table

E2_KINDS = ["src_old", "src_new", "src_eq", "missing", "up_ok_old", "up_ok_new", "up_fail", "up_skip", "up_noout"]
IMP_KINDS = ["none", "src_old", "src_new", "src_eq", "missing"]
OO_KINDS = ["none", "src_old", "src_new", "missing", "up_fail", "up_ok_new"]
PRIORS = ["none", "ok", "ok_otherhash", "ok_rewired", "failed", "skipped"]
OUT_STATES = ["untouched", "fresh", "equal", "older", "missing"]

T_OLD, T_USRC = 10, 8        # ticks of untouched sources / of the upstream commands' own sources
T_EQ = 20
T_NEW = 2 * (2200000000 - BASE_S)      # year 2039: newer than anything the wall clock stamps during the run


def table_manifest(case, variant):
    nouts = case["nouts"]
    tcmd = "echo T >> runlog; test ! -e Tfail && cat e1 e2 > out1" + (" && cat e1 > out2" if nouts == 2 else "")
    if variant == 2:
        tcmd += " && true v2"
    lines = ["rule T", "  command = " + tcmd]
    if case["generator"]:
        lines.append("  generator = 1")
    if case["restat"]:
        lines.append("  restat = 1")
    lines += ["rule U", "  command = echo U >> runlog; test ! -e Ufail && if test -e Unoout; then true; else cat usrc > e2; fi",
              "rule O", "  command = echo O >> runlog; test ! -e Ofail && cat osrc > oo"]
    if case["e2"].startswith("up_"):
        lines.append("build e2: U usrc")
    if case["oo"].startswith("up_"):
        lines.append("build oo: O osrc")
    if variant == 3:
        # the input list as it was before a rewiring: explicit inputs in the other order, no implicit / order-only input
        # (the command line does not mention $in, so only the declared inputs differ)
        b = "build out1%s: T e2 e1" % (" out2" if nouts == 2 else "")
    else:
        b = "build out1%s: T e1 e2" % (" out2" if nouts == 2 else "")
        if case["imp"] != "none":
            b += " | imp"
        if case["oo"] != "none":
            b += " || oo"
    lines += [b, "default out1", ""]
    return "\n".join(lines)


def table_case(llb, d, case):
    """Drive the real tool into one case of the decision table; returns the observation and the model request."""
    os.makedirs(d)
    J = lambda n: os.path.join(d, n)
    outs = ["out1", "out2"][:case["nouts"]]
    prior = case["prior"]
    put(J("e1"), "e1\n", T_OLD)
    put(J("usrc"), "usrc\n", T_USRC)
    put(J("osrc"), "osrc\n", T_USRC)
    if not case["e2"].startswith("up_"):
        put(J("e2"), "e2\n", T_OLD)
    if case["imp"] != "none":
        put(J("imp"), "imp\n", T_OLD)
    if case["oo"] != "none" and not case["oo"].startswith("up_"):
        put(J("oo"), "oo\n", T_OLD)
    log = []
    # ---- phase 0: upstream commands get a stored value and a logical stamp on their outputs
    ups = [n for n, k in (("e2", case["e2"]), ("oo", case["oo"])) if k.startswith("up_")]
    if ups:
        open(J("build.ninja"), "w").write(table_manifest(case, 1))
        rc, ran, txt = build(llb, d, ["-j1"] + ups)
        for n in ups:
            stamp(J(n), T_OLD)
        rc2, ran2, txt2 = build(llb, d, ["-j1"] + ups)      # update-only: records the logical stamp
        log.append(("phase0", rc, ran, rc2, ran2))
        if rc != 0 or rc2 != 0 or ran2:
            return dict(error="phase 0 (upstream commands) did not behave as arranged", log=log, text=(txt + txt2)[-600:])
        open(J("runlog"), "w").close()
    # ---- phase 1: establish the stored value
    prior_val = "N"
    if prior != "none":
        open(J("build.ninja"), "w").write(table_manifest(case, 3 if prior == "ok_rewired" else 1))
        if prior == "failed":
            open(J("Tfail"), "w").close()
        if prior == "skipped":
            rm(J("e1"))
        rc, ran, txt = build(llb, d, ["-j1"])
        log.append(("phase1", rc, ran))
        if prior == "failed":
            rm(J("Tfail"))
            prior_val = "F"
            if rc == 0 or "T" not in ran:
                return dict(error="phase 1 did not fail as arranged", log=log, text=txt[-600:])
        elif prior == "skipped":
            put(J("e1"), "e1\n", T_OLD)
            prior_val = "K"
            if rc == 0 or "T" in ran:
                return dict(error="phase 1 did not skip as arranged", log=log, text=txt[-600:])
        else:
            if rc != 0:
                return dict(error="phase 1 build failed", log=log, text=txt[-600:])
            prior_val = "S=1=" + ";".join(fi(J(o)) for o in outs)
    # ---- phase 2: mutate
    variant = 2 if prior in ("ok_otherhash", "ok_rewired") else 1
    open(J("build.ninja"), "w").write(table_manifest(case, 2 if prior == "ok_otherhash" else 1))
    changed = dict(e1=0, e2=0, imp=0, oo=0)
    k = case["e2"]
    if k == "src_new":
        stamp(J("e2"), T_NEW); changed["e2"] = 1
    elif k == "src_eq":
        stamp(J("e2"), T_EQ); changed["e2"] = 1
    elif k == "missing":
        rm(J("e2")); changed["e2"] = 1
    elif k == "up_ok_new":
        rm(J("e2")); changed["e2"] = 1
    elif k == "up_fail":
        rm(J("e2")); open(J("Ufail"), "w").close(); changed["e2"] = 1
    elif k == "up_skip":
        rm(J("e2")); rm(J("usrc")); changed["e2"] = 1
    elif k == "up_noout":
        rm(J("e2")); open(J("Unoout"), "w").close(); changed["e2"] = 1
    k = case["imp"]
    if k == "src_new":
        stamp(J("imp"), T_NEW); changed["imp"] = 1
    elif k == "src_eq":
        stamp(J("imp"), T_EQ); changed["imp"] = 1
    elif k == "missing":
        rm(J("imp")); changed["imp"] = 1
    k = case["oo"]
    if k == "src_new":
        stamp(J("oo"), T_NEW + 4); changed["oo"] = 1
    elif k == "missing":
        rm(J("oo")); changed["oo"] = 1
    elif k == "up_ok_new":
        rm(J("oo")); changed["oo"] = 1
    elif k == "up_fail":
        rm(J("oo")); open(J("Ofail"), "w").close(); changed["oo"] = 1
    if prior == "ok_rewired":
        # the engine re-scans the dependency list RECORDED by the previous build: inputs added by the rewiring are unknown to it
        changed["imp"] = 0
        changed["oo"] = 0
    # outputs relative to the newest logical stamp among the delivered inputs
    req = ["e1", "e2"] + (["imp"] if case["imp"] != "none" else [])
    lm = [mtime(J(n)) for n in req]
    newest = max([m for m in lm if m is not None] + [tick_ns(1)])
    for o, st in zip(outs, case["outs"]):
        if st == "untouched":
            continue
        if st == "missing":
            rm(J(o)); continue
        if not os.path.exists(J(o)):
            open(J(o), "w").write("stale\n")
        ns = newest + {"fresh": 10**9, "equal": 0, "older": -500000000}[st]
        os.utime(J(o), ns=(ns, ns))
    pre = {n: fi(J(n)) for n in ["e1", "e2", "imp", "oo"] + outs}
    # ---- phase 3: the build under observation
    args = ["-j1"] + (["--strict"] if case["strict"] else []) + (["-k", "0"] if case["k0"] else [])
    rc, ran, txt = build(llb, d, args)
    log.append(("phase3", rc, ran))
    post = {n: fi(J(n)) for n in ["e2", "oo"]}

    def upstream_value(name, kind, letter, failflag):
        if letter in ran:
            if os.path.exists(J(failflag)):
                return "F"
            return "S=9=" + post[name]
        if kind == "up_skip":
            return "K"
        return "S=9=" + pre[name]

    def value(name, kind, letter, failflag):
        if kind.startswith("up_"):
            return upstream_value(name, kind, letter, failflag)
        return "M" if pre[name] == "M" else "E=" + pre[name]

    ins = ["e%d=E=%s" % (changed["e1"], pre["e1"]) if pre["e1"] != "M" else "e1=M",
           "e%d=%s" % (changed["e2"], value("e2", case["e2"], "U", "Ufail"))]
    if case["imp"] != "none":
        ins.append("i%d=%s" % (changed["imp"], value("imp", case["imp"], "", "")))
    if case["oo"] != "none":
        ins.append("o%d=%s" % (changed["oo"], value("oo", case["oo"], "O", "Ofail")))
    # was the build already cancelled when T's inputs became available?  (default -k 1: the first command
    # failure cancels; a missing SOURCE input of T itself does not)
    upstream_failed = (("U" in ran and os.path.exists(J("Ufail"))) or ("O" in ran and os.path.exists(J("Ofail")))
                       or (case["e2"] == "up_skip"))
    cancelled = 1 if (upstream_failed and not case["k0"]) else 0
    ctx = "%d0%d" % (1 if case["strict"] else 0, cancelled)
    cmd = "%d:%d0%d%d" % (variant, 1 if case["generator"] else 0, 0, 1 if case["restat"] else 0)
    req_line = "step %s %s %s %s %s" % (ctx, cmd, prior_val, ",".join(ins), ";".join(pre[o] for o in outs))
    return dict(request=req_line, ran=ran, rc=rc, executed=("T" in ran),
                cannot_build=("cannot build 'out1' due to missing input" in txt), text=txt[-800:], log=log,
                pre=pre, ins=ins, cancelled=cancelled)


def table_oracle(case, ob):
    """The property's own expectation, from the property text and the actual stamps (independent of the Coq model):
    'run' / 'norun' / None (unspecified)."""
    vals = [i.split("=", 1) for i in ob["ins"]]
    requested = [v for (c, v) in vals if c[0] != "o"]
    if any(v in ("M", "F", "K") for v in requested):
        return "norun", "a failed/missing/skipped input: the command must not be executed"
    if ob["cancelled"]:
        return "norun", "the build was cancelled by an upstream failure"
    outs = [ob["pre"][o] for o in ["out1", "out2"][:case["nouts"]]]
    if any(o == "M" for o in outs):
        return "run", "an output is missing"

    def ts(f):
        p = f.split(":")
        return (int(p[4]), int(p[5]))
    in_ts = []
    for v in requested:
        f = v.split("=")[-1]
        if f == "M":
            return "run", "an input produced by a successful command does not exist"
        in_ts.append(ts(f))
    if case["prior"] == "ok_otherhash" and not case["generator"]:
        return "run", "the command line changed"
    if case["prior"] == "ok_rewired" and not case["generator"]:
        return "run", "the declared inputs of the command changed"
    if case["prior"] in ("failed", "skipped"):
        return "run", "the command failed / was skipped in the previous build: retried"
    if any(ts(o) < t for o in outs for t in in_ts):
        return "run", "an output is older than a non order-only input"
    if case["strict"] and any(ts(o) <= t for o in outs for t in in_ts):
        return "run", "--strict: an output is not newer than a non order-only input"
    if case["prior"] == "ok" and all(ts(o) > t for o in outs for t in in_ts):
        return "norun", "unchanged command, every output newer than every non order-only input"
    return None, ""


def table_cases(chk):
    rng = chk.rng
    core = []
    # systematic core: every prior x generator x strict x output state x newest-input relation (single output, no extras)
    for prior in PRIORS:
        for gen in (0, 1):
            for strict in (0, 1):
                for ost in OUT_STATES:
                    for e2 in ("src_old", "src_new", "src_eq"):
                        core.append(dict(prior=prior, generator=gen, strict=strict, restat=0, nouts=1, outs=[ost], e2=e2, imp="none", oo="none", k0=0))
    # every input kind in every class position, against fresh and untouched outputs
    for e2 in E2_KINDS:
        for k0 in (0, 1):
            for ost in ("untouched", "fresh"):
                for prior in ("ok", "none"):
                    core.append(dict(prior=prior, generator=0, strict=0, restat=0, nouts=1, outs=[ost], e2=e2, imp="none", oo="none", k0=k0))
    for imp in IMP_KINDS[1:]:
        for ost in ("untouched", "fresh", "equal"):
            for strict in (0, 1):
                core.append(dict(prior="ok", generator=0, strict=strict, restat=0, nouts=1, outs=[ost], e2="src_old", imp=imp, oo="none", k0=0))
    for oo in OO_KINDS[1:]:
        for k0 in (0, 1):
            for ost in ("untouched", "fresh", "older"):
                core.append(dict(prior="ok", generator=0, strict=0, restat=0, nouts=1, outs=[ost], e2="src_old", imp="none", oo=oo, k0=k0))
    # two outputs
    for o1 in OUT_STATES:
        for o2 in OUT_STATES:
            core.append(dict(prior="ok", generator=0, strict=0, restat=0, nouts=2, outs=[o1, o2], e2="src_old", imp="none", oo="none", k0=0))
    # deviations of the current code that the table must reach
    core.append(dict(prior="failed", generator=1, strict=0, restat=0, nouts=1, outs=["fresh"], e2="src_old", imp="none", oo="none", k0=0))
    core.append(dict(prior="ok", generator=0, strict=0, restat=0, nouts=1, outs=["fresh"], e2="missing", imp="none", oo="none", k0=0))
    for gen in (0, 1):
        core.append(dict(prior="ok_rewired", generator=gen, strict=0, restat=0, nouts=1, outs=["untouched"], e2="src_old", imp="src_new", oo="none", k0=0))
        core.append(dict(prior="ok_rewired", generator=gen, strict=0, restat=0, nouts=1, outs=["untouched"], e2="src_old", imp="src_old", oo="src_new", k0=0))
    extra = []
    for _ in range(chk.n(150, 3000)):
        nouts = rng.choice([1, 1, 2])
        extra.append(dict(prior=rng.choice(PRIORS), generator=rng.choice([0, 0, 1]), strict=rng.choice([0, 0, 1]), restat=rng.choice([0, 0, 1]),
                          nouts=nouts, outs=[rng.choice(OUT_STATES) for _ in range(nouts)], e2=rng.choice(E2_KINDS),
                          imp=rng.choice(IMP_KINDS), oo=rng.choice(OO_KINDS), k0=rng.choice([0, 0, 1])))
    if chk.quick():
        # the quick tier keeps the named cases and a stratified half of the systematic core
        keep = [c for i, c in enumerate(core) if i % 2 == 0 or c["prior"] in ("failed", "ok_rewired") or c["e2"] == "missing"]
        core = keep
    seen, cases = set(), []
    for c in core + extra:
        key = case_key(c)
        if key not in seen:
            seen.add(key)
            cases.append(c)
    return cases


def case_key(c):
    return (c["prior"], c["generator"], c["strict"], c["restat"], c["nouts"], tuple(c["outs"]), c["e2"], c["imp"], c["oo"], c["k0"])


def deviation(chk, key, what, replay):
    chk.violation(key, what, replay, found_input=True, broken="c18 oracle on llbuild ninja build")


def run_table(chk, llb, model, base):
    cases = table_cases(chk)
    results = [None] * len(cases)

    def work(i):
        try:
            return table_case(llb, os.path.join(base, "t%d" % i), cases[i])
        except Exception as e:      # a harness problem must not look like a pass
            return dict(error="harness exception: %r" % (e,))
    with concurrent.futures.ThreadPoolExecutor(max_workers=min(8, vlib.NCPU)) as ex:
        for i, r in enumerate(ex.map(work, range(len(cases)))):
            results[i] = r
    good = [(c, r) for (c, r) in zip(cases, results) if "error" not in r]
    bad = [(c, r) for (c, r) in zip(cases, results) if "error" in r]
    if bad:
        chk.notes["table_setup_failures"] = [dict(case=c, error=r["error"], log=r.get("log"), text=r.get("text")) for (c, r) in bad[:5]]
        chk.violation("table-setup", "%d decision-table scenarios could not be arranged (phase 1 did not behave as the scenario needs)" % len(bad),
                      dict(examples=chk.notes["table_setup_failures"]), found_input=False, broken="c18 decision table harness")
    rc, mo, me = vlib.run_lines(model, [r["request"] for (c, r) in good], timeout=600)
    assert rc == 0 and len(mo) == len(good), (rc, me[-500:], len(mo), len(good))
    ndis = 0
    hist = {}
    for (c, r), m in zip(good, mo):
        model_runs = (m == "Task Run")
        hist[m] = hist.get(m, 0) + 1
        exp, why = table_oracle(c, r)
        nontrivial = case_key(c) if (m != "UpToDate" or r["executed"]) else None
        chk.count(nontrivial)
        rp = dict(case=c, model_request=r["request"], model=m, executed=r["executed"], rc=r["rc"], ran=r["ran"], oracle=exp, oracle_reason=why,
                  output_tail=r["text"], phases=r["log"],
                  how="sandbox as built by harness/py/props/c18.py:table_case; phase 3 = llbuild ninja build -j1%s%s" % (" --strict" if c["strict"] else "", " -k 0" if c["k0"] else ""))
        oracle_bad = (exp == "run" and not r["executed"]) or (exp == "norun" and r["executed"])
        if oracle_bad:
            if exp == "run" and c["generator"] and c["prior"] == "ok_rewired":
                deviation(chk, "rewire-generator-input-stale",
                          "a generator command whose declared inputs were rewired is not re-evaluated: the engine keeps scanning the old recorded "
                          "dependency list (the hash is not compared for generator commands), so a newer added input does not re-run it", rp)
            elif exp == "run" and c["generator"] and c["prior"] in ("failed", "skipped"):
                deviation(chk, "generator-failed-not-retried",
                          "a generator command that failed (or was skipped) in the previous build is not retried when its output is newer than its inputs", rp)
            elif exp == "norun" and r["executed"] and any(i.startswith("o") and i.split("=", 1)[1] in ("F", "K") for i in r["ins"]) and c["k0"]:
                pass    # judged below (order-only failure): the oracle above only looks at requested inputs
            else:
                chk.violation("table-%s-%s" % (exp, "executed" if r["executed"] else "not-executed"),
                              "decision table: %s, but the command was %s" % (why, "executed" if r["executed"] else "not executed"), rp,
                              found_input=True, broken="c18 oracle on llbuild ninja build (decision table)")
        # a failed order-only input must stop the dependent (property text); the code only does so through the global cancel
        oo_failed = any(i[0] == "o" and i.split("=", 1)[1] in ("F", "K") for i in r["ins"])
        if oo_failed and r["executed"]:
            deviation(chk, "order-only-failure-not-propagated",
                      "a command whose order-only input FAILED in this build is executed (-k 0)", rp)
        if model_runs != r["executed"] or (m == "Task Skip1") != r["cannot_build"]:
            ndis += 1
            if not oracle_bad:
                chk.violation("table-correspondence",
                              "decision table: model (Ninja/NinjaRules.v rule_step) says %s, the tool %s the command%s; the property oracle found no failure" % (
                                  m, "executed" if r["executed"] else "did not execute", " and reported 'cannot build'" if r["cannot_build"] else ""),
                              rp, found_input=False, broken="correspondence: Ninja.NinjaRules.rule_step / decide")
    chk.cov["table_cases"] = len(cases)
    chk.cov["table_model_outcomes"] = hist
    chk.cov["table_disagreements"] = ndis
    if good:
        c, r = good[len(good) // 3]
        chk.sample(dict(kind="decision-table", case=c, model_request=r["request"], executed=r["executed"], rc=r["rc"]))
    return len(good) - ndis


def run(chk):
    llb = vlib.llbuild_bin()
    model = vlib.model_bin(AREA)
    chk.proof_gate()
    base = os.path.join(vlib.WORK, "tmp", "c18")
    shutil.rmtree(base, ignore_errors=True)
    os.makedirs(base)
    ok_table = run_table(chk, llb, model, os.path.join(base, "table"))
    chk.cov["traces_validated_against_impl"] = ok_table
    return chk.finish(level="proof", rule="TODO", trusted=[])


def replay(chk, rp):
    print(json.dumps(rp, indent=1))
    return run(chk)
