# C15 - keys and values encode canonically and decode losslessly
import os, json
import vlib
from vlib import hx

BOUND = [0, 1, 255, 256, 65535, 65536, 2**32 - 1, 2**32, 2**63, 2**64 - 1]
HAS_SIG = {5, 6, 17}
HAS_INFO = {2, 4, 10, 17}
HAS_STRS = {4, 7, 16}

def probe(drv):
    rc, out, err = vlib.run_lines(drv, ["probe_codec"])
    parts = out[0].split(" | ")
    vt = [x.split(":") for x in parts[0].split()[1:]]
    cok = parts[1].split()[1:]
    koc = parts[2].split()[1:]
    return [int(a) for a, b in vt], [int(b) for a, b in vt], [int(x) for x in cok], [int(x) for x in koc]

def write_gen(vt, cok, koc):
    def l(xs): return "[" + "; ".join(str(x) for x in xs) + "]"
    body = ("(* REGENERATED on every run by harness/py/props/c15.py from probes of the rebuilt /repo. *)\n"
            "From Coq Require Import List NArith.\nImport ListNotations.\nLocal Open Scope N_scope.\n"
            "(* first byte of toData() of an instance of each BuildValue kind, in enum order *)\n"
            "Definition probed_value_tags : list N := %s.\n"
            "(* BuildKey::identifierForKind for kinds 0..8 *)\n"
            "Definition probed_key_char_of_kind : list N := %s.\n"
            "(* BuildKey::kindForIdentifier for chars 0..255 (9 = Unknown) *)\n"
            "Definition probed_key_kind_of_char : list N := %s.\n") % (l(vt), l(cok), l(koc))
    return vlib.write_if_changed(os.path.join(vlib.COQ, "gen", "Gen_Codec.v"), body)

def rnd_u64(rng):
    r = rng.random()
    if r < 0.45:
        return rng.choice(BOUND)
    if r < 0.6:
        return rng.choice(BOUND) ^ (1 << rng.randrange(64))
    return rng.getrandbits(rng.choice([8, 16, 32, 48, 64]))

def rnd_fi(rng):
    ck = bytes(rng.getrandbits(8) for _ in range(32)) if rng.random() < 0.5 else (b"\0" * 32 if rng.random() < 0.5 else bytes([rng.getrandbits(8)]) + b"\0" * 31)
    f = [rnd_u64(rng) for _ in range(6)]
    if rng.random() < 0.06:
        f = [0] * 6          # the stat fields of the "missing" record - with ANY checksum: still an arbitrary file info that must survive the round trip
    return ":".join(str(x) for x in f) + ":" + ck.hex()

def rnd_str(rng, allow_nul=False):
    n = rng.choice([0, 0, 1, 1, 2, 3, 5, 17, 300])
    alpha = [1, 0x2f, 0x61, 0x62, 0x20, 0x80, 0xff, 0x0a, 0x2c, 0x3a] + ([0] if allow_nul else [])
    return bytes(rng.choice(alpha) if rng.random() < 0.8 else rng.randrange(0 if allow_nul else 1, 256) for _ in range(n))

def rnd_strs(rng):
    r = rng.random()
    if r < 0.12: return []
    if r < 0.22: return [b""]
    if r < 0.3: return [b"", b""]
    return [rnd_str(rng) for _ in range(rng.randint(1, 6))]

def fl(l):
    return "." if not l else ",".join(hx(x) for x in l)

def gen_value(rng, kind=None):
    k = rng.randrange(18) if kind is None else kind
    sig = rnd_u64(rng) if k in HAS_SIG else 0
    n = 0
    if k in (2, 4): n = 1
    elif k in (10, 17): n = rng.choice([1, 1, 2, 2, 3, 5, 9] + ([255, 256, 257] if rng.random() < 0.02 else []))
    infos = [rnd_fi(rng) for _ in range(n)]
    strs = rnd_strs(rng) if k in HAS_STRS else []
    return (k, sig, infos, strs)

def canon_value(v):
    k, sig, infos, strs = v
    def cfi(s):
        p = s.split(":")
        return ":".join(p[:6]) + ":" + p[6]
    return "%d %d %s %s" % (k, sig, ";".join(cfi(i) for i in infos) if infos else ".", fl(strs))

def gen_key(rng, kind=None):
    k = rng.randrange(9) if kind is None else kind
    name = rnd_str(rng, allow_nul=True)      # KeyType is a byte string: NUL is legal in every kind
    data = rnd_str(rng, allow_nul=True) if k == 1 else b""
    filters = rnd_strs(rng) if k in (3, 4, 5) else []
    return (k, name, data, filters)

def canon_key(key):
    k, name, data, filters = key
    return "%d %s %s %s" % (k, hx(name), hx(data), fl(filters))

def nulfree(rng, n):
    return rng.getrandbits(8 * n).to_bytes(n, "little").replace(b"\0", b"\x01") if n else b""

def sized_strlists(rng, quick):
    """lists of NUL-free strings whose encoded size (sum of length + 1) is each of KEY_LENGTHS: as one string, as two, as many short ones"""
    out = []
    for total in KEY_LENGTHS[1:]:
        out.append([nulfree(rng, total - 1)])
        if total >= 2:
            a = rng.randrange(0, total - 1)
            out.append([nulfree(rng, a), nulfree(rng, total - 2 - a)])
        if total <= 600 or not quick:
            out.append([b""] * total)
    return out

def norm_show(s):
    """accessor view "<kind> <sig> <infos> <strs>" with every checksum printed as 32 bytes"""
    p = s.split(" ")
    if len(p) < 4:
        return s
    if p[2] != ".":
        p[2] = ";".join(":".join(x.split(":")[:6]) + ":" + (x.split(":")[6] if x.split(":")[6] != "-" else "").ljust(64, "0") for x in p[2].split(";"))
    return " ".join(p)

def value_tokens(v):
    k, sig, infos, strs = v
    # kinds that take one info ignore the rest; kinds without infos ignore the field; "." = no outputs at all (kinds 10, 17)
    return "%d %d %s %s" % (k, sig, ";".join(infos) if infos else ("." if k in (10, 17) else "0:1:0:0:0:0:-"), fl(strs))

def value_shapes(rng):
    """one value per (kind, shape): string lists [] / [""] / non-empty, 0..3 outputs, every other kind once"""
    out = []
    for k in range(18):
        if k in HAS_STRS:
            for strs in ([], [b""], [rnd_str(rng) or b"x" for _ in range(rng.randint(1, 4))]):
                out.append((k, 0, [rnd_fi(rng)] if k == 4 else [], strs))
        elif k in (10, 17):
            for n in (0, 1, 2, 3):
                out.append((k, rnd_u64(rng) if k == 17 else 0, [rnd_fi(rng) for _ in range(n)], []))
        else:
            out.append(gen_value(rng, k))
    return out

# ---- re-used BuildValue objects: an object that held other values receives a new one (move-assignment, assignment of a
# copy, of a decoded value, after having been moved from, self-assignment, swap); it must then be indistinguishable
# from a freshly made value: same bytes (canonical), same accessors, same decode.
def phase_value_reuse(chk, drv, model):
    rng = chk.rng
    hists = []
    shapes0 = value_shapes(rng)
    for old in shapes0:
        for new in value_shapes(rng):
            hists.append([old, new])
    for _ in range(chk.n(400, 30000)):
        hists.append([rng.choice(shapes0) if rng.random() < 0.5 else gen_value(rng) for _ in range(rng.randint(2, 5))])
    # the shapes the seeded-change reports name explicitly
    fi1, fi2 = rnd_fi(rng), rnd_fi(rng)
    hists += [[(7, 0, [], [b"a.out", b"b.out"]), (7, 0, [], [])], [(4, 0, [fi1], [b"a.out", b"b.out"]), (4, 0, [fi2], [])],
              [(16, 0, [], [b"a.out"]), (7, 0, [], [])], [(16, 0, [], [b"a"]), (15, 0, [], []), (2, 0, [fi1], []), (4, 0, [fi2], [])]]
    reqs = ["value_assign " + " ".join(value_tokens(v) for v in h) for h in hists]
    mreqs = [x for h in hists for x in ("value_enc " + value_tokens(h[-1]), "value_enc " + value_tokens(h[-2]))]
    o1, crashes = run_surviving(drv, reqs, 1200, "N fresh ")
    rc2, o2, e2 = vlib.run_lines(model, mreqs, timeout=1200)
    assert rc2 == 0 and len(o2) == len(mreqs), e2[-500:]
    ndis = 0
    for i, (h, rq, ans) in enumerate(zip(hists, reqs, o1)):
        if ans is not None:
            ndis += check_reuse_answer(chk, h, rq, ans, {"N": o2[2 * i], "O": o2[2 * i + 1]})
    # where the full set of steps crashed (or was not run any more), the basic steps alone may still answer
    redo = [i for i, a in enumerate(o1) if a is None]
    o3, _ = run_surviving(drv, [reqs[i].replace("value_assign ", "value_assign_basic ", 1) for i in redo], 1200, "N fresh ")
    for i, ans in zip(redo, o3):
        if ans is not None:
            ndis += check_reuse_answer(chk, hists[i], reqs[i], ans, {"N": o2[2 * i], "O": o2[2 * i + 1]})
    for i, rc, err in crashes:
        chk.violation("value-reuse-crash", "the implementation crashed while assigning one BuildValue over another and encoding the results: history (newest first) %s"
                      % " <- ".join(canon_value(v) for v in reversed(hists[i]))[:300],
                      dict(rc=rc, stderr=err, input=reqs[i], crashing_inputs=len(crashes)), broken="c15 oracle (re-used value objects) on implementation")
    chk.sample(dict(kind="value re-use", input=reqs[5], answer=(o1[5] or "<crash>")[:300] + "..."))
    chk.cov["value_reuse_histories"] = len(hists)
    return ndis

def run_surviving(drv, reqs, timeout, prefix):
    """answers of the driver, None where it died on a request (it is restarted on the following one; at most 25 times)"""
    out, crashes = [], []
    while len(out) < len(reqs):
        rc, o, e = vlib.run_lines(drv, reqs[len(out):], timeout=timeout)
        bad = [j for j, x in enumerate(o) if not x.startswith(prefix)]      # a line cut short by the crash
        out += (o[:bad[0]] if bad else o)[:len(reqs) - len(out)]
        if len(out) < len(reqs):
            crashes.append((len(out), rc, e[-1500:]))
            out.append(None)
            if len(crashes) >= 25:
                out += [None] * (len(reqs) - len(out))
    return out, crashes

def check_reuse_answer(chk, h, rq, ans, model_bytes):
    """ans: items "<want N|O> <label> <bytes> | <accessors> | <accessors after decode or =>" joined by " ## ".
    Returns the number of model/implementation disagreements."""
    want = {"N": h[-1], "O": h[-2]}
    canon = {w: norm_show(canon_value(v)) for w, v in want.items()}
    fresh, ndis = {}, 0
    for item in ans.split(" ## "):
        parts = item.split(" | ")
        w, label, got = parts[0].split(" ")
        show = norm_show(parts[1])
        show_rd = show if parts[2] == "=" else norm_show(parts[2])
        chk.count(("reuse", label, want[w][0], h[-2][0] if w == "N" else h[-1][0], bool(h[-2][3]), bool(h[-1][3])))
        hist = " <- ".join(canon_value(v) for v in reversed(h))
        if label == "fresh":
            fresh[w] = got
            if got != model_bytes[w]:
                ndis += 1
                chk.notes.setdefault("value_enc_disagreements", []).append(dict(input=rq, which=w, implementation=got, model=model_bytes[w]))
        elif got != fresh[w]:
            # the property's own oracle: equal values encode to identical bytes
            chk.violation("value-reuse-not-canonical",
                          "a BuildValue object that is re-used (%s) does not encode like a freshly made equal value: history (newest first) %s" % (label, hist[:300]),
                          dict(input=rq, step=label, expected_value=canon_value(want[w]), bytes_of_fresh_value=fresh[w], bytes_of_reused_object=got,
                               accessors_of_reused_object=parts[1], model_bytes=model_bytes[w]),
                          broken="c15 oracle (canonical encoding of a re-used value object) on implementation")
            continue
        if show != canon[w] or show_rd != canon[w]:
            chk.violation("value-reuse-accessors",
                          "a BuildValue object that is re-used (%s) does not show / decode to the value it was given: history (newest first) %s" % (label, hist[:300]),
                          dict(input=rq, step=label, expected_value=canon[w], accessors=parts[1], accessors_after_decode=parts[2], bytes=got),
                          broken="c15 oracle (round trip of a re-used value object) on implementation")
    return ndis

# ---- keys whose name/path length puts every kind of byte into the 32-bit size field (0x7f/0x80/0xff in the first and in
# the second place, carries into the third), for EVERY kind, followed by task data / filter lists; every accessor of the
# key as made, as decoded from its bytes, as copy-assigned and move-assigned over another key is compared.
KEY_LENGTHS = [0, 1, 127, 128, 129, 255, 256, 300, 511, 512, 32767, 32768, 40000, 65535, 65536]
KEY_ACCESSORS = {0: "getCommandName", 1: "getCustomTaskName/getCustomTaskData", 2: "getDirectoryPath",
                 3: "getFilteredDirectoryPath/getContentExclusionPatterns", 4: "getDirectoryTreeSignaturePath/getContentExclusionPatterns",
                 5: "getFilteredDirectoryPath/getContentExclusionPatterns", 6: "getNodeName", 7: "getStatName", 8: "getTargetName"}

def rnd_name(rng, n):
    if n == 0: return b""
    r = rng.random()
    if r < 0.3: return bytes([rng.choice([0x2f, 0x61, 0x00, 0x80, 0xff])]) * n
    return rng.getrandbits(8 * n).to_bytes(n, "little")

def rnd_len(rng, big):
    r = rng.random()
    if r < 0.25: return rng.randrange(128, 256)
    if r < 0.4: return 256 * rng.randrange(1, 8) + rng.randrange(128, 256)
    if r < 0.5 and big: return rng.randrange(32768, 70000)
    if r < 0.55 and big: return 65536 * rng.randrange(1, 4) + rng.choice([0, 1, 127, 128, 255, 32768])
    if r < 0.7: return rng.choice(KEY_LENGTHS[:10])
    return rng.randrange(0, 1100)

def key_payloads(rng, k, few):
    if k == 1:
        l = [(b"", []), (b"\x00\x80task-data\xff", []), (rnd_str(rng, allow_nul=True), [])]
    elif k in (3, 4, 5):
        l = [(b"", []), (b"", [b"*.o"]), (b"", [b"*.o", b"build", b".git"]), (b"", [b""]), (b"", rnd_strs(rng))]
    else:
        return [(b"", [])]
    return [l[0], rng.choice(l[1:])] if few else l

def phase_key_lengths(chk, drv, model, kseen):
    rng = chk.rng
    keys = []
    for L in KEY_LENGTHS:
        for k in range(9):
            for data, filters in key_payloads(rng, k, few=(L > 600 and chk.quick())):
                keys.append((k, rnd_name(rng, L), data, filters))
    # filter lists of every such size as well, after short names and after names of the critical lengths
    for strs in sized_strlists(rng, chk.quick()):
        k = rng.choice([3, 4, 5])
        keys.append((k, rnd_name(rng, rng.choice([0, 3, 127, 128, 255, 256])), b"", strs))
    for i in range(chk.n(400, 6000)):
        k = rng.randrange(9)
        data, filters = rng.choice(key_payloads(rng, k, False))
        keys.append((k, rnd_name(rng, rnd_len(rng, big=(i % 8 == 0))), data, filters))
    reqs = ["key_acc %d %s %s %s" % (k, hx(n), hx(d), fl(f)) for (k, n, d, f) in keys]
    rc1, o1, e1 = vlib.run_lines(drv, reqs, timeout=1800)
    if rc1 != 0 or len(o1) != len(reqs):
        bad = keys[min(len(o1), len(keys) - 1)]
        chk.violation("key-accessor-crash", "the implementation crashed while making / decoding / reading a BuildKey of kind %d with a %d-byte name" % (bad[0], len(bad[1])),
                      dict(rc=rc1, stderr=e1[-1500:], input=reqs[min(len(o1), len(reqs) - 1)][:4000]), broken="c15 oracle (key round trip) on implementation")
        return 0
    encs = [a.split(" | ")[0] for a in o1]
    rc2, m1, e2 = vlib.run_lines(model, ["key_enc " + r[8:] for r in reqs], timeout=1800)
    rc3, m2, e3 = vlib.run_lines(model, ["key_dec " + e for e in encs], timeout=1800)
    assert rc2 == 0 and len(m1) == len(reqs), e2[-500:]
    assert rc3 == 0 and len(m2) == len(reqs), e3[-500:]
    ndis = 0
    for key, rq, ans, menc, mdec in zip(keys, reqs, o1, m1, m2):
        ndis += check_key_answer(chk, key, rq, ans, menc, mdec, kseen)
    chk.sample(dict(kind="key accessors", input=reqs[40][:200], answer=o1[40][:300]))
    chk.cov["key_length_cases"] = len(keys)
    chk.cov["key_name_lengths"] = "%s + random (128..255, 256k+128..255, 32768..70000, 65536k+...)" % KEY_LENGTHS
    return ndis

def check_key_answer(chk, key, rq, ans, menc, mdec, kseen):
    """ans: "<bytes> | <made> | <decoded> | <copy-assigned> | <move-assigned> | <toData of the last three>", "=" = as before.
    Each view is "<kind> <name> <data> <filters> <raw filter bytes>". Returns the number of model disagreements."""
    k, name, data, filters = key
    ck = canon_key(key)
    parts = ans.split(" | ")
    enc = parts[0]
    views, prev = [], None
    for p in parts[1:5]:
        prev = prev if p == "=" else p
        views.append(prev)
    chk.count(("kacc", k, len(name), len(data), len(filters)))
    short = lambda s: s if len(s) < 400 else s[:160] + "...(%d hex digits)..." % len(s) + s[-160:]
    for which, view in zip(("made by its factory", "decoded from its bytes", "copy-assigned over another key", "move-assigned over another key"), views):
        f = view.split(" ")
        if " ".join(f[:4]) != ck or (f[4] != "-" and not enc.endswith(f[4])):
            got = "kind %s name %s data %s filters %s raw-filter-bytes %s" % tuple(short(x) for x in f[:5])
            chk.violation("key-accessor-roundtrip",
                          "a BuildKey of kind %d (%s) with a %d-byte name, %d byte(s) of task data and %d filter(s), %s, does not give back what it was made from"
                          % (k, KEY_ACCESSORS[k], len(name), len(data), len(filters), which),
                          dict(input=short(rq), name_length=len(name), name_length_bytes_le=list(len(name).to_bytes(4, "little")), which=which,
                               expected=short(ck), accessors=got, encoding=short(enc)),
                          broken="c15 oracle (key round trip through every accessor) on implementation")
            return 0
    if parts[5] != "= = =":
        chk.violation("key-not-canonical", "a BuildKey decoded from bytes / assigned over another key does not give back the same bytes",
                      dict(input=short(rq), encoding=short(enc), todata_decoded_copyassigned_moveassigned=short(parts[5])),
                      broken="c15 oracle (canonical encoding) on implementation")
    if enc in kseen and kseen[enc] != ck:
        chk.violation("key-encoding-collision", "two different BuildKeys encode to identical bytes", dict(key1=short(kseen[enc]), key2=short(ck), bytes=short(enc)),
                      broken="c15 oracle (injectivity) on implementation")
    kseen[enc] = ck
    ndis = 0
    if enc != menc:
        ndis += 1
        chk.notes.setdefault("key_enc_disagreements", []).append(dict(input=short(rq), implementation=short(enc), model=short(menc)))
    if mdec != ck:
        ndis += 1
        chk.notes.setdefault("key_dec_disagreements", []).append(dict(bytes=short(enc), implementation=short(ck), model=short(mdec)))
    return ndis

def run(chk):
    drv = vlib.build_drivers(["leaf_driver"])["leaf_driver"]
    vt, vkinds, cok, koc = probe(drv)
    write_gen(vt, cok, koc)
    model = vlib.model_bin()

    def search(res):
        # a proof over the regenerated tables broke: look for the concrete offending entry
        dup = [(i, j) for i in range(len(vt)) for j in range(i + 1, len(vt)) if vt[i] == vt[j]]
        if dup:
            i, j = dup[0]
            return dict(key="value-tag-collision", what="BuildValue kinds %d and %d share the tag byte %d: a stored result of one kind decodes as the other" % (i, j, vt[i]),
                        replay=dict(kinds=[i, j], tag=vt[i], probed_value_tags=vt))
        for i, c in enumerate(cok):
            if koc[c] != i:
                return dict(key="key-tag-not-inverse", what="identifierForKind(kind %d) = %r but kindForIdentifier of it is kind %d" % (i, chr(c), koc[c]),
                            replay=dict(kind=i, char=c, decoded_kind=koc[c]))
        for c, k in enumerate(koc):
            if k < 9 and cok[k] != c:
                return dict(key="key-tag-alias", what="characters %r and %r both decode to key kind %d" % (chr(c), chr(cok[k]), k), replay=dict(chars=[c, cok[k]], kind=k))
        return None
    chk.proof_gate(search=search)

    rng = chk.rng
    N = chk.n(6000, 200000)
    values = [gen_value(rng, k) for k in range(18) for _ in range(20)] + [gen_value(rng) for _ in range(N)]
    # corpus: boundary shapes
    values += [(7, 0, [], []), (7, 0, [], [b""]), (16, 0, [], [b"", b""]), (4, 0, [rnd_fi(rng)], []), (17, 2**64 - 1, [rnd_fi(rng)] * 2, [])]
    # string lists whose total size puts 0x7f / 0x80 / 0xff into the first and second byte of the 64-bit size field
    for strs in sized_strlists(rng, chk.quick()):
        k = rng.choice([4, 7, 16])
        values.append((k, 0, [rnd_fi(rng)] if k == 4 else [], strs))
    reqs = ["value_enc %d %d %s %s" % (k, sig, ";".join(infos) if infos else "0:1:0:0:0:0:-", fl(strs)) for (k, sig, infos, strs) in values]
    # note: kinds that take one info ignore the rest; kinds without infos ignore the field
    rc1, o1, e1 = vlib.run_lines(drv, reqs, timeout=1200)
    rc2, o2, e2 = vlib.run_lines(model, reqs, timeout=1200)
    if rc1 != 0 or len(o1) != len(reqs):
        chk.violation("value-encode-crash", "the implementation crashed while encoding a generated BuildValue", dict(rc=rc1, stderr=e1[-1500:], input=reqs[min(len(o1), len(reqs) - 1)]))
        return chk.finish(rule="aborted")
    assert rc2 == 0 and len(o2) == len(reqs), e2[-500:]
    enc_seen = {}
    ndis = 0
    for v, a, b, rq in zip(values, o1, o2, reqs):
        cv = canon_value(v)
        chk.count(("v", cv) if (v[2] or v[3] or v[1]) else None)
        if a.startswith("INCONSISTENT"):
            chk.violation("value-not-canonical", "the same BuildValue reached through copy / move / move-assignment / re-decoding encodes to different bytes",
                          dict(input=rq, implementation=a), broken="c15 oracle (canonical encoding) on implementation")
            continue
        if a in enc_seen and enc_seen[a] != cv:
            chk.violation("value-encoding-collision", "two different BuildValues encode to identical bytes",
                          dict(value1=enc_seen[a], value2=cv, bytes=a), broken="c15 oracle (injectivity) on implementation")
        enc_seen[a] = cv
        if a != b:
            ndis += 1
            if ndis <= 3:
                chk.notes.setdefault("value_enc_disagreements", []).append(dict(input=rq, implementation=a, model=b))
    chk.sample(dict(kind="value", input=reqs[25], bytes=o1[25][:80] + "..."))
    # decode: the implementation must read back exactly what was encoded (O), and agree with the model
    encs = sorted(set(a for a in o1 if not a.startswith("INCONSISTENT")))
    dreq = ["value_dec " + a for a in encs]
    rc1, d1, e1 = vlib.run_lines(drv, dreq, timeout=1200)
    rc2, d2, e2 = vlib.run_lines(model, dreq, timeout=1200)
    if rc1 != 0 or len(d1) != len(dreq):
        chk.violation("value-decode-crash", "the implementation crashed while decoding bytes it produced itself", dict(rc=rc1, stderr=e1[-1500:], input=dreq[min(len(d1), len(dreq) - 1)]))
    else:
        for enc, a, b in zip(encs, d1, d2):
            chk.count()
            want = enc_seen[enc]
            # checksum printed with 32 bytes; canonical input may carry fewer (padded with zeros)
            def norm(s):
                p = s.split(" ")
                if len(p) < 4:
                    return s
                if p[2] != ".":
                    p[2] = ";".join(":".join(x.split(":")[:6]) + ":" + (x.split(":")[6] if x.split(":")[6] != "-" else "").ljust(64, "0") for x in p[2].split(";"))
                return " ".join(p)
            if norm(a) != norm(want):
                chk.violation("value-roundtrip", "decode(encode(v)) differs from v on the implementation", dict(value=want, bytes=enc, decoded=a),
                              broken="c15 oracle (round trip) on implementation")
            elif norm(a) != norm(b):
                ndis += 1
                chk.notes.setdefault("value_dec_disagreements", []).append(dict(bytes=enc, implementation=a, model=b))
    # no bytes at all decode to the Invalid value on both sides (BuildValue(BinaryDecoder&): coder.isEmpty())
    rcE, dE, _ = vlib.run_lines(drv, ["value_dec -"])
    rcM, mE, _ = vlib.run_lines(model, ["value_dec -"])
    chk.count(("v", "decode of zero bytes"))
    if dE != mE:
        ndis += 1
        chk.notes.setdefault("value_dec_disagreements", []).append(dict(bytes="-", implementation=dE, model=mE))
    # output-count boundaries: round trip on the implementation for counts around 2^8 and 2^16
    mreq = ["value_many %d %d" % (k, n) for k in (10, 17) for n in (255, 256, 257, 65535, 65536, 65537, 70001)]
    rc1, m1, e1 = vlib.run_lines(drv, mreq, timeout=600)
    for rq, a in zip(mreq, m1 + ["<no answer: crash>"] * (len(mreq) - len(m1))):
        chk.count(("many", rq))
        if not a.startswith("OK"):
            chk.violation("value-many-outputs", "a value with many outputs does not survive encode/decode on the implementation: %s -> %s" % (rq, a[:200]),
                          dict(input=rq, implementation=a[:2000]), broken="c15 oracle (round trip, large output counts)")
    # objects that are re-used: assignment over other values, moved-from objects, self-assignment, swap
    ndis += phase_value_reuse(chk, drv, model)
    # keys: name lengths that exercise every byte of the 32-bit size field, every accessor (safe against wild sizes)
    ndis += phase_key_lengths(chk, drv, model, {})
    # keys
    keys = [gen_key(rng, k) for k in range(9) for _ in range(30)] + [gen_key(rng) for _ in range(N // 2)]
    kreq = ["key_enc %d %s %s %s" % (k, hx(n), hx(d), fl(f)) for (k, n, d, f) in keys]
    rc1, k1, e1 = vlib.run_lines(drv, kreq, timeout=1200)
    rc2, k2, e2 = vlib.run_lines(model, kreq, timeout=1200)
    kseen = {}
    if rc1 != 0 or len(k1) != len(kreq):
        chk.violation("key-encode-crash", "the implementation crashed while encoding a generated BuildKey", dict(rc=rc1, stderr=e1[-1500:], input=kreq[min(len(k1), len(kreq) - 1)]))
    else:
        for key, a, b, rq in zip(keys, k1, k2, kreq):
            ck = canon_key(key)
            chk.count(("k", ck))
            if a in kseen and kseen[a] != ck:
                chk.violation("key-encoding-collision", "two different BuildKeys encode to identical bytes", dict(key1=kseen[a], key2=ck, bytes=a),
                              broken="c15 oracle (injectivity) on implementation")
            kseen[a] = ck
            if a != b:
                ndis += 1
                chk.notes.setdefault("key_enc_disagreements", []).append(dict(input=rq, implementation=a, model=b))
        chk.sample(dict(kind="key", input=kreq[100], bytes=k1[100]))
        kencs = sorted(kseen)
        dreq = ["key_dec " + a for a in kencs]
        rc1, d1, e1 = vlib.run_lines(drv, dreq, timeout=1200)
        rc2, d2, e2 = vlib.run_lines(model, dreq, timeout=1200)
        if rc1 != 0 or len(d1) != len(dreq):
            chk.violation("key-decode-crash", "the implementation crashed while decoding a key it produced itself", dict(rc=rc1, stderr=e1[-1500:]))
        else:
            for enc, a, b in zip(kencs, d1, d2):
                chk.count()
                if a != kseen[enc]:
                    chk.violation("key-roundtrip", "decode(encode(k)) differs from k on the implementation", dict(key=kseen[enc], bytes=enc, decoded=a),
                                  broken="c15 oracle (round trip) on implementation")
                elif a != b:
                    ndis += 1
                    chk.notes.setdefault("key_dec_disagreements", []).append(dict(bytes=enc, implementation=a, model=b))
    chk.cov["disagreements"] = ndis
    chk.cov["values"] = len(values)
    chk.cov["keys"] = len(keys)
    chk.cov["exhaustive_tables"] = "value tag of all 18 kinds; identifierForKind of all 9 kinds; kindForIdentifier of all 256 chars"
    if ndis and not chk.violations:
        d = chk.notes
        chk.violation("codec-correspondence", "model (Codec/Codec.v) and implementation disagree on %d encodings/decodings although round trip, injectivity and canonicity hold on the implementation for the generated cases" % ndis,
                      dict(broken="correspondence: Codec.Codec vs BuildValue.h/BuildKey.h", examples={k: v[:2] for k, v in d.items()}), found_input=False,
                      broken="correspondence: Codec.Codec")
    chk.assumptions = ["little-endian host (memcpy of uint32_t in BuildKey)", "strings in string lists are NUL-free (the C++ asserts it)",
                       "decoders are only given bytes produced by the encoders (the C++ decoder does not bounds-check)"]
    return chk.finish(level="proof",
                      rule="values of every kind built through every public factory with boundary-valued 64-bit fields, 1-9 outputs, string lists incl. [] / [\"\"] / non-UTF-8; keys of every kind incl. NUL in length-prefixed parts. "
                           "re-use: every (kind, shape) x (kind, shape) pair of old/new value (string lists [] / [\"\"] / non-empty, 0-3 outputs) + random histories of 2-5 values, new value received by move-assignment / "
                           "copy / decode, into moved-from, decoded, self-assigned, swapped objects; keys: name lengths 0..65536 (see key_name_lengths) for all 9 kinds with task data / filter lists, every accessor. "
                           "non-trivial = carries at least one info, string or signature; distinct by canonical field tuple",
                      trusted=["hand-written model coq/Codec/Codec.v tied by correspondence", "harness/cpp/leaf_driver.cpp", "extraction (ExtrOcamlBasic) + ocaml/vmodel.ml"])

def replay(chk, rp):
    print(json.dumps(rp, indent=1))
    return run(chk)
