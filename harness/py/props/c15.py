# C15 - keys and values encode canonically and decode losslessly
import os, json
import vlib
from vlib import hx

BOUND = [0, 1, 255, 256, 65535, 65536, 2**32 - 1, 2**32, 2**63, 2**64 - 1]
HAS_SIG = {5, 6, 17}
HAS_INFO = {2, 4, 10, 17}
HAS_STRS = {4, 7, 16}

def probe(drv):
    rc, out, err = vlib.run_lines(drv, ["probe_codec"])
    parts = out[0].split(" | ")
    vt = [x.split(":") for x in parts[0].split()[1:]]
    cok = parts[1].split()[1:]
    koc = parts[2].split()[1:]
    return [int(a) for a, b in vt], [int(b) for a, b in vt], [int(x) for x in cok], [int(x) for x in koc]

def write_gen(vt, cok, koc):
    def l(xs): return "[" + "; ".join(str(x) for x in xs) + "]"
    body = ("(* REGENERATED on every run by harness/py/props/c15.py from probes of the rebuilt /repo. *)\n"
            "From Coq Require Import List NArith.\nImport ListNotations.\nLocal Open Scope N_scope.\n"
            "(* first byte of toData() of an instance of each BuildValue kind, in enum order *)\n"
            "Definition probed_value_tags : list N := %s.\n"
            "(* BuildKey::identifierForKind for kinds 0..8 *)\n"
            "Definition probed_key_char_of_kind : list N := %s.\n"
            "(* BuildKey::kindForIdentifier for chars 0..255 (9 = Unknown) *)\n"
            "Definition probed_key_kind_of_char : list N := %s.\n") % (l(vt), l(cok), l(koc))
    return vlib.write_if_changed(os.path.join(vlib.COQ, "gen", "Gen_Codec.v"), body)

def rnd_u64(rng):
    r = rng.random()
    if r < 0.45:
        return rng.choice(BOUND)
    if r < 0.6:
        return rng.choice(BOUND) ^ (1 << rng.randrange(64))
    return rng.getrandbits(rng.choice([8, 16, 32, 48, 64]))

def rnd_fi(rng):
    ck = bytes(rng.getrandbits(8) for _ in range(32)) if rng.random() < 0.5 else (b"\0" * 32 if rng.random() < 0.5 else bytes([rng.getrandbits(8)]) + b"\0" * 31)
    f = [rnd_u64(rng) for _ in range(6)]
    if all(x == 0 for x in f):
        f[1] = 1
    return ":".join(str(x) for x in f) + ":" + ck.hex()

def rnd_str(rng, allow_nul=False):
    n = rng.choice([0, 0, 1, 1, 2, 3, 5, 17, 300])
    alpha = [1, 0x2f, 0x61, 0x62, 0x20, 0x80, 0xff, 0x0a, 0x2c, 0x3a] + ([0] if allow_nul else [])
    return bytes(rng.choice(alpha) if rng.random() < 0.8 else rng.randrange(0 if allow_nul else 1, 256) for _ in range(n))

def rnd_strs(rng):
    r = rng.random()
    if r < 0.12: return []
    if r < 0.22: return [b""]
    if r < 0.3: return [b"", b""]
    return [rnd_str(rng) for _ in range(rng.randint(1, 6))]

def fl(l):
    return "." if not l else ",".join(hx(x) for x in l)

def gen_value(rng, kind=None):
    k = rng.randrange(18) if kind is None else kind
    sig = rnd_u64(rng) if k in HAS_SIG else 0
    n = 0
    if k in (2, 4): n = 1
    elif k in (10, 17): n = rng.choice([1, 1, 2, 2, 3, 5, 9] + ([255, 256, 257] if rng.random() < 0.02 else []))
    infos = [rnd_fi(rng) for _ in range(n)]
    strs = rnd_strs(rng) if k in HAS_STRS else []
    return (k, sig, infos, strs)

def canon_value(v):
    k, sig, infos, strs = v
    def cfi(s):
        p = s.split(":")
        return ":".join(p[:6]) + ":" + p[6]
    return "%d %d %s %s" % (k, sig, ";".join(cfi(i) for i in infos) if infos else ".", fl(strs))

def gen_key(rng, kind=None):
    k = rng.randrange(9) if kind is None else kind
    name = rnd_str(rng, allow_nul=True)      # KeyType is a byte string: NUL is legal in every kind
    data = rnd_str(rng, allow_nul=True) if k == 1 else b""
    filters = rnd_strs(rng) if k in (3, 4, 5) else []
    return (k, name, data, filters)

def canon_key(key):
    k, name, data, filters = key
    return "%d %s %s %s" % (k, hx(name), hx(data), fl(filters))

def run(chk):
    drv = vlib.build_drivers(["leaf_driver"])["leaf_driver"]
    vt, vkinds, cok, koc = probe(drv)
    write_gen(vt, cok, koc)
    model = vlib.model_bin()

    def search(res):
        # a proof over the regenerated tables broke: look for the concrete offending entry
        dup = [(i, j) for i in range(len(vt)) for j in range(i + 1, len(vt)) if vt[i] == vt[j]]
        if dup:
            i, j = dup[0]
            return dict(key="value-tag-collision", what="BuildValue kinds %d and %d share the tag byte %d: a stored result of one kind decodes as the other" % (i, j, vt[i]),
                        replay=dict(kinds=[i, j], tag=vt[i], probed_value_tags=vt))
        for i, c in enumerate(cok):
            if koc[c] != i:
                return dict(key="key-tag-not-inverse", what="identifierForKind(kind %d) = %r but kindForIdentifier of it is kind %d" % (i, chr(c), koc[c]),
                            replay=dict(kind=i, char=c, decoded_kind=koc[c]))
        for c, k in enumerate(koc):
            if k < 9 and cok[k] != c:
                return dict(key="key-tag-alias", what="characters %r and %r both decode to key kind %d" % (chr(c), chr(cok[k]), k), replay=dict(chars=[c, cok[k]], kind=k))
        return None
    chk.proof_gate(search=search)

    rng = chk.rng
    N = chk.n(6000, 200000)
    values = [gen_value(rng, k) for k in range(18) for _ in range(20)] + [gen_value(rng) for _ in range(N)]
    # corpus: boundary shapes
    values += [(7, 0, [], []), (7, 0, [], [b""]), (16, 0, [], [b"", b""]), (4, 0, [rnd_fi(rng)], []), (17, 2**64 - 1, [rnd_fi(rng)] * 2, [])]
    reqs = ["value_enc %d %d %s %s" % (k, sig, ";".join(infos) if infos else "0:1:0:0:0:0:-", fl(strs)) for (k, sig, infos, strs) in values]
    # note: kinds that take one info ignore the rest; kinds without infos ignore the field
    rc1, o1, e1 = vlib.run_lines(drv, reqs, timeout=1200)
    rc2, o2, e2 = vlib.run_lines(model, reqs, timeout=1200)
    if rc1 != 0 or len(o1) != len(reqs):
        chk.violation("value-encode-crash", "the implementation crashed while encoding a generated BuildValue", dict(rc=rc1, stderr=e1[-1500:], input=reqs[min(len(o1), len(reqs) - 1)]))
        return chk.finish(rule="aborted")
    assert rc2 == 0 and len(o2) == len(reqs), e2[-500:]
    enc_seen = {}
    ndis = 0
    for v, a, b, rq in zip(values, o1, o2, reqs):
        cv = canon_value(v)
        chk.count(("v", cv) if (v[2] or v[3] or v[1]) else None)
        if a.startswith("INCONSISTENT"):
            chk.violation("value-not-canonical", "the same BuildValue reached through copy / move / move-assignment / re-decoding encodes to different bytes",
                          dict(input=rq, implementation=a), broken="c15 oracle (canonical encoding) on implementation")
            continue
        if a in enc_seen and enc_seen[a] != cv:
            chk.violation("value-encoding-collision", "two different BuildValues encode to identical bytes",
                          dict(value1=enc_seen[a], value2=cv, bytes=a), broken="c15 oracle (injectivity) on implementation")
        enc_seen[a] = cv
        if a != b:
            ndis += 1
            if ndis <= 3:
                chk.notes.setdefault("value_enc_disagreements", []).append(dict(input=rq, implementation=a, model=b))
    chk.sample(dict(kind="value", input=reqs[25], bytes=o1[25][:80] + "..."))
    # decode: the implementation must read back exactly what was encoded (O), and agree with the model
    encs = sorted(set(a for a in o1 if not a.startswith("INCONSISTENT")))
    dreq = ["value_dec " + a for a in encs]
    rc1, d1, e1 = vlib.run_lines(drv, dreq, timeout=1200)
    rc2, d2, e2 = vlib.run_lines(model, dreq, timeout=1200)
    if rc1 != 0 or len(d1) != len(dreq):
        chk.violation("value-decode-crash", "the implementation crashed while decoding bytes it produced itself", dict(rc=rc1, stderr=e1[-1500:], input=dreq[min(len(d1), len(dreq) - 1)]))
    else:
        for enc, a, b in zip(encs, d1, d2):
            chk.count()
            want = enc_seen[enc]
            # checksum printed with 32 bytes; canonical input may carry fewer (padded with zeros)
            def norm(s):
                p = s.split(" ")
                if len(p) < 4:
                    return s
                if p[2] != ".":
                    p[2] = ";".join(":".join(x.split(":")[:6]) + ":" + (x.split(":")[6] if x.split(":")[6] != "-" else "").ljust(64, "0") for x in p[2].split(";"))
                return " ".join(p)
            if norm(a) != norm(want):
                chk.violation("value-roundtrip", "decode(encode(v)) differs from v on the implementation", dict(value=want, bytes=enc, decoded=a),
                              broken="c15 oracle (round trip) on implementation")
            elif norm(a) != norm(b):
                ndis += 1
                chk.notes.setdefault("value_dec_disagreements", []).append(dict(bytes=enc, implementation=a, model=b))
    # output-count boundaries: round trip on the implementation for counts around 2^8 and 2^16
    mreq = ["value_many %d %d" % (k, n) for k in (10, 17) for n in (255, 256, 257, 65535, 65536, 65537, 70001)]
    rc1, m1, e1 = vlib.run_lines(drv, mreq, timeout=600)
    for rq, a in zip(mreq, m1 + ["<no answer: crash>"] * (len(mreq) - len(m1))):
        chk.count(("many", rq))
        if not a.startswith("OK"):
            chk.violation("value-many-outputs", "a value with many outputs does not survive encode/decode on the implementation: %s -> %s" % (rq, a[:200]),
                          dict(input=rq, implementation=a[:2000]), broken="c15 oracle (round trip, large output counts)")
    # keys
    keys = [gen_key(rng, k) for k in range(9) for _ in range(30)] + [gen_key(rng) for _ in range(N // 2)]
    kreq = ["key_enc %d %s %s %s" % (k, hx(n), hx(d), fl(f)) for (k, n, d, f) in keys]
    rc1, k1, e1 = vlib.run_lines(drv, kreq, timeout=1200)
    rc2, k2, e2 = vlib.run_lines(model, kreq, timeout=1200)
    kseen = {}
    if rc1 != 0 or len(k1) != len(kreq):
        chk.violation("key-encode-crash", "the implementation crashed while encoding a generated BuildKey", dict(rc=rc1, stderr=e1[-1500:], input=kreq[min(len(k1), len(kreq) - 1)]))
    else:
        for key, a, b, rq in zip(keys, k1, k2, kreq):
            ck = canon_key(key)
            chk.count(("k", ck))
            if a in kseen and kseen[a] != ck:
                chk.violation("key-encoding-collision", "two different BuildKeys encode to identical bytes", dict(key1=kseen[a], key2=ck, bytes=a),
                              broken="c15 oracle (injectivity) on implementation")
            kseen[a] = ck
            if a != b:
                ndis += 1
                chk.notes.setdefault("key_enc_disagreements", []).append(dict(input=rq, implementation=a, model=b))
        chk.sample(dict(kind="key", input=kreq[100], bytes=k1[100]))
        kencs = sorted(kseen)
        dreq = ["key_dec " + a for a in kencs]
        rc1, d1, e1 = vlib.run_lines(drv, dreq, timeout=1200)
        rc2, d2, e2 = vlib.run_lines(model, dreq, timeout=1200)
        if rc1 != 0 or len(d1) != len(dreq):
            chk.violation("key-decode-crash", "the implementation crashed while decoding a key it produced itself", dict(rc=rc1, stderr=e1[-1500:]))
        else:
            for enc, a, b in zip(kencs, d1, d2):
                chk.count()
                if a != kseen[enc]:
                    chk.violation("key-roundtrip", "decode(encode(k)) differs from k on the implementation", dict(key=kseen[enc], bytes=enc, decoded=a),
                                  broken="c15 oracle (round trip) on implementation")
                elif a != b:
                    ndis += 1
                    chk.notes.setdefault("key_dec_disagreements", []).append(dict(bytes=enc, implementation=a, model=b))
    chk.cov["disagreements"] = ndis
    chk.cov["values"] = len(values)
    chk.cov["keys"] = len(keys)
    chk.cov["exhaustive_tables"] = "value tag of all 18 kinds; identifierForKind of all 9 kinds; kindForIdentifier of all 256 chars"
    if ndis and not chk.violations:
        d = chk.notes
        chk.violation("codec-correspondence", "model (Codec/Codec.v) and implementation disagree on %d encodings/decodings although round trip, injectivity and canonicity hold on the implementation for the generated cases" % ndis,
                      dict(broken="correspondence: Codec.Codec vs BuildValue.h/BuildKey.h", examples={k: v[:2] for k, v in d.items()}), found_input=False,
                      broken="correspondence: Codec.Codec")
    chk.assumptions = ["little-endian host (memcpy of uint32_t in BuildKey)", "strings in string lists are NUL-free (the C++ asserts it)",
                       "decoders are only given bytes produced by the encoders (the C++ decoder does not bounds-check)"]
    return chk.finish(level="proof",
                      rule="values of every kind built through every public factory with boundary-valued 64-bit fields, 1-9 outputs, string lists incl. [] / [\"\"] / non-UTF-8; keys of every kind incl. NUL in length-prefixed parts. "
                           "non-trivial = carries at least one info, string or signature; distinct by canonical field tuple",
                      trusted=["hand-written model coq/Codec/Codec.v tied by correspondence", "harness/cpp/leaf_driver.cpp", "extraction (ExtrOcamlBasic) + ocaml/vmodel.ml"])

def replay(chk, rp):
    print(json.dumps(rp, indent=1))
    return run(chk)
