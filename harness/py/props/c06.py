# C06 - outcome is independent of completion order and threads; task protocol holds; no lost wake-up / deadlock
#
# (a) proof gate: coq/Props/Properties_C06.v (handshake invariant, progress, broken-variant refutation, protocol language)
# (b) schedule independence on the REAL engine: every build of generated histories under sync / defer:<seed> / mixed:<seed> /
#     threads:<seed>; canonical observations identical across ALL schedules (dependency order inside a rule compared as a multiset,
#     the input an InputRebuilt reason names compared by kind + "did that input really change" oracle) and identical to the
#     extracted specification engine (enginelib.Model)
# (c) protocol: every task's callback sequence in every schedule is accepted by the EXTRACTED automaton (Engine/Protocol.v) for the
#     requested slots derived from the scenario; must-follow keys and requested keys complete before inputs-available; values delivered
#     are the values completed; no LATE-CALLBACK
# (d) lost wake-up / deadlock on the real thing: racing-thread schedules on chains (every wait is for the last outstanding task),
#     wide fans and random graphs, repeated many times under a driver timeout; cancellation from a foreign thread at random times
# (e) thorough tier: the thread scenarios under ThreadSanitizer
import os, json, re, time, shutil, hashlib
import vlib, enginelib

SCHED_KINDS = ("sync", "defer", "mixed", "threads")


# ------------------------------------------------------------------ scenarios

def strip_opts(l):
    return " ".join(t for t in l.split(" ") if not t.startswith("sched=") and not t.startswith("cancel="))


def apply_sched(lines, sched_of):
    """sched_of(i) -> schedule string of the i-th build line (None: leave the line without sched = sync)."""
    out, i = [], 0
    for l in lines:
        if l.startswith("build "):
            s = sched_of(i)
            out.append(strip_opts(l) + ((" sched=" + s) if s else ""))
            i += 1
        else:
            out.append(l)
    return out


def parse_rule(l):
    t = l.split(" ")
    d = dict(sig=0, obs=1, req=[], single=[], follow=[], disc=[], prq=[], brslot=-1, brA=[], brB=[])
    ints = lambda s: [int(x) for x in s.split(",") if x != ""]
    for x in t[2:]:
        if "=" not in x:
            continue
        a, b = x.split("=", 1)
        if a == "sig": d["sig"] = int(b)
        elif a == "obs": d["obs"] = 1 if b == "1" else 0
        elif a in ("req", "single", "follow", "disc", "prq"): d[a] = ints(b)
        elif a == "br":
            p = b.split(":")
            d["brslot"] = int(p[0]); d["brA"] = ints(p[1]) if len(p) > 1 else []; d["brB"] = ints(p[2]) if len(p) > 2 else []
    return int(t[1]), d


def defs_per_build(lines):
    """The rule definitions each build's engine instance sees (a rule line takes effect at the next engine instance), and whether
    a database is attached / the engine was (re)started just before."""
    pending, defs, started, usedb = {}, {}, False, False
    out = []
    fresh_engine = True
    for l in lines:
        t = l.split(" ")
        if t[0] == "rule":
            k, d = parse_rule(l); pending[k] = d
        elif t[0] == "db":
            usedb = t[1] != "0"
        elif t[0] == "restart":
            defs = dict(pending); started = True; fresh_engine = True
        elif t[0] == "build":
            if not started:
                defs = dict(pending); started = True
            out.append(dict(defs=defs, usedb=usedb, fresh_engine=fresh_engine))
            fresh_engine = False
    return out


def small_history(rng, nmax=7):
    """A history over a graph with at most 5 derived tasks (for enumerating many completion orders)."""
    ni, n, rules = enginelib.gen_rules(rng, nmin=4, nmax=nmax)
    usedb = rng.random() < 0.4
    L = ["db %d" % (1 if usedb else 0)] + [enginelib.rule_line(k, rules[k]) for k in sorted(rules)]
    obs = [k for k in rules if rules[k].get("obs")]
    for k in obs:
        L.append("set %d %d" % (k, rng.randint(0, 5)))
    L.append("build %d" % (n - 1))
    for _ in range(rng.randint(1, 3)):
        for k in rng.sample(obs, rng.randint(1, len(obs))):
            L.append("set %d %d" % (k, rng.randint(0, 5)))
        if rng.random() < 0.3:
            L.append("restart")
        L.append("build %d" % rng.choice(list(range(ni, n))))
    L.append("build %d" % (n - 1))
    return L


def chain_scenario(n, nbuilds, sched):
    """0 <- 1 <- 2 ... <- n: with racing threads exactly one task is outstanding at a time, so EVERY wait of the engine is for the
    last completion: a lost wake-up is a hang.  A restart without database before each build makes every build a full one."""
    L = ["db 0", "rule 0 sig=0 obs=1"] + ["rule %d sig=0 obs=0 req=%d" % (i, i - 1) for i in range(1, n + 1)] + ["set 0 1"]
    for b in range(nbuilds):
        L += ["restart", "build %d%s" % (n, sched(b))]
    return L


def fan_scenario(w, nbuilds, sched):
    """w independent leaves under one root: w completions arrive at nearly the same time."""
    L = ["db 0"] + ["rule %d sig=0 obs=0" % i for i in range(w)]
    L += ["rule %d sig=0 obs=0 req=%s" % (w, ",".join(map(str, range(w // 2)))) + " follow=%s" % ",".join(map(str, range(w // 2, w)))]
    for b in range(nbuilds):
        L += ["restart", "build %d%s" % (w, sched(b))]
    return L


def directed_corpus():
    """Directed histories that run first, under every schedule."""
    return [
        # an observing root is re-run for its OWN reason (invalid value) in an incremental build; its request for 2 is paused while 2 is
        # dependency-scanned, and the late request for 3 (issued from provideValue) makes the engine scan another rule afterwards: any state
        # left in a recycled scan record re-delivers the first input (seeded change C06-1)
        ["db 0", "rule 0 sig=0 obs=1", "rule 1 sig=0 obs=1", "rule 2 sig=0 obs=0 req=0", "rule 3 sig=0 obs=0 req=1", "rule 5 sig=0 obs=1 req=2 br=0:3:3",
         "set 0 1", "set 1 1", "set 5 1", "build 5", "set 5 2", "build 5", "set 5 3", "set 0 2", "build 5"],
        ["db 1", "rule 0 sig=0 obs=1", "rule 1 sig=0 obs=1", "rule 2 sig=0 obs=0 req=0", "rule 3 sig=0 obs=0 req=1,2", "rule 4 sig=0 obs=0 req=0 follow=1",
         "rule 5 sig=0 obs=1 req=2,4 br=1:3:3", "set 0 1", "set 1 1", "set 5 1", "build 5", "set 5 2", "restart", "build 5", "rule 5 sig=1 obs=1 req=2,4 br=0:3:4",
         "restart", "build 5", "set 5 4", "build 5"],
    ]


def rescan_history(rng):
    """Family of the shape above: observing inputs, derived middle rules with recorded dependencies, an OBSERVING derived root whose branch
    keys are derived rules; the root alone is invalidated between builds (sometimes with an input flip, a signature edit or a restart over
    the database), so that in incremental builds its requests are paused on dependency scans and late requests follow."""
    ni, nm = rng.randint(2, 3), rng.randint(2, 5)
    L = ["db %d" % (1 if rng.random() < 0.5 else 0)] + ["rule %d sig=0 obs=1" % i for i in range(ni)]
    mids = list(range(ni, ni + nm))
    for k in mids:
        lower = list(range(k))
        req = rng.sample(lower, rng.randint(1, min(2, len(lower))))
        rest = [x for x in lower if x not in req]
        extra = (" follow=%d" % rng.choice(rest)) if rest and rng.random() < 0.25 else ""
        L.append("rule %d sig=0 obs=0 req=%s%s" % (k, ",".join(map(str, req)), extra))
    root = ni + nm
    req = rng.sample(mids, rng.randint(1, min(2, nm - 1)))
    rest = [x for x in mids if x not in req]
    a = rng.sample(rest, rng.randint(1, min(2, len(rest))))
    b = rng.sample(rest, rng.randint(1, min(2, len(rest))))
    rootdef = lambda sg: "rule %d sig=%d obs=1 req=%s br=%d:%s:%s" % (root, sg, ",".join(map(str, req)), rng.randrange(len(req)), ",".join(map(str, a)), ",".join(map(str, b)))
    L.append(rootdef(0))
    for i in range(ni):
        L.append("set %d %d" % (i, rng.randint(0, 5)))
    stamp, sg = 1, 0
    L += ["set %d %d" % (root, stamp), "build %d" % root]
    for _ in range(rng.randint(2, 4)):
        x = rng.random()
        if x < 0.6:
            stamp += 1; L.append("set %d %d" % (root, stamp))
        elif x < 0.8:
            sg += 1; L += [rootdef(sg), "restart"]
        else:
            stamp += 1; L += ["set %d %d" % (root, stamp), "restart"]
        if rng.random() < 0.3:
            L.append("set %d %d" % (rng.randrange(ni), rng.randint(0, 5)))
        L.append("build %d" % root)
    return L


def prq_corpus():
    """Directed: a task that requests ONLY from inside providePriorValue (rule DSL: prq=).  No model counterpart."""
    return [
        ["db 0", "rule 0 sig=0 obs=1", "rule 2 sig=0 obs=0 req=0", "rule 5 sig=0 obs=1 prq=2", "set 0 1", "set 5 1", "build 5", "set 5 2", "build 5",
         "set 0 2", "set 5 3", "build 5"],
        ["db 1", "rule 0 sig=0 obs=1", "rule 1 sig=0 obs=1", "rule 2 sig=0 obs=0 req=0", "rule 3 sig=0 obs=0 req=1", "rule 5 sig=0 obs=1 prq=2 follow=3",
         "rule 6 sig=0 obs=1 req=3 prq=2,5", "set 0 1", "set 1 1", "set 5 1", "set 6 1", "build 6", "set 5 2", "set 6 2", "build 6", "restart", "set 6 3", "set 1 2", "build 6"],
    ]


def prq_history(rng):
    """Rules that request from providePriorValue only (prq alone / prq + must-follow / prq + ordinary requests), built, then re-run for their
    OWN reason (their own observed state changes, or a signature edit with a restart over the database) so that a prior value exists."""
    ni, nm = rng.randint(2, 3), rng.randint(1, 3)
    usedb = rng.random() < 0.5
    L = ["db %d" % (1 if usedb else 0)] + ["rule %d sig=0 obs=1" % i for i in range(ni)]
    mids = list(range(ni, ni + nm))
    for k in mids:
        L.append("rule %d sig=0 obs=0 req=%s" % (k, ",".join(map(str, rng.sample(range(k), rng.randint(1, min(2, k)))))))
    pk = list(range(ni + nm, ni + nm + rng.randint(1, 3)))     # the prq rules; a later one may use an earlier one
    defs = {}
    for k in pk:
        lower = list(range(k))
        prq = rng.sample(lower, rng.randint(1, min(2, len(lower))))
        rest = [x for x in lower if x not in prq]
        shape = rng.choice(["only", "only", "follow", "req"])
        extra = ""
        if shape == "follow" and rest:
            extra = " follow=%s" % ",".join(map(str, rng.sample(rest, rng.randint(1, min(2, len(rest))))))
        elif shape == "req" and rest:
            extra = " req=%s" % ",".join(map(str, rng.sample(rest, rng.randint(1, min(2, len(rest))))))
        defs[k] = (prq, extra)
    rline = lambda k, sg: "rule %d sig=%d obs=1%s prq=%s" % (k, sg, defs[k][1], ",".join(map(str, defs[k][0])))
    sg = {k: 0 for k in pk}
    stamp = {k: 1 for k in pk}
    for k in pk:
        L.append(rline(k, 0))
    for i in range(ni):
        L.append("set %d %d" % (i, rng.randint(0, 5)))
    for k in pk:
        L.append("set %d 1" % k)
    root = pk[-1]
    L.append("build %d" % root)
    for _ in range(rng.randint(2, 4)):
        for k in rng.sample(pk, rng.randint(1, len(pk))):
            if usedb and rng.random() < 0.25:
                sg[k] += 1; L += [rline(k, sg[k]), "restart"]     # a signature edit: no usable prior value for this rule
            else:
                stamp[k] += 1; L.append("set %d %d" % (k, stamp[k]))
        if rng.random() < 0.3:
            L.append("set %d %d" % (rng.randrange(ni), rng.randint(0, 5)))
        if usedb and rng.random() < 0.2:
            L.append("restart")
        L.append("build %d" % rng.choice(pk))
    return L


def cancel_fan_scenario(rng, w, nbuilds):
    """w independent leaves under one root, completions spread over [0, maxus) us from racing threads, cancellation from a foreign thread
    0-150 us after build() started: the drain loop of cancelRemainingTasks is entered with several tasks still computing, which then report
    one after the other (seeded change C06-2: only a completion that finds the queue empty notifies)."""
    L = ["db 0"] + ["rule %d sig=0 obs=0" % i for i in range(w)]
    L += ["rule %d sig=0 obs=0 req=%s" % (w, ",".join(map(str, range(w))))]
    seed0 = rng.randrange(1 << 20)
    for b in range(nbuilds):
        L += ["restart", "build %d sched=threads:%d:%d cancel=thread:%d" % (w, seed0 + b, rng.choice([400, 1200, 3000]), rng.choice([0, 0, 10, 30, 50, 150]))]
    return L


# ------------------------------------------------------------------ observations

def norm_line(x):
    t = x.strip().split(" ")
    if t[0] == "need" and t[2] == "3":
        return "  need %s 3 *" % t[1]                      # which changed input is named depends on timing (checked by the oracle)
    if t[0] == "dbrow":
        return " ".join(t[:6] + sorted(t[6:]))             # recorded dependency ORDER legitimately depends on timing
    return x


def norm_build(b):
    return [norm_line(x) for x in enginelib.canon_build(b, with_deps_order=False)]


def completion_order(b):
    return tuple(int(l.split(" ")[1]) for l in b["events"] if l.startswith("complete "))


def real_builds(lines):
    return [b for b in enginelib.split_builds(lines) if b["hdr"] != "restart"]


class Shadow:
    """Independent bookkeeping over an implementation trace, for the oracles: last completed value of each key, the epoch at which a
    key's value last changed, the epoch at which a key was last built."""
    def __init__(self):
        self.reset()

    def reset(self):
        self.cur, self.changed, self.built = {}, {}, {}


def oracle_build(b, info, sh, errs):
    """Property oracles on one build of the implementation trace (independent of the Coq model).
    errs: list of (key, message)."""
    d = info["defs"]
    if info["fresh_engine"] and not info["usedb"]:
        sh.reset()
    epoch = b["epoch"]
    ev = b["events"]
    pos_complete, pos_create, val_complete = {}, {}, {}
    for i, l in enumerate(ev):
        t = l.split(" ")
        if t[0] == "complete":
            pos_complete[int(t[1])] = i; val_complete[int(t[1])] = t[2]
        elif t[0] == "create":
            pos_create[int(t[1])] = i
    for l in b["other"]:
        if l.startswith("LATE-CALLBACK"):
            errs.append(("late-callback", "a callback was delivered outside build(): %s" % l))
        if l.startswith("leftover-pending"):
            errs.append(("leftover-pending", "tasks were told inputsAvailable but the build returned without them: %s" % l))
    # per-task expectations
    saw_prior = set()
    for i, l in enumerate(ev):
        t = l.split(" ")
        k = int(t[1])
        rd = d.get(k)
        if rd is None:
            continue
        if t[0] == "need" and t[2] == "3":
            x = int(t[3]) if t[3] != "-" else None
            if x is None:
                errs.append(("input-rebuilt-unnamed", "rule %d runs because an input was rebuilt, but no input is named" % k))
            else:
                ran_changed = x in pos_complete and pos_complete[x] < i and val_complete[x] != sh.cur.get(x)
                earlier = sh.changed.get(x, -1) > sh.built.get(k, -1)
                # a discovered dependency is only brought up to date after the task completed; it can never precede
                if not (ran_changed or earlier or x not in sh.cur):
                    errs.append(("input-rebuilt-unchanged", "rule %d is rerun because input %d 'was rebuilt', but %d has not changed since %d was last built" % (k, x, x, k)))
        elif t[0] == "avail":
            for f in rd["follow"]:
                if f in pos_create and not (f in pos_complete and pos_complete[f] < i):
                    errs.append(("avail-before-must-follow", "inputsAvailable of %d delivered before must-follow key %d completed" % (k, f)))
            # every input the task asked for (in start, and in providePriorValue when it was called) was delivered before
            want = len(rd["req"]) + len(rd["single"]) + (len(rd.get("prq", [])) if k in saw_prior else 0)
            got = set(int(x.split(" ")[2]) for x in ev[:i] if x.startswith("provide %d " % k))
            missing = [sl for sl in range(want) if sl not in got]
            if missing:
                errs.append(("avail-before-input", "inputsAvailable of %d delivered while its requested input slot(s) %s had not been provided" % (k, missing)))
        elif t[0] == "prior":
            saw_prior.add(k)
        elif t[0] == "provide":
            slot, key, v = int(t[2]), int(t[3]), t[4]
            keys = rd["req"] + rd["single"] + (rd.get("prq", []) if k in saw_prior else [])
            fixed = len(keys)
            if slot < fixed and keys[slot] != key:
                errs.append(("provide-wrong-key", "slot %d of %d was requested for key %d but key %d was provided" % (slot, k, keys[slot], key)))
            if key in pos_create:
                if not (key in pos_complete and pos_complete[key] < i):
                    errs.append(("provide-before-complete", "input %d provided to %d before it completed" % (key, k)))
                elif val_complete[key] != v:
                    errs.append(("provide-stale-value", "input %d completed with %s in this build but %d was given %s" % (key, val_complete[key], k, v)))
            elif key in sh.cur and sh.cur[key] != v:
                errs.append(("provide-stale-value", "input %d has value %s but %d was given %s" % (key, sh.cur[key], k, v)))
    # update the shadow
    for i, l in enumerate(ev):
        t = l.split(" ")
        if t[0] == "complete":
            k = int(t[1])
            if sh.cur.get(k) != t[2]:
                sh.changed[k] = epoch
            sh.cur[k] = t[2]
            sh.built[k] = epoch


def task_sequences(b, info):
    """-> list of (key, slots, tokens): the extracted automaton's input for every task of the build."""
    d = info["defs"]
    per = {}
    for l in b["events"]:
        t = l.split(" ")
        if t[0] in ("start", "prior", "provide", "avail", "complete"):
            per.setdefault(int(t[1]), []).append(t)
    out = []
    for k, evs in per.items():
        rd = d.get(k, dict(req=[], single=[], prq=[], brslot=-1, brA=[], brB=[]))
        n = len(rd["req"]) + len(rd["single"])
        if any(t[0] == "prior" for t in evs):
            n += len(rd.get("prq", []))        # requested from inside providePriorValue: only when that callback happened
        if 0 <= rd["brslot"] < len(rd["req"]):
            for t in evs:
                if t[0] == "provide" and int(t[2]) == rd["brslot"]:
                    v = t[4]
                    payload = 0 if v in ("EMPTY",) or v.startswith("BAD") else int(v.split(".")[0])
                    n += len(rd["brA"] if payload % 2 == 0 else rd["brB"])
                    break
        toks = []
        for t in evs:
            toks.append(dict(start="s", prior="p", avail="a", complete="c").get(t[0]) or ("v" + t[2]))
        out.append((k, list(range(n)), toks))
    return out


def proto_requests(seqs):
    return ["proto %s %s" % (",".join(map(str, s)) if s else ".", ",".join(tk) if tk else ".") for (k, s, tk) in seqs]


# ------------------------------------------------------------------ handshake model <-> observable trace

def handshake_labels(b, defer):
    """Label sequence of Engine/Handshake.v that reproduces what a single-threaded schedule (sync/defer/mixed) did in this build:
    avail = LSpawn; complete = the four completer steps.  The engine drains the queue before each new inputsAvailable batch and at the
    end.  With the defer schedule completions are released at hook point 1 only, i.e. when the engine has seen the queue empty with
    no work done and is about to take the mutex for the wait: the sequence then follows that very path (EDecide false -> completer
    steps -> LWaitLock, LCheck finds the queue non-empty, LWaitUnlock).  The extracted transition system must accept the sequence and
    end with every completion consumed."""
    labels, idx = [], {}
    st = dict(at_run=True, dw=False, qlen=0)

    def drain():
        while st["qlen"] > 0:
            labels.extend(["polllock", "poll"]); st["qlen"] -= 1; st["dw"] = True

    def goto_decide_false():
        labels.extend(["polllock", "poll"])
        if st["dw"]:
            labels.extend(["continue", "polllock", "poll"]); st["dw"] = False
        st["at_run"] = False

    def leave_wait_block():
        labels.extend(["waitlock", "check", "waitunlock"]); st["at_run"] = True; st["dw"] = False
    for l in b["events"]:
        t = l.split(" ")
        if t[0] == "avail":
            if not st["at_run"]:
                leave_wait_block()
            drain()
            idx[int(t[1])] = len(idx)
            labels.append("spawn"); st["dw"] = True
        elif t[0] == "complete" and int(t[1]) in idx:
            if defer and st["at_run"]:
                drain()
                goto_decide_false()
            i = idx[int(t[1])]
            labels.extend(["tl%d" % i, "tp%d" % i, "tu%d" % i, "tn%d" % i]); st["qlen"] += 1
    if not st["at_run"]:
        leave_wait_block()
    drain()
    # leave the loop: poll sees the queue empty, one more iteration without work, exit
    labels.extend(["polllock", "poll"])
    if st["dw"]:
        labels.extend(["continue", "polllock", "poll"])
    labels.append("exit")
    return labels, len(idx)


# ------------------------------------------------------------------ the check

def run_variant(drv, lines, wd, name, timeout=60, env=None, stall_s=None):
    """Run the driver on a scenario.  With stall_s: a HANG is a live driver whose output has not grown for stall_s seconds (rc=-9,
    hung=True); running out of the `timeout` budget while still printing is rc=-9, hung=False (slow machine, no finding)."""
    if stall_s is None:
        rc, out, err, sp, tp = enginelib.run_impl(drv, lines, wd, timeout=timeout, env=env, name=name)
        return dict(rc=rc, out=out, err=err, sp=sp, tp=tp, lines=lines, hung=(rc == -9))
    import subprocess
    os.makedirs(wd, exist_ok=True)
    sp, tp, ep = os.path.join(wd, name + ".txt"), os.path.join(wd, name + ".impl.txt"), os.path.join(wd, name + ".err.txt")
    open(sp, "w").write("\n".join(lines) + "\n")
    for f in ("build.db", "build.db-journal"):
        try:
            os.unlink(os.path.join(wd, f))
        except OSError:
            pass
    p = subprocess.Popen([drv, sp, wd], stdout=open(tp, "w"), stderr=open(ep, "w"), env=env)
    t0 = last = time.time()
    size, hung, rc = 0, False, None
    while True:
        try:
            rc = p.wait(timeout=0.05 if time.time() - t0 < 1 else 0.25)
            break
        except subprocess.TimeoutExpired:
            pass
        now = time.time()
        sz = os.path.getsize(tp)
        if sz != size:
            size, last = sz, now
        elif now - last >= stall_s:
            hung = True
        if hung or (now - t0 >= timeout and now - last < 1.0):
            p.kill(); p.wait(); rc = -9
            break
    return dict(rc=rc, out=open(tp).read().splitlines(), err=open(ep).read(), sp=sp, tp=tp, lines=lines, hung=hung)


def first_diff(a, b):
    for i in range(max(len(a), len(b))):
        x = a[i] if i < len(a) else "<missing>"
        y = b[i] if i < len(b) else "<missing>"
        if x != y:
            return i, x, y
    return None


def check_history(chk, ctx, base, scheds, tag, ref=None, use_model=True):
    """Run one history under every schedule in `scheds` (list of functions build-index -> schedule string, first = sync reference)."""
    drv, model, emodel, root = ctx["drv"], ctx["model"], ctx["emodel"], ctx["root"]
    infos = defs_per_build(base)
    orders = {}
    nder = None
    runs = []
    for si, (sname, sfun) in enumerate(scheds):
        lines = apply_sched(base, sfun)
        wd = os.path.join(root, "%s-%s" % (tag, sname.replace(":", "_")))
        if ctx.get("hang"):
            break           # every further run would wait for its timeout as well
        r = run_variant(drv, lines, wd, "scenario", timeout=30)
        r["sname"] = sname
        runs.append(r)
        if r["rc"] != 0:
            key = "engine-hang" if r["rc"] == -9 else "engine-crash"
            ctx["hang"] = ctx.get("hang") or r["rc"] == -9
            chk.violation(key, "the engine driver %s on a generated history under schedule %s" % ("did not return (timeout)" if r["rc"] == -9 else "crashed (rc=%s)" % r["rc"], sname),
                          dict(scenario=lines, schedule=sname, stderr=r["err"][-1500:]), found_input=True, broken="c06 oracle (build returns) on implementation")
            if r["rc"] != -9:
                # what did the tasks see before the crash?  the driver's stdout is block-buffered: run it again unbuffered and judge the partial trace
                rc2, out2, err2 = vlib.sh(["stdbuf", "-o0", drv, r["sp"], wd], timeout=30)
                pb = real_builds(out2.splitlines())
                perrs, pseqs, psh = [], [], Shadow()
                for b, info in zip(pb, infos):
                    perrs += enginelib.protocol_check(b)[0]
                    oerrs = []
                    oracle_build(b, info, psh, oerrs)
                    perrs += [m for _, m in oerrs]
                    pseqs += [(b["hdr"], q) for q in task_sequences(b, info)]
                rej = []
                if pseqs:
                    rcm, pans, _ = vlib.run_lines(model, proto_requests([q for _, q in pseqs]))
                    rej = ["task %d in '%s' saw %s for slots %s: %s" % (k, hdr, ",".join(toks), slots, a) for (hdr, (k, slots, toks)), a in zip(pseqs, pans) if a.startswith("REJECT")]
                if perrs or rej:
                    chk.violation("protocol", "%s (schedule %s; the driver then crashed)" % ((perrs + rej)[0], sname),
                                  dict(scenario=lines, schedule=sname, protocol_errors=perrs[:10], automaton=rej[:10], trace_tail=out2.splitlines()[-25:]),
                                  found_input=bool(perrs), broken="c06 oracle (task protocol) on implementation")
            continue
        builds = real_builds(r["out"])
        if len(builds) != len(infos):
            chk.violation("trace-shape", "the driver printed %d builds for a scenario with %d build lines" % (len(builds), len(infos)),
                          dict(scenario=lines, schedule=sname), found_input=False, broken="harness: trace parsing")
            continue
        # (c) protocol + oracles
        sh = Shadow()
        errs = []
        seqs_all = []
        for b, info in zip(builds, infos):
            e2, _st = enginelib.protocol_check(b)
            errs += [("protocol", m) for m in e2]
            oracle_build(b, info, sh, errs)
            seqs = task_sequences(b, info)
            seqs_all += [(b["hdr"], s) for s in seqs]
            co = completion_order(b)
            if len(co) >= 2:
                ctx["orders"].add((ctx["hid"], b["hdr"], co))
                orders.setdefault(b["hdr"], set()).add(co)
            chk.count(("order", ctx["hid"], b["hdr"], co) if len(co) >= 2 else None)
        for (key, msg) in errs[:3]:
            chk.violation(key, "%s (schedule %s)" % (msg, sname), dict(scenario=lines, schedule=sname, all_errors=[m for _, m in errs][:10]),
                          found_input=True, broken="c06 oracle (task protocol / ordering) on implementation")
        preq = proto_requests([s for _, s in seqs_all])
        if preq:
            rc, pans, perr = vlib.run_lines(model, preq)
            ctx["proto_checked"] += len(preq)
            for (hdr, (k, slots, toks)), ans in zip(seqs_all, pans):
                if ans != "OK":
                    indep = [m for kk, m in errs if kk == "protocol"]
                    chk.violation("protocol-automaton", "task %d in '%s' saw %s for requested slots %s: the extracted automaton answers %s (schedule %s)" % (k, hdr, ",".join(toks), slots, ans, sname),
                                  dict(scenario=lines, schedule=sname, task=k, events=toks, slots=slots, automaton=ans, independent_oracle=indep[:5]),
                                  found_input=bool(indep), broken="c06 oracle (task protocol)" if indep else "correspondence: Engine/Protocol.v vs the implementation's callback order")
        # handshake model admits the observed single-threaded behaviour
        if not sname.startswith("threads"):
            hreq, hexp = [], []
            for b in builds:
                if "cycle" in " ".join(b["other"]):
                    continue
                labels, n = handshake_labels(b, sname.startswith("defer"))
                if n:
                    hreq.append("hs_accepts " + ",".join(labels)); hexp.append((b["hdr"], n))
            if hreq:
                rc, hans, herr = vlib.run_lines(model, hreq)
                ctx["hs_checked"] += len(hreq)
                for rq, (hdr, n), ans in zip(hreq, hexp, hans):
                    ok = ans.startswith("OK pc=done mutex=free queue=. ") and ("outstanding=0 " in ans) and len(ans.split("consumed=")[1].split(",")) == n
                    if not ok:
                        chk.violation("handshake-correspondence", "the handshake transition system does not reproduce an observed build (%s, schedule %s): %s" % (hdr, sname, ans),
                                      dict(scenario=lines, schedule=sname, request=rq, answer=ans), found_input=False, broken="correspondence: Engine/Handshake.v")
        # (b) spec model
        ca = cm = None
        if use_model:
            ml = emodel.run(r["sp"], r["tp"])
            ca, cm = enginelib.canon_pair(r["out"], ml)
            ctx["model_runs"] += 1
            if ca != cm:
                # which of several changed inputs an InputRebuilt reason names is outside the property (the kind is compared; that the named
                # input really changed is checked by oracle_build); dependency ORDER inside a rule likewise
                na, nm_ = [norm_line(x) for x in ca], [norm_line(x) for x in cm]
                if na == nm_:
                    ctx["named_input_diffs"] = ctx.get("named_input_diffs", 0) + 1
                    if "named_input_example" not in ctx:
                        ctx["named_input_example"] = dict(scenario=lines, schedule=sname, first_difference=first_diff(ca, cm))
                    ca, cm = na, nm_
        if ca != cm:
            dfi = first_diff(ca, cm)
            ctx["model_disagreements"].append(dict(scenario=lines, schedule=sname, first_difference=dfi))
        # (b) schedule independence
        nb = [norm_build(b) for b in builds]
        if ref is None:
            ref = (sname, nb, lines)
        else:
            for bi, (x, y) in enumerate(zip(ref[1], nb)):
                if x != y:
                    dfi = first_diff(x, y)
                    chk.violation("schedule-dependence", "build %d of a history has different canonical observations under schedules %s and %s: %r vs %r" % (bi + 1, ref[0], sname, dfi[1], dfi[2]),
                                  dict(scenario_a=ref[2], scenario_b=lines, schedule_a=ref[0], schedule_b=sname, build=bi + 1, first_difference=dfi),
                                  found_input=True, broken="c06 oracle (same outcome under every schedule) on implementation")
                    break
    return runs, orders, ref


def stress(chk, ctx, drv, variant, scen_list, timeout, env=None):
    """scen_list: list of (name, lines, reference_lines or None). A timeout is a hang."""
    n_builds = 0
    for name, lines, sync_lines in scen_list:
        wd = os.path.join(ctx["root"], "stress-%s-%s" % (variant, name))
        r = run_variant(drv, lines, wd, "scenario", timeout=timeout, env=env, stall_s=15)
        builds = real_builds(r["out"])
        n_builds += len(builds)
        chk.count(("stress", variant, name), n=max(1, len(builds)))
        if ctx.get("hang") and variant != "tsan":
            break
        if r["rc"] == -9 and not r["hung"]:
            chk.notes.setdefault("slow_runs", []).append("%s/%s ran out of its %ds budget while still making progress (%d builds done); not a finding" % (variant, name, timeout, len(builds)))
            continue
        if r["rc"] == -9:
            ctx["hang"] = True
            chk.violation("engine-hang", "build() did not return in a racing-thread scenario (%s, %s build): the driver printed nothing for 15 s after %d finished builds; lost wake-up or deadlock (budget %ds)" % (name, variant, len([b for b in builds if b["result"]]), timeout),
                          dict(scenario=lines, variant=variant, builds_finished=len([b for b in builds if b["result"]])), found_input=True,
                          broken="c06 oracle (build returns) on implementation")
            continue
        if r["rc"] != 0:
            chk.violation("engine-crash", "the engine driver crashed (rc=%s) in a racing-thread scenario (%s, %s build)" % (r["rc"], name, variant),
                          dict(scenario=lines, variant=variant, stderr=r["err"][-2500:]), found_input=True, broken="c06 oracle (no crash) on implementation")
            continue
        if variant == "tsan" and "ThreadSanitizer" in r["err"]:
            rep = r["err"][r["err"].index("ThreadSanitizer") - 20:][:3500]
            m = re.search(r"WARNING: ThreadSanitizer: ([a-z -]+)", r["err"])
            chk.violation("tsan-" + (m.group(1).strip().replace(" ", "-") if m else "report"), "ThreadSanitizer reported %s while tasks completed from racing threads (%s)" % (m.group(1) if m else "a problem", name),
                          dict(scenario=lines, variant=variant, report=rep), found_input=True, broken="c06 oracle (no data race) on implementation")
        errs = []
        for b in builds:
            for l in b["other"]:
                if l.startswith("LATE-CALLBACK"):
                    errs.append(("late-callback", "a callback was delivered outside build(): %s" % l))
                if l.startswith("leftover-pending"):
                    errs.append(("leftover-pending", l))
            e2, st = enginelib.protocol_check(b)
            cancelled = b["result"] is not None and "cancelled" in b["result"]
            if b["result"] is None:
                errs.append(("no-result", "build printed no result"))
            errs += [("protocol", m) for m in e2]
            for k, s in st.items():
                if s["avail"] and not s["complete"]:
                    errs.append(("avail-without-complete", "task %d was told inputsAvailable and never completed before build() returned" % k))
        for key, msg in errs[:3]:
            chk.violation(key, "%s (%s, %s build)" % (msg, name, variant), dict(scenario=lines, variant=variant, errors=[m for _, m in errs][:10]),
                          found_input=True, broken="c06 oracle (task protocol under threads / cancellation) on implementation")
        # prefix protocol through the extracted automaton (cancelled builds stop tasks anywhere)
        infos = defs_per_build(lines)
        if len(infos) == len(builds):
            seqs = []
            for b, info in zip(builds, infos):
                seqs += [(b, s) for s in task_sequences(b, info)]
            preq = proto_requests([s for _, s in seqs])
            if preq:
                rc, pans, perr = vlib.run_lines(ctx["model"], preq)
                ctx["proto_checked"] += len(preq)
                for (b, (k, slots, toks)), ans in zip(seqs, pans):
                    cancelled = b["result"] is not None and ("cancelled" in b["result"] or b["result"].startswith("result EMPTY"))
                    if ans.startswith("REJECT") or (ans != "OK" and not cancelled):
                        chk.violation("protocol-automaton", "task %d in '%s' saw %s for slots %s: the extracted automaton answers %s (%s, %s build)" % (k, b["hdr"], ",".join(toks), slots, ans, name, variant),
                                      dict(scenario=lines, variant=variant, task=k, events=toks, slots=slots, automaton=ans), found_input=True, broken="c06 oracle (task protocol)")
        # values: the same as under the synchronous schedule (non-cancelled builds)
        if sync_lines is not None:
            sb = real_builds(sync_lines)
            for bi, (b, s) in enumerate(zip(builds, sb)):
                if b["result"] is not None and "cancelled" not in b["result"] and b["result"] != s["result"]:
                    chk.violation("schedule-dependence", "build %d of %s returns %s with racing threads but %s synchronously" % (bi + 1, name, b["result"], s["result"]),
                                  dict(scenario=lines, variant=variant, build=bi + 1), found_input=True, broken="c06 oracle (same outcome under every schedule) on implementation")
                    break
    return n_builds


def hunt(chk, ctx, drv, nproc, budget_s, stall_s=15, configs=((12, 0), (32, 0), (24, 20), (64, 0), (24, 0), (32, 50), (16, 0), (48, 20))):
    """Lost wake-up hunt: `nproc` driver processes in parallel for `budget_s` seconds, each running full builds of a fan of W leaves
    whose completions race from threads released within [0, maxus) microseconds (sched=threads:<seed>:<maxus>; 0 = all at once).
    The engine re-enters its wait block after every batch of completions it has processed; a completion that slips between an
    unprotected emptiness check and the wait is lost, and if it was the last one build() never returns.
    A HANG is a live driver whose output has not grown for `stall_s` seconds (one build takes milliseconds); running out of budget while
    still making progress is not a finding."""
    import subprocess
    procs = []
    nb = 200000
    for i in range(nproc):
        w, maxus = configs[i % len(configs)]
        seed0 = chk.rng.randrange(1 << 20)
        lines = fan_scenario(w, nb, lambda b: " sched=threads:%d:%d" % (seed0 + b, maxus))
        wd = os.path.join(ctx["root"], "hunt-%d" % i)
        os.makedirs(wd, exist_ok=True)
        sp = os.path.join(wd, "scenario.txt")
        open(sp, "w").write("\n".join(lines) + "\n")
        op = os.path.join(wd, "out.txt")
        p = subprocess.Popen([drv, sp, wd], stdout=open(op, "w"), stderr=subprocess.DEVNULL)
        procs.append(dict(p=p, wd=wd, out=op, w=w, maxus=maxus, seed0=seed0, size=0, last=time.time(), hung=False, rc=None))
    t0 = time.time()
    while True:
        time.sleep(0.25)
        now = time.time()
        alive = 0
        for q in procs:
            if q["rc"] is not None or q["hung"]:
                continue
            rc = q["p"].poll()
            if rc is not None:
                q["rc"] = rc
                continue
            alive += 1
            sz = os.path.getsize(q["out"])
            if sz != q["size"]:
                q["size"], q["last"] = sz, now
            elif now - q["last"] >= stall_s:
                q["hung"] = True
        over = now - t0 >= budget_s
        # past the budget only processes that are silent (possible hangs) are given the time to be told apart from slow ones
        if alive == 0 or any(q["hung"] for q in procs) or (over and all(q["rc"] is not None or q["hung"] or now - q["last"] < 1.0 for q in procs)):
            break
    for q in procs:
        if q["rc"] is None:
            q["p"].kill(); q["p"].wait()
    done = 0
    per_cfg = {}
    for i, q in enumerate(procs):
        out = open(q["out"]).read().splitlines()
        fin = sum(1 for l in out if l.startswith("result "))
        done += fin
        per_cfg["w%d/us%d" % (q["w"], q["maxus"])] = per_cfg.get("w%d/us%d" % (q["w"], q["maxus"]), 0) + fin
        chk.count(("hunt", i), n=1)          # the number of builds a hunt finishes in its time budget depends on the machine: reported as hunt_builds, not as evaluations
        short = fan_scenario(q["w"], 400, lambda b: " sched=threads:%d:%d" % (q["seed0"] + max(0, fin - 200) + b, q["maxus"]))
        if q["hung"]:
            chk.violation("engine-hang", "build() did not return in a fan of %d completions racing within %d us: the driver had finished %d builds and then printed nothing for %ds (lost wake-up or deadlock)" % (q["w"], q["maxus"], fin, stall_s),
                          dict(scenario=short, variant="hooks", builds_finished=fin, note="rare by nature (a window of tens of nanoseconds): replay repeats 400 such builds 20 times"), found_input=True,
                          broken="c06 oracle (build returns) on implementation")
        elif q["rc"] not in (None, 0):
            chk.violation("engine-crash", "the engine driver crashed (rc=%s) in the racing fan after %d builds" % (q["rc"], fin), dict(scenario=short, variant="hooks"), found_input=True,
                          broken="c06 oracle (no crash) on implementation")
        elif any(l.startswith(("LATE-CALLBACK", "leftover")) for l in out):
            chk.violation("late-callback", "a callback outside build() in the racing fan", dict(scenario=short, variant="hooks"), found_input=True, broken="c06 oracle (no late callback)")
    ctx["hunt_cfg"] = per_cfg
    return done, round(time.time() - t0, 1)


def thread_scenarios(chk, rng, quick_n, thorough_n, with_cancel=True):
    """Scenario lines of the racing-thread stress (shared by the plain and the TSan runs)."""
    out = []
    N = chk.n(quick_n, thorough_n)
    mu = lambda: rng.choice([0, 0, 20, 50, 300, 1200])      # threads:<seed>:<maxus>: completions released within [0, maxus) us
    for i in range(N):
        seed0, m = rng.randrange(1 << 20), mu()
        out.append(("chain%d" % i, chain_scenario(rng.choice([12, 20, 30]), chk.n(8, 25), lambda b: " sched=threads:%d:%d" % (seed0 + b, m))))
    for i in range(max(1, N // 2)):
        seed0, m = rng.randrange(1 << 20), mu()
        out.append(("fan%d" % i, fan_scenario(rng.choice([16, 40, 64]), chk.n(10, 30), lambda b: " sched=threads:%d:%d" % (seed0 + b, m))))
    for i in range(N):
        base = enginelib.gen_history(rng, usedb=rng.random() < 0.5, nops=(4, 10))
        seed0, m = rng.randrange(1 << 20), mu()
        out.append(("rand%d" % i, apply_sched(base, lambda b: "threads:%d:%d" % (seed0 + b, m))))
    if with_cancel:
        for i in range(N):
            base = enginelib.gen_history(rng, usedb=rng.random() < 0.5, nops=(4, 10), allow_rule_edits=False)
            seed0 = rng.randrange(1 << 20)
            L, bi = [], 0
            for l in base:
                if l.startswith("build "):
                    c = (" cancel=thread:%d" % rng.choice([0, 0, 20, 100, 300, 700, 1500, 3000])) if rng.random() < 0.6 else ""
                    kind = rng.choice(["threads"] * 5 + ["defer", "mixed"])
                    L.append(strip_opts(l) + " sched=%s:%d%s" % (kind, seed0 + bi, (":%d" % mu()) if kind == "threads" else "") + c); bi += 1
                else:
                    L.append(l)
            out.append(("cancel%d" % i, L))
        for i in range(max(1, N // 2)):
            seed0 = rng.randrange(1 << 20)
            n = rng.choice([12, 20])
            m = mu()
            L = chain_scenario(n, chk.n(8, 25), lambda b: " sched=threads:%d:%d cancel=thread:%d" % (seed0 + b, m, rng.choice([0, 50, 400, 2000, 6000])))
            out.append(("cancelchain%d" % i, L))
        for i in range(chk.n(4, 20)):
            out.append(("cancelfan%d" % i, cancel_fan_scenario(rng, rng.randint(4, 12), rng.randint(20, 40))))
    return out


def write_fault_family(chk, drv, root):
    """No deadlock when a database write fails while other completions are queued: the engine reports the error and cancels the build; build()
    must RETURN (with failure) whatever was completing at that moment, under every completion schedule, and later builds over the same database
    (fault gone) must equal a brand-new engine.  The fault is injected by the driver's BuildDB wrapper (`failwrite n`)."""
    import enginechk as K
    n = hangs = 0
    for w in (3, 5):
        for nth in (1, 2, 3, w + 1):
            for sched in ("sync", "defer:3", "mixed:5", "threads:2:20000", "threads:7:0"):
                L = ["db 1", "failwrite %d" % nth] + ["rule %d sig=0 obs=1" % i for i in range(w)] + \
                    ["rule 8 sig=0 obs=0 req=%s" % ",".join(str(i) for i in range(w)), "rule 9 sig=0 obs=0 req=8"] + ["set %d 1" % i for i in range(w)] + \
                    ["build 9 sched=%s" % sched, "failwrite 0", "restart", "set 0 2", "build 9", "fresh 9", "build 9", "fresh 9"]
                wd = os.path.join(root, "wf%d" % n)
                n += 1
                rc, out, err, sp, tp = enginelib.run_impl(drv, L, wd, timeout=30)
                rp = dict(scenario=L, implementation=out[-80:], stderr=err[-600:])
                if rc == -9:
                    hangs += 1
                    chk.violation("deadlock-on-write-fault", "build() did not return within 30 s after setRuleResult failed for write number %d (schedule %s, %d inputs completing together)" % (nth, sched, w),
                                  rp, found_input=True, broken="c06 oracle: no deadlock")
                    if hangs >= 2:
                        return n
                    continue
                if rc != 0:
                    chk.violation("driver-crash", "engine_driver exited with status %s after an injected write fault" % rc, rp, found_input=True, broken="c06 oracle: termination")
                    continue
                builds = K.parse_impl(out)
                if not builds or not (builds[0]["result"] or "").startswith("result EMPTY") and nth <= w + 2 and any(l.startswith("error") for l in builds[0]["other"]):
                    chk.violation("write-fault-not-failure", "a build in which a database write failed returned %r" % (builds[0]["result"] if builds else None), rp, found_input=True,
                                  broken="c06 oracle: a failed write fails the build")
                for key, what in K.oracle_c01(builds[1:]):
                    chk.violation(key + "-after-write-fault", what, rp, found_input=True, broken="c06 oracle: later builds are clean")
                chk.count(("wf", w, nth, sched), n=3)
    return n


def run(chk):
    drv = vlib.build_drivers(["engine_driver"])["engine_driver"]
    model = vlib.model_bin("handshake")
    chk.proof_gate(also=["impl"])
    # small-step model of the engine loop (Engine/Impl.v): exact-interleaving tie, theorems of Props/Properties_impl.v
    import props.impl as impl
    impl.phase(chk, {"corpus", "hist"})
    emodel = enginelib.Model()
    root = os.path.join(vlib.WORK, "tmp", "c06-%d" % os.getpid())     # private: checks may run concurrently
    shutil.rmtree(root, ignore_errors=True)
    os.makedirs(root, exist_ok=True)
    try:
        chk.cov["write_fault_scenarios"] = write_fault_family(chk, drv, root)
        return run_in(chk, drv, model, emodel, root)
    finally:
        try:
            emodel.close()
        except Exception:
            pass
        if not chk.violations:
            shutil.rmtree(root, ignore_errors=True)


def run_in(chk, drv, model, emodel, root):
    rng = chk.rng
    ctx = dict(drv=drv, model=model, emodel=emodel, root=root, orders=set(), hid=0, proto_checked=0, hs_checked=0, model_runs=0, model_disagreements=[])

    # ---- (a') the extracted models answer as the theorems say (sanity of extraction + handlers)
    sanity = [("proto 0,1,2 s,p,v2,v0,v1,a,c", "OK"), ("proto 0,1 s,v0,v0", "REJECT 2"), ("proto 0,1 s,v0,a", "REJECT 2"),
              ("proto 0 s,v0,p", "REJECT 2"), ("proto 0 s,v0,a,a", "REJECT 3"), ("proto . s,a,c,c", "REJECT 3"), ("proto 0 v0", "REJECT 0"),
              ("hs_broken spawn,polllock,poll,continue,polllock,poll,peek,tl0,tp0,tu0,tn0,waitlock,check",
               "OK pc=waiting:main mutex=free queue=0 threads=D outstanding=1 consumed=."),
              ("hs_accepts spawn,polllock,poll,continue,polllock,poll,peek", "REJECT 6"),
              ("hs_accepts spawn,polllock,poll,continue,polllock,poll,waitlock,tl0,check", "REJECT 7"),   # a completer cannot lock while the engine checks
              ("hs_accepts spawn,polllock,poll,continue,polllock,poll,waitlock,check,tl0,tp0,tu0,tn0,reacquire,waitunlock,polllock,poll",
               "OK pc=run:1 mutex=free queue=. threads=D outstanding=0 consumed=0")]
    rc, ans, err = vlib.run_lines(model, [q for q, _ in sanity])
    for (q, want), a in zip(sanity, ans + ["<no answer>"] * len(sanity)):
        chk.count(("sanity", q))
        if a != want:
            chk.violation("extracted-model-sanity", "the extracted model answers %r to %r, expected %r" % (a, q, want), dict(request=q, answer=a, expected=want),
                          found_input=False, broken="extraction / ocaml/vmodel_handshake.ml")

    # ---- directed corpus + the "re-run root with late requests for rules that still need a scan" family, first, under every schedule
    t0 = time.time()
    corpus = directed_corpus() + [rescan_history(rng) for _ in range(chk.n(10, 80))]
    for h, base in enumerate(corpus):
        ctx["hid"] = "d%d" % h
        seeds = [rng.randrange(1 << 16) for _ in range(5)]
        scheds = [("sync", lambda i: None)]
        scheds += [("defer:%d" % s, (lambda s: lambda i: "defer:%d" % (s + i))(s)) for s in seeds[:2]]
        scheds += [("mixed:%d" % seeds[2], (lambda s: lambda i: "mixed:%d" % (s + i))(seeds[2]))]
        scheds += [("threads:%d" % seeds[3], (lambda s: lambda i: "threads:%d" % (s + i))(seeds[3])),
                   ("threads:%d:20" % seeds[4], (lambda s: lambda i: "threads:%d:20" % (s + i))(seeds[4]))]
        check_history(chk, ctx, base, scheds, "d%d" % h)
        if ctx.get("hang"):
            break
    # requests issued from providePriorValue (driver DSL prq=): judged by the protocol automaton and the ordering oracles only
    pcorpus = prq_corpus() + [prq_history(rng) for _ in range(chk.n(10, 80))]
    for h, base in enumerate(pcorpus):
        if ctx.get("hang"):
            break
        ctx["hid"] = "p%d" % h
        seeds = [rng.randrange(1 << 16) for _ in range(5)]
        scheds = [("sync", lambda i: None)]
        scheds += [("defer:%d" % s, (lambda s: lambda i: "defer:%d" % (s + i))(s)) for s in seeds[:2]]
        scheds += [("mixed:%d" % seeds[2], (lambda s: lambda i: "mixed:%d" % (s + i))(seeds[2]))]
        scheds += [("threads:%d" % seeds[3], (lambda s: lambda i: "threads:%d" % (s + i))(seeds[3])),
                   ("threads:%d:20" % seeds[4], (lambda s: lambda i: "threads:%d:20" % (s + i))(seeds[4]))]
        check_history(chk, ctx, base, scheds, "p%d" % h, use_model=False)
    t_corpus = time.time() - t0

    # ---- (b)+(c) generated histories under every schedule
    t0 = time.time()
    nh = chk.n(20, 150)
    for h in range(nh):
        ctx["hid"] = "g%d" % h
        base = [strip_opts(l) for l in enginelib.gen_history(rng, nops=(3, 9))]
        seeds = [rng.randrange(1 << 16) for _ in range(8)]
        scheds = [("sync", lambda i: None)]
        scheds += [("defer:%d" % s, (lambda s: lambda i: "defer:%d" % (s + i))(s)) for s in seeds[:chk.n(2, 4)]]
        scheds += [("mixed:%d" % s, (lambda s: lambda i: "mixed:%d" % (s + i))(s)) for s in seeds[4:4 + chk.n(1, 2)]]
        scheds += [("threads:%d" % s, (lambda s: lambda i: "threads:%d" % (s + i))(s)) for s in seeds[6:6 + chk.n(1, 2)]]
        runs, orders, _ = check_history(chk, ctx, base, scheds, "g%d" % h)
        if ctx.get("hang"):
            break
        if h == 0 and runs and runs[-1]["rc"] == 0:
            chk.sample(dict(kind="history under schedule %s" % runs[-1]["sname"], scenario=runs[-1]["lines"], trace_head=runs[-1]["out"][:25]))
    t_gen = time.time() - t0

    # ---- small graphs: enumerate many distinct completion orders
    t0 = time.time()
    ns = chk.n(8, 40)
    cap = chk.n(24, 120)
    small_stats = []
    for h in range(ns):
        ctx["hid"] = "s%d" % h
        base = small_history(rng)
        seen = {}
        scheds = [("sync", lambda i: None)]
        stale, tried, ref = 0, 0, None
        # batches of schedules until no new completion order shows up for a while (or the cap)
        while tried < cap and stale < chk.n(8, 24):
            batch = []
            for _ in range(4):
                s = rng.randrange(1 << 16)
                kind = rng.choice(["defer", "defer", "mixed", "threads"])
                batch.append(("%s:%d" % (kind, s), (lambda kind, s: lambda i: "%s:%d" % (kind, s + 7 * i))(kind, s)))
            runs, orders, ref = check_history(chk, ctx, base, (scheds[:1] if ref is None else []) + batch, "s%d" % h, ref=ref)
            tried += len(batch)
            new = 0
            for hdr, os_ in orders.items():
                before = len(seen.setdefault(hdr, set()))
                seen[hdr] |= os_
                new += len(seen[hdr]) - before
            stale = 0 if new else stale + len(batch)
            if chk.violations:
                break
        if ctx.get("hang"):
            break
        small_stats.append(dict(schedules=tried, orders_per_build={k: len(v) for k, v in seen.items()}))
        if h == 0:
            chk.sample(dict(kind="small graph, completion orders seen per build", scenario=base, orders={k: sorted(v)[:6] for k, v in seen.items()}))
    t_small = time.time() - t0

    # ---- (d) racing threads: lost wake-up / deadlock, cancellation from a foreign thread
    t0 = time.time()
    scen = thread_scenarios(chk, rng, 8, 60)
    scen_ref = []
    for name, lines in scen:
        sync_lines = None
        if not name.startswith("cancel") and not ctx.get("hang"):
            r = run_variant(drv, apply_sched(lines, lambda i: None), os.path.join(root, "stress-ref-" + name), "scenario")
            sync_lines = r["out"] if r["rc"] == 0 else None
        scen_ref.append((name, lines, sync_lines))
    nstress = stress(chk, ctx, drv, "hooks", scen_ref, timeout=chk.n(40, 120))
    chk.sample(dict(kind="racing-thread stress scenario", name=scen[0][0], scenario=scen[0][1][:8] + ["..."]))
    t_stress = time.time() - t0
    hunt_builds, t_hunt = (0, 0.0)
    if not ctx.get("hang"):
        np_ = max(2, min(8, vlib.NCPU // 2))
        hunt_builds, t_hunt = hunt(chk, ctx, drv, chk.n(min(6, np_), np_), chk.n(25, 120))

    # ---- (e) ThreadSanitizer (thorough tier)
    tsan_builds = 0
    if not chk.quick():
        try:
            tdrv = vlib.build_drivers(["engine_driver"], "tsan")["engine_driver"]
            env = dict(os.environ, TSAN_OPTIONS="halt_on_error=0 second_deadlock_stack=1 exitcode=0")
            probe = run_variant(tdrv, chain_scenario(3, 1, lambda b: " sched=threads:1"), os.path.join(root, "tsan-probe"), "scenario", timeout=60, env=env)
            if probe["rc"] != 0 or not any(l.startswith("result") for l in probe["out"]):
                chk.notes["tsan"] = "the ThreadSanitizer build of the driver does not run in this sandbox (rc=%s, stderr: %s); data races were NOT sampled" % (probe["rc"], probe["err"][-300:])
            else:
                tscen = thread_scenarios(chk, rng, 4, 30)
                tsan_builds = stress(chk, ctx, tdrv, "tsan", [(n, l, None) for n, l in tscen], timeout=300, env=env)
                chk.notes["tsan"] = "ThreadSanitizer build ran %d builds with tasks completing / discovering dependencies / cancelling from racing threads" % tsan_builds
        except vlib.BuildError as e:
            chk.notes["tsan"] = "the ThreadSanitizer build failed in this sandbox; data races were NOT sampled: %s" % str(e)[-400:]
    else:
        chk.notes["tsan"] = "quick tier: ThreadSanitizer runs only in the thorough tier"

    # ---- model / implementation correspondence (spec engine)
    if ctx["model_disagreements"] and not chk.violations:
        d = ctx["model_disagreements"]
        chk.violation("spec-correspondence", "the specification engine and the implementation disagree on %d of %d runs although every schedule gives the same observations on the implementation" % (len(d), ctx["model_runs"]),
                      dict(broken="correspondence: Engine/Spec.v vs BuildEngine.cpp under non-synchronous schedules", examples=d[:2]), found_input=False,
                      broken="correspondence: Engine/Spec.v")
    chk.cov.update(dict(histories=nh, small_graphs=ns, small_graph_orders=small_stats[:10], distinct_completion_orders=len(ctx["orders"]),
                        task_sequences_through_extracted_automaton=ctx["proto_checked"], builds_replayed_on_handshake_model=ctx["hs_checked"],
                        spec_model_runs=ctx["model_runs"], spec_model_disagreements=len(ctx["model_disagreements"]),
                        stress_builds=nstress, hunt_builds=hunt_builds, tsan_builds=tsan_builds, directed_and_rescan_histories=len(corpus), prior_value_request_histories=len(pcorpus), seconds=dict(corpus=round(t_corpus, 1), histories=round(t_gen, 1), small=round(t_small, 1), stress=round(t_stress, 1), hunt=t_hunt)))
    if ctx.get("named_input_diffs"):
        chk.notes["spec_model_named_input"] = ("on %d of %d runs the specification engine names a different (also changed) input in an InputRebuilt reason than the implementation; "
                                               "not a C06 matter (kind compared, named input checked to have really changed), reported for the owner of Engine/Spec.v: %s"
                                               % (ctx["named_input_diffs"], ctx["model_runs"], json.dumps(ctx["named_input_example"])[:1500]))
    chk.notes["partial"] = ("PARTIAL - data races are sampled under ThreadSanitizer (thorough tier), not proved; the handshake logic (any number of completer "
                            "threads, any interleaving) and the protocol automaton are proved; schedule independence of values is sampled on the implementation "
                            "and tied to the specification engine by the differential")
    chk.notes["lost_wakeup_hunt"] = ("%d fan builds (12-64 leaves, completions released from racing threads within 0/20/50 us via sched=threads:<seed>:<maxus>) in parallel driver "
                                     "processes, per configuration: %s. A hang = a live driver silent for 15 s. Measured detection power on a privately built mutant with the emptiness check of the "
                                     "wait block moved outside the mutex (not in /repo): first hang after about 9*10^3 builds on average; the quick-tier hunt (6 processes x 25 s, about 2*10^4 builds) "
                                     "found it in 14 of 16 trials (about 88%%); with the old fixed 0-1199 us delays it took about 2*10^4 builds per hang. "
                                     "A variant without any re-check hangs deterministically under the defer schedules." % (hunt_builds, ctx.get("hunt_cfg")))
    chk.assumptions = ["std::mutex / std::condition_variable behave as in Engine/Handshake.v: notify_one wakes the waiter if there is one and is otherwise lost; wait releases the mutex atomically and may wake spuriously",
                       "only the engine thread waits on finishedTaskInfosCondition; numOutstandingUnfinishedTasks is touched by the engine thread only",
                       "every task that was told inputsAvailable eventually calls taskIsComplete exactly once (client obligation)",
                       "data-race freedom is not proved (sampled with ThreadSanitizer in the thorough tier)"]
    return chk.finish(level="proof",
                      rule="generated engine histories (enginelib.gen_history: 5-14 rules with requests, single-use, must-follow, value-dependent branches, discovered dependencies; "
                           "external-state flips, restarts with/without database, signature edits) each run under sync, defer:<seed>, mixed:<seed>, threads:<seed>; small graphs (<= 5 derived tasks) "
                           "under batches of seeds until no new completion order appears; chains/fans/random graphs with racing threads and foreign-thread cancellation. "
                           "non-trivial = a build in which at least two tasks completed; distinct by (history, build, completion order)",
                      trusted=["hand-written models coq/Engine/Handshake.v (transliteration of executeTasks/cancelRemainingTasks/taskIsComplete) and coq/Engine/Protocol.v",
                               "harness/cpp/engine_driver.cpp and the guarded engine hook points", "coq/Engine/Spec.v specification engine (differential)",
                               "extraction (ExtrOcamlBasic) + ocaml/vmodel_handshake.ml", "ThreadSanitizer (clang 14) for the sampled race check"])


def replay(chk, rp):
    print(json.dumps({k: v for k, v in rp.items() if k not in ("coq_log_tail",)}, indent=1)[:6000])
    scen = rp.get("scenario") or rp.get("scenario_b")
    if not scen:
        return run(chk)
    variant = rp.get("variant", "hooks")
    drv = vlib.build_drivers(["engine_driver"], variant)["engine_driver"]
    root = os.path.join(vlib.WORK, "tmp", "c06-replay-%d" % os.getpid())
    shutil.rmtree(root, ignore_errors=True)
    env = dict(os.environ, TSAN_OPTIONS="halt_on_error=0 exitcode=0") if variant == "tsan" else None
    bad = 0
    reps = 1 if "schedule_b" in rp or not any("threads" in l for l in scen) else 20
    for i in range(reps):
        r = run_variant(drv, scen, os.path.join(root, "r%d" % i), "scenario", timeout=300, env=env, stall_s=15)
        print("run %d: rc=%s%s" % (i, r["rc"], " (driver silent for 15 s: hang)" if r["hung"] else ""))
        errs = []
        for b in real_builds(r["out"]):
            errs += enginelib.protocol_check(b)[0]
        if errs:
            bad += 1
            print("protocol:", errs[:5])
        if r["rc"] != 0 or "ThreadSanitizer" in r["err"] or any(l.startswith(("LATE-CALLBACK", "leftover")) for l in r["out"]):
            bad += 1
            print(r["err"][-3000:])
        if "scenario_a" in rp:
            a = run_variant(drv, rp["scenario_a"], os.path.join(root, "a%d" % i), "scenario", timeout=120, env=env)
            na = [norm_build(b) for b in real_builds(a["out"])]
            nb = [norm_build(b) for b in real_builds(r["out"])]
            if na != nb:
                bad += 1
                for x, y in zip(na, nb):
                    if x != y:
                        print("DIFFERENCE:", first_diff(x, y)); break
        if bad:
            break
    if bad:
        chk.violation(rp.get("finding_key", "replayed"), "replayed: %s" % rp.get("what"), dict(scenario=scen, variant=variant), found_input=True, broken=rp.get("broken"))
    chk.count(("replay", 0)); chk.count(("replay", 1))
    return chk.finish(level="proof", rule="replay of a recorded scenario")
