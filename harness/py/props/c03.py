# C03: build state survives restarts exactly (database transparency).
# Theorems: coq/Props/Properties_C03.v (dependency blob round trip, table round trip/frame, id maps inverse, version gate, lock,
#           restart simulation over the specification engine).
# Tie D: the extracted specification engine (with `restart` = memory := database) vs the real engine + real SQLite file; after
#        every build the database file is read back through a SECOND connection (`dbrow`/`dbepoch` lines of engine_driver) and
#        compared row by row with the model's database (values, signature, both epochs, dependency order and both flags).
# Oracle O (independent of the model): every history is run once in ONE engine and once with a process-like restart (new engine
#        + new database connection) inserted before every build: executions, reasons, results and database rows must be identical.
#        Key byte strings: NUL, non-UTF-8, numeric-looking, very long; (schema, client) version grid; lock held by another connection.
import os, random, sqlite3
import vlib, enginelib as E, enginechk as K

NUMERIC_LOOKING = [b"7", b"007", b" 7", b"7.0", b"1e3", b"1000", b"0x10", b"16", b"1.50", b"1.5", b"-0", b"0", b"12345678901234567890", b"+5", b"5",
                   b"", b"\x00", b"a\x00b", b"a", b"\xff\xfe", b"\xc3\x28", b"k1", b"K1", b"x" * 3000, b"x" * 3001, b"'", b"\"", b"%", b"_", b"a%", b"a_"]


def split_variant(lines):
    """Insert a restart before every build (a new engine instance over the same database)."""
    out = []
    for l in lines:
        if l.startswith("build") and out and out[-1] != "restart":
            out.append("restart")
        out.append(l)
    return out


def strip_restarts(lines):
    """One engine for the whole history: restarts kept only where a rule edit needs them (rule edits take effect at an engine instance)."""
    out = []
    pending_rule = False
    started = False
    for l in lines:
        if l.startswith("rule") and started:
            pending_rule = True
        if l == "restart":
            if pending_rule:
                out.append(l)
                pending_rule = False
            continue
        if l.startswith("build"):
            started = True
        out.append(l)
    return out


def events_only(builds):
    out = []
    for b in builds:
        if b["hdr"] == "restart":
            continue
        per = E.canon_build(b)
        out.append([x for x in per if not x.startswith("deps ")])   # in-memory dump depends on what the instance has loaded
    return out


def names_lines(rng, nkeys, pool):
    pool = sorted(set(pool))          # distinct spellings only: two keys with one name are one key
    names = rng.sample(pool, min(nkeys, len(pool)))
    return ["name %d %s" % (i, vlib.hx(nm) if nm else "-") for i, nm in enumerate(names)]


def one_history(chk, sess, L, tag, origin, named):
    base = strip_restarts(L)
    r1 = sess.run(base, tag + "-one")
    r2 = sess.run(split_variant(base), tag + "-split")
    for r in (r1, r2):
        if r["rc"] != 0:
            chk.violation("driver-crash", "engine_driver exited with status %s" % r["rc"], dict(scenario=base, stderr=r["err"][-1500:], origin=origin), found_input=True)
            return
    b1, b2 = K.parse_impl(r1["out"]), K.parse_impl(r2["out"])
    e1, e2 = events_only(b1), events_only(b2)
    if e1 != e2:
        i = next((i for i in range(min(len(e1), len(e2))) if e1[i] != e2[i]), min(len(e1), len(e2)))
        chk.violation("split-differs" + ("-named-keys" if named else ""),
                      "the same history behaves differently in one engine and split across engine restarts over the database (first difference at build %d)" % (i + 1),
                      dict(scenario=base, one_engine=e1[i] if i < len(e1) else None, split=e2[i] if i < len(e2) else None, origin=origin),
                      found_input=True, broken="database transparency on the implementation")
    # attach errors / db errors are never expected here
    for r in (r1, r2):
        er = [l for l in r["out"] if l.startswith(("attach-error", "dberror", "error "))]
        if er:
            chk.violation("db-error", "the database reported an error on a plain history: %s" % er[:2], dict(scenario=base, origin=origin), found_input=True)
    # model tie on the split run (restarts everywhere) and on the one-engine run
    for r, which in ((r1, "one"), (r2, "split")):
        mo = sess.model_run(r)
        a, b = E.canon_pair(r["out"], mo)
        if a != b:
            chk.violation("spec-correspondence-" + which, "the specification engine and the real engine + SQLite disagree (database rows included)",
                          dict(scenario=base, diff=K.diff_text(a, b), origin=origin), found_input=False,
                          broken="correspondence Spec.restart/st_db <-> SQLiteBuildDB (theorems of Properties_C03.v no longer tied to the code)")
            break
    nrows = sum(1 for l in r2["out"] if l.startswith("dbrow"))
    chk.count(("h", tag) if nrows > 6 else None, n=sum(1 for b in b2 if b["hdr"] != "restart"))


def failed_build_family(chk, sess, n):
    """Histories containing a cancelled build: executions may legitimately differ between one engine (interrupted rules are flagged
    and forced) and a restarted one (flags are not persisted), but every later successful build must return the same result in
    both - and the result a brand-new engine computes."""
    import props.c05 as c05
    for i in range(n):
        rng = random.Random(chk.rng.random())
        seed = rng.random()
        sched, cancel = c05.cancel_variants(rng, 1)[0]
        if sched.startswith("threads"):
            sched, cancel = "sync", "cancel=cb:%d" % rng.randint(0, 20)
        L = None
        for _ in range(20):
            L = c05.make_history(random.Random(seed), sched, cancel)
            if L[0] == "db 1":
                break
            seed = rng.random()
        if L is None or L[0] != "db 1":
            continue
        base = [l for l in strip_restarts(L)]
        for variant, lines in (("one", base), ("split", split_variant(base))):
            r = sess.run(lines, "fb-%s" % variant)
            if r["rc"] != 0:
                chk.violation("driver-crash", "engine_driver exited with status %s" % r["rc"], dict(scenario=lines, stderr=r["err"][-1500:]), found_input=True)
                break
            builds = [b for b in K.parse_impl(r["out"]) if b["hdr"] != "restart"]
            for b in builds:
                val, cancelled = K.result_value(b)
                if cancelled or b.get("fresh") is None or any(x.startswith("cycle") for x in b["other"]):
                    continue
                if val != b["fresh"]:
                    key = "stale-after-failed-build-" + variant
                    if c05.window_suspects_in(lines, r["out"]):
                        key = "discovered-window-" + variant
                    chk.violation(key, "after a cancelled build, %s: '%s' returned %s, a brand-new engine computes %s" % (
                        "in one engine" if variant == "one" else "across restarts over the database", b["hdr"], val, b["fresh"]),
                        dict(scenario=lines, implementation=r["out"]), found_input=True, broken="database transparency after a failed build")
            chk.count(("fb", i) if any("cancelled" in l for l in r["out"]) else None, n=len(builds))


def foreign_family(chk, sess, n):
    """Another tool with a DIFFERENT client schema version uses the same database file between two builds of a live engine: the live
    engine must never interpret what the other wrote (it recreates or is rejected), and what IT writes afterwards must be read back
    correctly by a later process (results equal a brand-new engine, no bogus cycle)."""
    for i in range(n):
        rng = random.Random(chk.rng.random())
        L = E.gen_history(rng, usedb=True, nops=(2, 6), sched=None, allow_rule_edits=False)
        keys = [int(l.split(" ")[1]) for l in L if l.startswith("rule")]
        out = [L[0], "schema 1"]
        nb = 0
        for l in L[1:]:
            out.append(l)
            if l.startswith("build") and rng.random() < 0.6:
                out.append("foreign %d %d %d" % (rng.choice([2, 3]), rng.choice([1, 1, 0]), rng.choice(keys)))
                out.append("build %d" % rng.choice(keys))
                if rng.random() < 0.7:
                    out.append("restart")
                    out.append("build %d" % rng.choice(keys))
        lines = K.with_fresh(out)
        r = sess.run(lines, "fg")
        if r["rc"] != 0:
            chk.violation("driver-crash", "engine_driver exited with status %s" % r["rc"], dict(scenario=lines, stderr=r["err"][-1500:]), found_input=True)
            continue
        for b in [b for b in K.parse_impl(r["out"]) if b["hdr"] != "restart"]:
            val, cancelled = K.result_value(b)
            cyc = [x for x in b["other"] if x.startswith("cycle")]
            if cyc:
                chk.violation("foreign-version-bogus-cycle", "after another client version used the database file, '%s' reports %s on an acyclic rule set" % (b["hdr"], cyc[0]),
                              dict(scenario=lines, implementation=r["out"]), found_input=True, broken="version gate / key-id mapping")
            elif b.get("fresh") is not None and val != b["fresh"]:
                chk.violation("foreign-version-stale", "after another client version used the database file, '%s' returned %s, a brand-new engine computes %s" % (b["hdr"], val, b["fresh"]),
                              dict(scenario=lines, implementation=r["out"]), found_input=True, broken="version gate: foreign rows interpreted")
        # rows written under the foreign version must never be served to the live engine: a key the live engine never built must be executed by it
        chk.count(("fg", i), n=sum(1 for l in r["out"] if l.startswith("build ")))
    # corpus: the live engine recreates the file but must not keep the key IDs of the old one (fixed: see KNOWN_FINDINGS)
    L = K.with_fresh(["db 1", "schema 1", "rule 0 sig=0 obs=1", "rule 4 sig=0 obs=0 req=0", "rule 5 sig=0 obs=0 req=0", "set 0 1", "build 4", "foreign 2 1 5", "build 5",
                      "restart", "set 0 2", "build 5", "build 4"])
    r = sess.run(L, "fgc")
    for b in [b for b in K.parse_impl(r["out"]) if b["hdr"] != "restart"]:
        val, _ = K.result_value(b)
        if any(x.startswith("cycle") for x in b["other"]) or (b.get("fresh") is not None and val != b["fresh"]):
            chk.violation("foreign-version-bogus-cycle", "corpus: after the database was recreated under a live engine '%s' fails or is stale (%s vs fresh %s)" % (b["hdr"], val, b.get("fresh")),
                          dict(scenario=L, implementation=r["out"]), found_input=True, broken="version gate / key-id mapping")
    # a key the OTHER version built must be executed (not served) by the live engine
    L = ["db 1", "schema 1", "rule 0 sig=0 obs=1", "rule 4 sig=0 obs=0 req=0", "rule 5 sig=0 obs=0 req=0", "set 0 1", "build 4", "foreign 2 1 5", "build 5"]
    for rec in (1, 0):
        LL = L[:2] + ["recreate %d" % rec] + L[2:]
        r = sess.run(LL, "fgc")
        last = [b for b in K.parse_impl(r["out"]) if b["hdr"] != "restart"][-1]
        ran5 = any(e == "create 5" for e in last["events"])
        errs = [l for l in r["out"] if l.startswith(("error", "attach-error"))]
        if not ran5 and not errs:
            chk.violation("foreign-version-interpreted", "the live engine (client schema 1, recreate=%d) returned key 5 without executing it after a client of schema 2 had stored it in the same file" % rec,
                          dict(scenario=LL, implementation=r["out"]), found_input=True, broken="version gate")
    chk.count(None, n=6)


def version_grid(chk, sess):
    """(schema, client) pairs: a database written under other versions is recreated empty or rejected, never interpreted."""
    rules = ["rule 0 sig=0 obs=1", "rule 1 sig=0 obs=0 req=0", "set 0 3"]
    grid = [1, 2, 7, 2 ** 31 - 1]
    n = 0
    for a in grid:
        for b in grid:
            for recreate in (1, 0):
                L = ["db 1", "schema %d" % a] + rules + ["build 1", "schema %d" % b, "recreate %d" % recreate, "restart", "build 1"]
                r = sess.run(L, "ver")
                builds = [x for x in K.parse_impl(r["out"]) if x["hdr"] != "restart"]
                n += 1
                second = builds[1] if len(builds) > 1 else None
                execs = [e for e in (second["events"] if second else []) if e.startswith("create")]
                att = [l for l in r["out"] if l.startswith("attach-error")]
                if a == b:
                    if execs or att:
                        chk.violation("version-same-not-used", "same schema version %d: the stored results were not used (%s %s)" % (a, execs, att), dict(scenario=L), found_input=True)
                elif recreate:
                    if len(execs) != 2 or att:
                        chk.violation("version-mismatch-interpreted", "client schema %d -> %d with recreate: expected an empty database (both rules re-run), got executions %s %s" % (a, b, execs, att),
                                      dict(scenario=L), found_input=True)
                    if second and second["epoch"] != 1:
                        chk.violation("version-recreate-epoch", "recreated database should restart at epoch 1, got %s" % second["epoch"], dict(scenario=L), found_input=True)
                else:
                    if not att:
                        chk.violation("version-mismatch-not-rejected", "client schema %d -> %d without recreate: attach must fail" % (a, b), dict(scenario=L), found_input=True)
                    # the file must be untouched: re-open with the old version and see a null build
                    L2 = ["db 2", "schema %d" % a] + rules + ["build 1"]
                    r2 = sess.run(L2, "ver", keepdb=True)
                    ex2 = [e for e in r2["out"] if e.startswith("create")]
                    if ex2:
                        chk.violation("version-reject-destroyed", "a rejected attach (schema %d vs %d) destroyed the stored results" % (a, b), dict(scenario=L, then=L2), found_input=True)
    # the LIBRARY's own schema version (info.version) as written by a newer or an older llbuild: never interpreted either
    for delta in (+1, +1000, -1):
        for recreate in (1, 0):
            L = ["db 1"] + rules + ["build 1"]
            r = sess.run(L, "libver")
            dbp = os.path.join(r["wd"], "build.db")
            try:
                con = sqlite3.connect(dbp, timeout=2, isolation_level=None)
                con.execute("UPDATE info SET version = version + %d" % delta)
                con.close()
            except sqlite3.Error as e:
                chk.notes["libver_tamper_error"] = repr(e)
                continue
            L2 = ["db 2", "recreate %d" % recreate] + rules + ["build 1"]
            r2 = sess.run(L2, "libver", keepdb=True)
            n += 1
            execs = [e for e in r2["out"] if e.startswith("create")]
            att = [l for l in r2["out"] if l.startswith("attach-error")]
            rp = dict(scenario=L, tamper="UPDATE info SET version = version + %d" % delta, then=L2, implementation=r2["out"][-30:])
            if recreate and (len(execs) != 2 or att):
                chk.violation("library-version-mismatch-interpreted", "a database stamped with library schema version %+d relative to this llbuild, opened with recreate: expected an empty database "
                              "(both rules re-run), got executions %s %s" % (delta, execs, att), rp, found_input=True)
            if not recreate and not att:
                chk.violation("library-version-mismatch-not-rejected", "a database stamped with library schema version %+d relative to this llbuild, opened without recreate: attach must fail" % delta,
                              rp, found_input=True)
    chk.count(None, n=n)
    return n


def lock_check(chk, sess):
    """A second writer cannot write while another connection holds the database."""
    L = ["db 1", "rule 0 sig=0 obs=1", "set 0 3", "build 0"]
    r = sess.run(L, "lock")
    dbp = os.path.join(r["wd"], "build.db")
    con = sqlite3.connect(dbp, timeout=0.1, isolation_level=None)
    con.execute("BEGIN EXCLUSIVE")
    try:
        L2 = ["db 2", "rule 0 sig=0 obs=1", "set 0 4", "build 0"]
        r2 = sess.run(L2, "lock", keepdb=True, timeout=60)
        res = [l for l in r2["out"] if l.startswith("result")]
        errs = [l for l in r2["out"] if l.startswith(("error", "attach-error"))]
        if not errs or (res and not res[0].startswith("result EMPTY")):
            chk.violation("lock-not-exclusive", "an engine built while another connection held the database exclusively: %s %s" % (res, errs), dict(scenario=L2), found_input=True)
    finally:
        con.execute("ROLLBACK")
        con.close()
    r3 = sess.run(["db 2", "rule 0 sig=0 obs=1", "set 0 3", "build 0"], "lock", keepdb=True)
    if any(l.startswith("create") for l in r3["out"]):
        chk.violation("lock-corrupts", "after a refused build the stored result was lost", dict(scenario=L), found_input=True)
    chk.count(None, n=3)


def run(chk):
    sess = K.Session(chk)
    chk.proof_gate()
    n = chk.n(60, 3000)
    # corpus first: numeric-looking keys as rule keys and as dependencies (fixed 61b11d1)
    one_history(chk, sess, ["db 1", "name 0 37", "name 1 303037", "rule 0 sig=0 obs=1", "rule 1 sig=0 obs=1", "rule 2 sig=1 obs=0 req=0,1",
                            "set 0 1", "set 1 1", "build 2", "set 1 4", "build 2"], "corpus0", "corpus", True)
    for i in range(n):
        rng = random.Random(chk.rng.random())
        L = E.gen_history(rng, usedb=True, nops=(3, 12), sched=None)
        named = i % 2 == 0
        if named:
            nk = 1 + max(int(l.split(" ")[1]) for l in L if l.startswith("rule"))
            pool = NUMERIC_LOOKING + [bytes(rng.randrange(256) for _ in range(rng.randint(1, 12))) for _ in range(8)]
            L = [L[0]] + names_lines(rng, nk, pool) + L[1:]
            # large stamps: values with arbitrary bytes in all 8 positions
            L = [("set %s %d" % (l.split(" ")[1], rng.getrandbits(64)) if l.startswith("set") and rng.random() < 0.3 else l) for l in L]
        one_history(chk, sess, L, "h%d" % (i % 30), "seed=%d index=%d" % (chk.seed, i), named)
        if i < 2:
            chk.sample("\n".join(L[:14])[:900])
    failed_build_family(chk, sess, chk.n(30, 800))
    foreign_family(chk, sess, chk.n(25, 600))
    # corpus: the iteration must be persisted by a failed build too (see c05 corpus "iteration-persisted")
    for n in range(0, 16):
        L = K.with_fresh(["db 1", "rule 0 sig=0 obs=1", "rule 4 sig=0 obs=0 req=0", "rule 5 sig=0 obs=0 req=4", "rule 7 sig=0 obs=0 req=5", "set 0 1", "build 7", "set 0 2",
                          "build 7 sched=sync cancel=cb:%d" % n, "restart", "set 0 3", "build 7", "build 5"])
        r = sess.run(L, "fbc")
        for b in [b for b in K.parse_impl(r["out"]) if b["hdr"] != "restart"]:
            val, cancelled = K.result_value(b)
            if not cancelled and b.get("fresh") is not None and val != b["fresh"]:
                chk.violation("stale-after-failed-build-split", "after a cancelled build and a restart over the database '%s' returned %s, a brand-new engine computes %s" % (b["hdr"], val, b["fresh"]),
                              dict(scenario=L, implementation=r["out"]), found_input=True, broken="database transparency after a failed build")
        chk.count(None, n=4)
    ng = version_grid(chk, sess)
    lock_check(chk, sess)
    sess.close()
    return chk.finish(level="proof",
                      rule="one evaluation = one build of a history run both in one engine and split by restarts, database read back through a second connection; non-trivial = history with more than 6 stored rows",
                      extra=dict(version_pairs=ng, key_shapes=len(NUMERIC_LOOKING), traces_validated_against_impl=2 * n),
                      trusted=["hand-written model (Spec.restart, DbTables, DepBlob) tied by differential execution only", "engine_driver.cpp incl. its independent SQLite reader",
                               "SQLite itself (type affinity, locking, journaling) is exercised, not modelled", "values are 16-byte payload/stamp pairs (arbitrary 64-bit stamps), keys arbitrary byte strings"])


def replay(chk, rp):
    sess = K.Session(chk)
    one_history(chk, sess, rp["scenario"], "replay", "replay", True)
    sess.close()
    return chk.finish(level="proof", rule="replay of one history")
