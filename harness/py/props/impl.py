# impl (P19): the small-step model of the engine loop, coq/Engine/Impl.v (deepens C02, C06, C07).
# Theorems: coq/Props/Properties_impl.v, for ALL rule sets, schedules and states of a build (any sequence of the loop's steps):
#           impl_loop_iteration_steps (the loop is such a sequence), impl_state_monotone, impl_at_most_once (C02: one createTask and one
#           inputsAvailable per key and build), impl_no_fault (no assert of the code fails), impl_waitcount (the waitCount identity),
#           impl_inputs_available_at_zero, impl_protocol_partial (C06 automaton, request multiset = provided slots),
#           impl_stall_no_dead_end + impl_edges_real (C07), impl_done_quiescent / impl_build_done_quiescent (repaired stall test);
#           refuted with vm_compute witnesses: impl_stall_no_dead_end_refuted (empty cycle list, known C07 finding),
#           impl_done_quiescent_v0_refuted (stall test before e39d106).
# Tie D (exact interleaving): every generated history is run on the REAL core::BuildEngine (harness/cpp/engine_driver.cpp, with
#        VERIF_ITER_MARKS=1 so that the trace carries `iter <n>` at the top of every loop iteration and `wait` where the engine
#        would block) and on the extracted Impl model (ocaml/vmodel_impl.ml).  The two outputs must be IDENTICAL LINE BY LINE:
#        the interleaved callback order, the iteration boundaries, the wait points, the recorded dependency ORDER (deps / dbrow
#        lines; no order oracle: Impl predicts it), which rules are loaded, the wait-for graph and the reported cycle.
#        sync builds take nothing from the trace; for defer/mixed builds only WHICH tasks complete at WHICH hook is read from it.
# Oracle O (independent of the model): the per-task protocol automaton of enginelib.protocol_check on the implementation trace
#        (create at most once per build, start/prior/provide/avail/complete order, inputsAvailable exactly once).
import os, random, time
import vlib, enginelib as E, enginechk as K

SCHEDS = [None, lambda r: "defer:%d" % r.randint(0, 999), lambda r: "mixed:%d" % r.randint(0, 999)]
ENV = dict(os.environ, VERIF_ITER_MARKS="1")
TMP = os.path.join(vlib.WORK, "tmp", "impl")      # per-check sub-directory is added in Sess


def gen_cyclic(rng, sched=None):
    """A layered rule set with back edges (in any role, possibly added by a later rule edit + restart), several builds."""
    usedb = rng.random() < 0.5
    ni, n, rules = E.gen_rules(rng, nmin=5, nmax=10, dup_single=usedb)

    def back():
        i = rng.randrange(ni, n)
        j = rng.randrange(i, n)
        r = dict(rules[i])
        f = rng.choice(["req", "single", "follow", "disc", "br"])
        if f == "br":
            if r.get("req"):
                s, a, b = r.get("br", (rng.randrange(len(r["req"])), [], []))
                r["br"] = (s, a + [j], b) if rng.random() < 0.5 else (s, a, b + [j])
            else:
                r["req"] = [j]
        else:
            r[f] = list(r.get(f, [])) + [j]
        rules[i] = r
        return i
    L = ["db %d" % (1 if usedb else 0)]
    if rng.random() < 0.5:
        for _ in range(rng.randint(1, 2)):
            back()
    for k in sorted(rules):
        L.append(E.rule_line(k, rules[k]))
    obs = [k for k in rules if rules[k].get("obs")]
    for k in obs:
        L.append("set %d %d" % (k, rng.randint(0, 5)))

    def b():
        return "build %d%s" % (rng.randrange(ni, n), (" sched=" + sched(rng)) if sched else "")
    for _ in range(rng.randint(1, 3)):
        L.append(b())
    for _ in range(rng.randint(1, 3)):
        x = rng.random()
        if x < 0.4:
            i = back()
            if rng.random() < 0.5:
                rules[i]["sig"] = rules[i].get("sig", 0) + 1
            L.append(E.rule_line(i, rules[i]))
            L.append("restart")
        elif x < 0.7:
            L.append("set %d %d" % (rng.choice(obs), rng.randint(0, 5)))
        for _ in range(rng.randint(1, 2)):
            L.append(b())
    return L


class Sess:
    def __init__(self, chk):
        self.chk = chk
        self.drv = vlib.build_drivers(["engine_driver"])["engine_driver"]
        self.model = E.Model("impl")

    def close(self):
        self.model.close()


def one_history(chk, sess, lines, tag, origin, expect=None):
    wd = os.path.join(TMP, chk.pid.lower(), tag)
    for attempt in range(6):
        try:
            rc, out, err, sp, tp = E.run_impl(sess.drv, lines, wd, env=ENV)
            break
        except (PermissionError, OSError):
            # another check is relinking the shared driver binary at this moment: wait for it
            if attempt == 5:
                raise
            time.sleep(5)
    if rc != 0:
        chk.violation("driver-crash", "engine_driver exited with status %s" % rc, dict(scenario=lines, stderr=err[-2000:], origin=origin), found_input=True,
                      broken="memory safety of the engine across builds (e.g. rules left IsScanning by a build that returned success)")
        return False
    if expect is not None:
        got = ["fail" if (b["result"] or "").startswith("result EMPTY") else "ok" for b in E.split_builds(out) if b["hdr"] != "restart"]
        if got != expect:
            chk.violation("stale-scan-after-success", "a build succeeded although a rule reached through a discovered dependency was left scanning "
                          "(expected build outcomes %s, got %s)" % (expect, got), dict(scenario=lines, implementation=out, origin=origin), found_input=True,
                          broken="executeTasks stall test (every scanning rule must be seen)")
            return False
    # oracle O on the implementation alone
    bad = []
    for b in E.split_builds(out):
        if b["hdr"] != "restart":
            errs, _ = E.protocol_check(b)
            bad += errs
    if bad:
        chk.violation("protocol", "the per-task protocol is violated on the real engine: %s" % bad[:3],
                      dict(scenario=lines, implementation=out, origin=origin), found_input=True, broken="task protocol / at-most-once on the implementation")
        return False
    mo = sess.model.run(sp, tp)
    nexec = sum(1 for x in out if x.startswith("create "))
    ncyc = sum(1 for x in out if x.startswith("cycle"))
    nwait = sum(1 for x in out if x == "wait")
    if any(x == "cycle" for x in out):
        chk.notes["empty_cycle_reports (known C07 finding disc-cycle-empty-list, reproduced by the model)"] = \
            chk.notes.get("empty_cycle_reports (known C07 finding disc-cycle-empty-list, reproduced by the model)", 0) + 1
    if out != mo and search_schedules(chk, sess, lines, tag, origin):
        return False
    if out != mo:
        chk.violation("impl-correspondence", "the small-step model Impl and the real engine disagree on the exact event interleaving, the iteration "
                      "boundaries, the recorded dependency order or the wait-for graph (the protocol oracle found nothing wrong on the implementation)",
                      dict(scenario=lines, diff=K.diff_text(out, mo), origin=origin), found_input=False,
                      broken="correspondence Impl.loop_iteration <-> BuildEngineImpl::executeTasks (theorems of Properties_impl.v no longer tied to the code)")
        return False
    chk.notes["iterations_compared"] = chk.notes.get("iterations_compared", 0) + sum(1 for x in out if x.startswith("iter "))
    chk.notes["cycle_reports_compared"] = chk.notes.get("cycle_reports_compared", 0) + ncyc
    chk.notes["blocking_waits_compared"] = chk.notes.get("blocking_waits_compared", 0) + nwait
    chk.count((tag.rstrip("0123456789"), nexec, ncyc, nwait > 0) if nexec > 3 else None, n=max(1, nexec))
    return True


def _summary(out):
    """Per build: (result, executed keys, completed values) - what no schedule may change; None from the first build that reports a cycle on."""
    res = []
    for b in E.split_builds(out):
        if b["hdr"] == "restart":
            continue
        if any(x.startswith("cycle") for x in b["other"]):
            break
        ex = sorted(int(l.split(" ")[1]) for l in b["events"] if l.startswith("create "))
        vals = sorted((int(l.split(" ")[1]), l.split(" ")[2]) for l in b["events"] if l.startswith("complete "))
        res.append(((b["result"] or "").split(" ")[1:2], ex, vals))
    return res


def search_schedules(chk, sess, lines, tag, origin):
    """Model and engine disagree on this history: look for a concrete failing input by running the SAME history under other completion
    schedules on the real engine: (a) the reasons oracle of C02 (shadow epochs) on each run, (b) results, executed rules and completed
    values must not depend on the schedule (up to the first build that ends in a cycle report)."""
    import re
    variants = [None, "defer:1", "defer:2", "defer:7", "defer:31", "mixed:3", "mixed:11", "mixed:5", "defer:100", "mixed:77"]
    base = None
    for i, v in enumerate(variants):
        L = []
        for l in lines:
            if l.startswith("build "):
                l = re.sub(r" sched=\S+", "", l)
                if v:
                    l += " sched=" + v
            L.append(l)
        try:
            rc, out, err, sp, tp = E.run_impl(sess.drv, L, os.path.join(TMP, chk.pid.lower(), tag + "-sched"))
        except OSError:
            continue
        if rc != 0:
            continue
        bad = K.oracle_c02(L, K.parse_impl(out))
        if bad:
            chk.violation(bad[0][0], bad[0][1], dict(scenario=L, implementation=out, origin=origin + " (found by re-running a history on which the small-step model and the engine disagreed)"),
                          found_input=True, broken="reasons oracle on the implementation")
            return True
        sm = _summary(out)
        if base is None:
            base = (L, sm, out)
            continue
        n = min(len(sm), len(base[1]))
        if sm[:n] != base[1][:n]:
            j = next(x for x in range(n) if sm[x] != base[1][x])
            chk.violation("schedule-dependent-outcome", "the same history gives different results / executed rules / values under two completion schedules "
                          "(build %d: %s vs %s)" % (j + 1, base[1][j], sm[j]),
                          dict(scenario=L, other_scenario=base[0], implementation=out, other_implementation=base[2], origin=origin), found_input=True,
                          broken="schedule independence on the implementation")
            return True
    return False


CORPUS = [
    # the root completes, then its DISCOVERED dependency (a derived key that follows itself) stalls: empty cycle list (Impl reproduces it;
    # ImplProofs: impl_stall_no_dead_end_refuted)
    ["db 0", "rule 1 sig=0 obs=1", "rule 2 sig=2 obs=0 req=1", "rule 4 sig=3 obs=0 req=2 disc=5", "rule 5 sig=0 obs=1 req=4 follow=5", "set 1 0", "set 5 4", "build 4", "build 2"],
    # scan-only cycle among recorded dependencies after a rule edit + restart over the database
    ["db 1", "rule 0 sig=0 obs=1", "rule 1 sig=0 obs=0 req=0", "rule 2 sig=0 obs=0 req=1", "set 0 1", "build 2", "rule 1 sig=0 obs=0 req=0 disc=2", "restart", "build 2", "set 0 2",
     "restart", "build 2", "build 2"],
    ["db 0", "rule 0 sig=0 obs=1", "rule 1 sig=0 obs=1", "rule 2 sig=1 obs=0 req=0,1", "rule 3 sig=1 obs=0 req=2 follow=1 br=0:0:1 disc=0", "rule 4 sig=2 obs=0 req=3,2 single=1 ord=srf",
     "set 0 1", "set 1 2", "build 4", "set 0 2", "build 4", "build 4 sched=defer:3", "set 1 5", "build 4 sched=defer:3", "set 0 7", "build 4 sched=mixed:5"],
]


# fixed e39d106: scan cycle 2 <-> 3 among recorded dependencies, reached only through the discovered dependency of the completed root 5: the build
# of 5 used to SUCCEED leaving 2 and 3 IsScanning (their scan records freed), and the next build of 2 crashed (Impl: ibuild_v0, impl_done_quiescent_v0_refuted)
STALE_SCAN = ["db 1", "rule 0 sig=0 obs=1", "rule 2 sig=0 obs=0 req=3", "rule 3 sig=0 obs=0 req=0 disc=2", "rule 5 sig=0 obs=1 disc=2", "set 0 1", "set 5 1",
              "build 2", "build 5", "build 2", "build 3"]


def phase(chk, families, nhist=None, ncyc=None):
    """The exact-interleaving tie of the small-step model, run as a phase of C02 / C06 / C07 (whose proof gates include Properties_impl.v):
    families is a subset of {"corpus", "hist", "cyclic"}."""
    sess = Sess(chk)
    # The tie: ACCEPTANCE (default) - the observed trace of the real engine must be the log of SOME run of the model's general step relation
    # msteps_gen (any queue discipline, any completion order), searched with the extracted enumerator enabled_gen (props/implacc.py); the theorems of
    # Properties_impl.v are stated over exactly those runs.  VERIF_IMPL_TIE=exact selects the older, stronger-than-needed tie: identical output of
    # the model's own deterministic loop and the engine (breaks on any change of a queue discipline).
    if os.environ.get("VERIF_IMPL_TIE", "accept") != "exact":
        from props import implacc
        one = implacc.accept_history
        chk.cov["impl_tie"] = "acceptance (msteps_gen run exists)"
    else:
        one = one_history
        chk.cov["impl_tie"] = "exact (identical to the model's own loop)"
    if "corpus" in families:
        one(chk, sess, STALE_SCAN, "stale-scan", "corpus", expect=["ok", "fail", "fail", "fail"])
        one(chk, sess, ["db 0"] + STALE_SCAN[1:], "stale-scan-nodb", "corpus", expect=["ok", "fail", "fail", "fail"])
        for i, L in enumerate(CORPUS):
            one(chk, sess, L, "corpus%d" % i, "corpus")
    if "hist" in families:
        for i in range(nhist if nhist is not None else chk.n(100, 3000)):
            rng = random.Random(chk.rng.random())
            sc = None if i % 2 == 0 else SCHEDS[1 + (i // 2) % 2]
            L = E.gen_history(rng, sched=sc, nops=(3, 12))
            one(chk, sess, L, "%s%d" % ("sync" if sc is None else "defer", i % 40), "impl gen_history seed=%d index=%d" % (chk.seed, i))
    if "cyclic" in families:
        for i in range(ncyc if ncyc is not None else chk.n(80, 3000)):
            rng = random.Random(chk.rng.random())
            L = gen_cyclic(rng, SCHEDS[i % 3])
            one(chk, sess, L, "cyc%d" % (i % 40), "impl gen_cyclic seed=%d index=%d" % (chk.seed, i))
    try:
        from props import implacc as _ia
        _ia.acc_close(sess)
    except Exception:
        pass
    sess.close()
    chk.cov["impl_phase"] = "small-step model Engine/Impl.v vs the real engine, identical line by line (families: %s)" % ", ".join(sorted(families))


def run(chk):
    sess = Sess(chk)
    chk.proof_gate()
    one_history(chk, sess, STALE_SCAN, "stale-scan", "corpus", expect=["ok", "fail", "fail", "fail"])
    one_history(chk, sess, ["db 0"] + STALE_SCAN[1:], "stale-scan-nodb", "corpus", expect=["ok", "fail", "fail", "fail"])
    for i, L in enumerate(CORPUS):
        one_history(chk, sess, L, "corpus%d" % i, "corpus")
    n = chk.n(150, 6000)
    # the required family: sync histories of enginelib.gen_history (no cancellation); then deferred schedules
    for i in range(n):
        rng = random.Random(chk.rng.random())
        sc = None if i % 2 == 0 else SCHEDS[1 + (i // 2) % 2]
        L = E.gen_history(rng, sched=sc, nops=(3, 12))
        one_history(chk, sess, L, "%s%d" % ("sync" if sc is None else "defer", i % 40), "gen_history seed=%d index=%d" % (chk.seed, i))
        if i < 2:
            chk.sample("\n".join(L[:14]))
    # cyclic rule sets: stall, wait-for graph, reported cycle, the engine after a failed build
    for i in range(chk.n(80, 3000)):
        rng = random.Random(chk.rng.random())
        L = gen_cyclic(rng, SCHEDS[i % 3])
        one_history(chk, sess, L, "cyc%d" % (i % 40), "gen_cyclic seed=%d index=%d" % (chk.seed, i))
        if i < 1:
            chk.sample("\n".join(L[:14]))
    sess.close()
    return chk.finish(level="proof",
                      rule="one evaluation = one rule execution of a generated history whose complete output (events, iteration and wait markers, deps, db rows, "
                           "wait-for graph, cycle) is identical on the real engine and on the extracted Impl model; non-trivial = history with more than 3 executions",
                      trusted=["hand-written model coq/Engine/Impl.v tied by exact differential execution only", "engine_driver.cpp (task DSL, hook markers)",
                               "ocaml/vmodel_impl.ml (scenario interpreter, schedule extraction from the markers)", "extraction via ExtrOcamlBasic only",
                               "cancellation is not modelled"])


def replay(chk, rp):
    sess = Sess(chk)
    one_history(chk, sess, rp["scenario"], "replay", "replay")
    sess.close()
    return chk.finish(level="proof", rule="replay of one history")
