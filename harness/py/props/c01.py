# C01: incremental build result equals a from-scratch build; inputs handed to tasks are current.
# Theorems: coq/Props/Properties_C01.v over the specification engine (coq/Engine/Spec.v).
# Tie D: the extracted specification engine vs the real core::BuildEngine on generated histories (canonical observations,
#        database rows included; the recorded dependency ORDER is adopted from the implementation - acceptance).
# Oracle O: after every build the driver builds the same key in a brand-new real engine without database (`fresh`) and
#        the two real results - and every value handed to a task - must agree.
import os, random, zlib
import vlib, enginelib as E, enginechk as K

SCHEDS = [None, lambda r: "defer:%d" % r.randint(0, 999), lambda r: "mixed:%d" % r.randint(0, 999)]


def one_history(chk, sess, lines, tag, origin, model=True):
    """Runs one history on both sides; reports violations. Returns True if everything agreed."""
    lines = K.with_fresh(lines)
    r = sess.run(lines, tag)
    ok = True
    if r["rc"] != 0:
        chk.violation("driver-crash", "engine_driver exited with status %s (crash or hang of the real engine)" % r["rc"],
                      dict(scenario=lines, stderr=r["err"][-2000:], origin=origin), found_input=True)
        return False
    builds = K.parse_impl(r["out"])
    bad = K.oracle_c01(builds)
    if bad:
        ok = False
        def still(cand):
            rr = sess.run(cand, tag + "-shrink")
            return rr["rc"] == 0 and any(k == bad[0][0] for k, _ in K.oracle_c01(K.parse_impl(rr["out"])))
        small = K.shrink(lines, still)
        rr = sess.run(small, tag + "-min")
        chk.violation(bad[0][0], bad[0][1], dict(scenario=small, original_scenario=lines, implementation=rr["out"], oracle="fresh engine", origin=origin),
                      found_input=True, broken="incremental == fresh on the implementation")
    if not model:
        chk.count(None, n=sum(1 for x in builds if x["hdr"] != "restart"))
        return ok
    mo = sess.model_run(r)
    a, b = E.canon_pair(r["out"], mo)
    if a != b:
        ok = False
        if not bad:
            found = search_failing(chk, sess, lines, tag, origin)
        if not bad and not found:
            chk.violation("spec-correspondence", "the specification engine and the real engine disagree on canonical observations (no stale result observed on the implementation)",
                          dict(scenario=lines, diff=K.diff_text(a, b), origin=origin), found_input=False,
                          broken="correspondence Spec.ensure <-> BuildEngine (theorems of Properties_C01.v no longer tied to the code)")
    # the model's own fresh values must equal the implementation's fresh-engine values (ties cv to a real fresh engine)
    mf = [l for l in mo if l.startswith("fresh ")]
    imf = [l for l in r["out"] if l.startswith("fresh ")]
    cyc = any(l.startswith("cycle") for l in r["out"])
    if mf != imf and not cyc and ok:
        ok = False
        chk.violation("cv-correspondence", "the model's clean value cv differs from what a brand-new real engine computes",
                      dict(scenario=lines, model=mf, implementation=imf, origin=origin), found_input=False, broken="correspondence Spec.cv <-> fresh BuildEngine")
    nb = sum(1 for x in builds if x["hdr"] != "restart")
    nexec = sum(1 for x in r["out"] if x.startswith("create "))
    chk.count(("h", tag) if nexec > 3 else None, n=nb)
    return ok


def search_failing(chk, sess, lines, tag, origin, tries=24):
    """The model and the engine disagree on this history but no stale result was seen: look for a continuation on which the
    disagreement becomes a property failure. Continuations: optional null builds, change of every observed input (or of a random
    subset), optional restart over the database, then builds of every key in random order - each judged by the fresh-engine oracle."""
    base = [l for l in lines if not l.startswith("fresh ")]
    keys, obs = [], []
    for l in base:
        t = l.split(" ")
        if t[0] == "rule":
            k = int(t[1])
            if k not in keys:
                keys.append(k)
            if "obs=1" in t and k not in obs:
                obs.append(k)
            for a in t[2:]:
                if "=" in a and a.split("=")[0] in ("req", "single", "follow", "disc"):
                    for x in a.split("=")[1].split(","):
                        if x and int(x) not in keys:
                            keys.append(int(x))
    undefined = [k for k in keys if not any(l.startswith("rule %d " % k) for l in base)]
    obs += [k for k in undefined if k not in obs]          # the driver's default rule observes its environment entry
    usedb = base[0] != "db 0"
    rng = random.Random(zlib.crc32("\n".join(base).encode()))
    for i in range(tries):
        tail = []
        for k in rng.sample(keys, rng.randint(0, min(2, len(keys)))):
            tail.append("build %d" % k)                       # builds that only scan
        chg = obs if i % 2 == 0 else rng.sample(obs, rng.randint(1, len(obs))) if obs else []
        for k in chg:
            tail.append("set %d %d" % (k, 1000 + i))
        if usedb and rng.random() < 0.3:
            tail.append("restart")
        order = list(keys)
        rng.shuffle(order)
        tail += ["build %d" % k for k in order]
        cand = K.with_fresh(base + tail)
        r = sess.run(cand, tag + "-search")
        if r["rc"] != 0:
            continue
        bad = K.oracle_c01(K.parse_impl(r["out"]))
        if bad:
            def still(c2):
                rr = sess.run(c2, tag + "-shrink")
                return rr["rc"] == 0 and any(k == bad[0][0] for k, _ in K.oracle_c01(K.parse_impl(rr["out"])))
            small = K.shrink(cand, still)
            rr = sess.run(small, tag + "-min")
            chk.violation(bad[0][0], bad[0][1], dict(scenario=small, original_scenario=cand, implementation=rr["out"], oracle="fresh engine",
                                                     origin=origin + " (found by continuing a history on which model and engine disagreed)"),
                          found_input=True, broken="incremental == fresh on the implementation")
            return True
    return False


def corpus():
    """Minimised histories that once failed (regression inputs run first)."""
    out = []
    # (kept as scenario text; see KNOWN_FINDINGS.txt 'fixed' entries)
    # numeric-looking key names aliasing in the database (fixed 61b11d1): R requests keys named "7" and "007"
    # single-use / must-follow / value requests CALLED in every order: when the single-use entry is cleaned at the next scan the remaining
    # entries must keep their own flags (a value edge that inherits "order-only" is never compared again: stale for ever)
    for ordr in ("rsf", "rfs", "srf", "sfr", "frs", "fsr"):
        for usedb in (0, 1):
            out.append(["db %d" % usedb, "rule 0 sig=0 obs=1", "rule 1 sig=0 obs=1", "rule 2 sig=0 obs=1", "rule 4 sig=0 obs=0 req=2 single=0 follow=1 ord=%s" % ordr,
                        "rule 5 sig=0 obs=0 req=4", "set 0 1", "set 1 1", "set 2 1", "build 5", "set 2 2", "build 5", "set 2 3"] + (["restart"] if usedb else []) +
                       ["build 5", "set 1 2", "build 5", "set 2 4", "build 4"])
    # a build that FAILS on a cycle after it has already brought another key up to date still consumes its epoch: the next build on the same engine
    # must validate that key again (its input changed meanwhile)
    # (oracle only: the specification engine does not flag in-progress rules at a cycle failure - documented infidelity - so the histories carry "#nomodel")
    for usedb in (0, 1):
        out.append(["#nomodel", "db %d" % usedb, "rule 0 sig=0 obs=1", "rule 1 sig=0 obs=0 req=0", "rule 2 sig=0 obs=0 req=3", "rule 3 sig=0 obs=0 req=2", "rule 4 sig=0 obs=0 req=1,2",
                    "set 0 1", "build 1", "set 0 2", "build 4", "set 0 3", "build 1", "build 4", "set 0 4", "build 1"])
    out.append(["db 1", "name 0 37", "name 1 303037", "rule 0 sig=0 obs=1", "rule 1 sig=0 obs=1", "rule 2 sig=1 obs=0 req=0,1",
                "set 0 1", "set 1 1", "build 2", "restart", "set 1 4", "build 2"])
    return out


def failed_build_family(chk, sess, n):
    """Histories with an earlier FAILED (cancelled) build, in one engine or continued by a new engine over the database: every later
    successful build must still equal a brand-new engine (oracle only: the cancelled build itself is schedule dependent; see C05)."""
    import props.c05 as c05
    for i in range(n):
        rng = random.Random(chk.rng.random())
        seed = rng.random()
        for sched, cancel in c05.cancel_variants(rng, 2):
            if sched.startswith("threads"):
                continue
            L = c05.make_history(random.Random(seed), sched, cancel)
            r = sess.run(L, "fb%d" % (i % 20))
            if r["rc"] != 0:
                chk.violation("driver-crash", "engine_driver exited with status %s" % r["rc"], dict(scenario=L, stderr=r["err"][-1500:]), found_input=True)
                continue
            bad = K.oracle_c01(K.parse_impl(r["out"]))
            if bad:
                key = bad[0][0] + ("-after-failed-build" if not c05.window_suspects_in(L, r["out"]) else "-discovered-window")
                chk.violation(key, bad[0][1], dict(scenario=L, implementation=r["out"], oracle="fresh engine"), found_input=True,
                              broken="incremental == fresh after a failed build")
            chk.count(("fb", i) if any("cancelled" in l for l in r["out"]) else None, n=sum(1 for l in r["out"] if l.startswith("build ")))


def drain_completions(chk, sess):
    """Completions arriving while the engine drains a cancellation (see c05.drain_family): every later build must equal a brand-new engine."""
    import props.c05 as c05
    def go(L, tag, origin):
        r = sess.run(L, tag)
        if r["rc"] != 0:
            chk.violation("driver-crash", "engine_driver exited with status %s" % r["rc"], dict(scenario=L, stderr=r["err"][-1500:], origin=origin), found_input=True)
            return
        bad = K.oracle_c01(K.parse_impl(r["out"]))
        if bad and not c05.window_suspects_in(L, r["out"]):
            chk.violation(bad[0][0] + "-after-failed-build", bad[0][1], dict(scenario=L, implementation=r["out"], oracle="fresh engine", origin=origin), found_input=True,
                          broken="incremental == fresh after a failed build")
        chk.count(("drain", tag, origin) if any("cancelled" in l for l in r["out"]) else None, n=sum(1 for l in r["out"] if l.startswith("build ")))
    c05.drain_family(go)


def run(chk):
    sess = K.Session(chk)
    pr = chk.proof_gate()
    n = chk.n(150, 6000)
    failed_build_family(chk, sess, chk.n(25, 800))
    drain_completions(chk, sess)
    for nn in range(0, 14):        # corpus: a failed build must persist its iteration (stale for ever after a restart otherwise)
        one_history(chk, sess, ["db 1", "rule 0 sig=0 obs=1", "rule 4 sig=0 obs=0 req=0", "rule 5 sig=0 obs=0 req=4", "rule 7 sig=0 obs=0 req=5", "set 0 1", "build 7", "set 0 2",
                                "build 7 sched=sync cancel=cb:%d" % nn, "restart", "set 0 3", "build 7", "build 5"], "corpus-fb", "corpus iteration-persisted", model=False)
    stats = dict(histories=0, with_db=0, with_restart=0, with_rule_edit=0, sched={})
    for i, L in enumerate(corpus()):
        one_history(chk, sess, [l for l in L if l != "#nomodel"], "corpus%d" % i, "corpus", model=("#nomodel" not in L))
    for i in range(n):
        rng = random.Random(chk.rng.random())
        sc = SCHEDS[i % len(SCHEDS)]
        L = E.gen_history(rng, sched=sc, nops=(3, 12))
        stats["histories"] += 1
        stats["with_db"] += L[0] == "db 1"
        stats["with_restart"] += any(x == "restart" for x in L)
        stats["with_rule_edit"] += sum(1 for x in L if x.startswith("rule")) > sum(1 for x in L[:L.index([y for y in L if y.startswith("set")][0])] if x.startswith("rule"))
        stats["sched"][("sync", "defer", "mixed")[i % 3]] = stats["sched"].get(("sync", "defer", "mixed")[i % 3], 0) + 1
        one_history(chk, sess, L, "h%d" % (i % 40), "seed=%d index=%d" % (chk.seed, i))
        if i < 3:
            chk.sample("\n".join(L[:12]))
    sess.close()
    return chk.finish(level="proof",
                      rule="one evaluation = one build of a generated history executed on the real engine, compared with the extracted specification engine and with a fresh real engine; non-trivial = history with more than 3 task executions",
                      extra=dict(input_distribution=stats, traces_validated_against_impl=stats["histories"]),
                      trusted=["hand-written model coq/Engine/Spec.v tied by differential execution only", "engine_driver.cpp (rule DSL interpreter on the real TaskInterface)",
                               "extraction via ExtrOcamlBasic only", "dependency ORDER adopted from the implementation (order oracle; theorems quantify over all oracles)"])


def replay(chk, rp):
    sess = K.Session(chk)
    ok = one_history(chk, sess, [l for l in rp["scenario"] if not l.startswith("fresh ")], "replay", "replay")
    sess.close()
    return chk.finish(level="proof", rule="replay of one history")
