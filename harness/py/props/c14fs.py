# C14, file-system side: LocalFileSystem::remove on real trees with symbolic links (phase called from c14.py:run)
#   (D) model (coq/Path/FsRemove.v, extracted) == implementation (harness/cpp/fsrm_driver.cpp -> createLocalFileSystem()->remove)
#       on generated (tree, path) cases: result tree and status
#   (O) independent of the model: everything not under the removed path is byte-identical before/after, everything under
#       it is gone when the call reported success, the tree is unchanged when it reported an error
#   (S) StaleFileRemovalCommand's loop over the deletion list: model stale_fs == the same sequence of real remove calls
import os, json
import vlib
from vlib import hx

NAMES = ["a", "b", "c", "lnk"]


def enc_tree(tree, pre=""):
    """tree: dict name -> ("f", int) | ("l", target str) | ("d", dict). Pre-order, siblings sorted by name."""
    out = []
    for name in sorted(tree, key=lambda s: s.encode()):
        kind, val = tree[name]
        p = pre + "/" + name if pre else name
        if kind == "d":
            out.append("d:" + hx(p.encode()))
            out += enc_tree(val, p)
        elif kind == "f":
            out.append("f:%s:%d" % (hx(p.encode()), val))
        else:
            out.append("l:%s:%s" % (hx(p.encode()), hx(val.encode())))
    return out


def enc_tree_order(tree, key, pre=""):
    """Like enc_tree with another order of the siblings (key: (name, kind) -> sort key): the model's result may depend on the order in which
    a directory's entries are visited only in exotic cases (links on the way that lead back into the tree being removed)."""
    out = []
    for name in sorted(tree, key=lambda s: key(s, tree[s][0])):
        kind, val = tree[name]
        p = pre + "/" + name if pre else name
        if kind == "d":
            out.append("d:" + hx(p.encode()))
            out += enc_tree_order(val, key, p)
        elif kind == "f":
            out.append("f:%s:%d" % (hx(p.encode()), val))
        else:
            out.append("l:%s:%s" % (hx(p.encode()), hx(val.encode())))
    return out


def tree_str(tree):
    l = enc_tree(tree)
    return ",".join(l) if l else "."


def parse_dump(s):
    """dump string -> dict path -> line remainder (kind and payload)"""
    d = {}
    if s == ".":
        return d
    for line in s.split(","):
        f = line.split(":")
        d[vlib.unhx(f[1]).decode("latin-1")] = (f[0],) + tuple(f[2:])
    return d


def all_paths(tree, pre=""):
    out = []
    for name, (kind, val) in tree.items():
        p = pre + "/" + name if pre else name
        out.append((p, kind))
        if kind == "d":
            out += all_paths(val, p)
    return out


def gen_tree(rng, depth, counter):
    """random directory content; link targets are filled in afterwards (they refer to paths of the whole tree)"""
    t = {}
    for name in rng.sample(NAMES, rng.randint(0 if depth < 3 else 1, 3)):
        r = rng.random()
        if name == "lnk" or r < 0.22:
            t[name] = ("l", None)
        elif r < 0.6 and depth > 1:
            t[name] = ("d", gen_tree(rng, depth - 1, counter))
        else:
            counter[0] += 1
            t[name] = ("f", counter[0])
    return t


def fill_links(rng, tree, root, pre, dotdot_ok):
    paths = all_paths(root)
    dirs = [p for (p, k) in paths if k == "d"]
    files = [p for (p, k) in paths if k == "f"]
    for name, (kind, val) in list(tree.items()):
        p = pre + "/" + name if pre else name
        if kind == "d":
            fill_links(rng, val, root, p, dotdot_ok)
        elif kind == "l":
            sib = [n for n in tree if n != name]
            choices = []
            if sib:
                choices += [rng.choice(sib)] * 3                          # relative, to a sibling (file, dir or link)
            if dirs:
                choices += ["/" + rng.choice(dirs)] * 3                   # absolute, to a directory anywhere
            if files:
                choices += ["/" + rng.choice(files)]                      # absolute, to a file
            choices += ["nowhere", "/nowhere/x", name, "/"]                # dangling, self-loop, the root
            if sib:
                choices += [rng.choice(sib) + "/"]                        # target with a trailing separator
            if dotdot_ok:
                choices += ["..", "../" + rng.choice(NAMES), ".", "../../" + rng.choice(NAMES)]
            tree[name] = ("l", rng.choice(choices))


def lookup(tree, comps):
    """the entry at a canonical path (no link is followed); None when missing; ("d", root) for []"""
    cur = ("d", tree)
    for c in comps:
        if cur[0] != "d" or c not in cur[1]:
            return None
        cur = cur[1][c]
    return cur


def split_comps(s):
    return [c for c in s.split("/") if c != ""]


def is_plain(tree, s):
    """within the scope of the lexical statements: no "." / "..", at least one component, and no component before the
    last one is a symbolic link (computed on the harness's own copy of the tree)"""
    cs = split_comps(s)
    if not cs or any(c in (".", "..") for c in cs):
        return False
    for i in range(1, len(cs)):
        e = lookup(tree, cs[:i])
        if e is not None and e[0] == "l":
            return False
    return True


def py_walk(tree, comps, follow_last, budget=40):
    """harness-side path resolution (POSIX rules, written from the man page path_resolution(7), not from the Coq model):
    returns the canonical component list of the object named, or None when resolution fails"""
    cwd, rest = [], list(comps)
    while rest:
        c = rest.pop(0)
        if c == ".":
            continue
        if c == "..":
            cwd = cwd[:-1]
            continue
        e = lookup(tree, cwd + [c])
        if e is None:
            return None
        if e[0] == "d":
            cwd = cwd + [c]
        elif e[0] == "f":
            return cwd + [c] if not rest else None
        else:
            if not rest and not follow_last:
                return cwd + [c]
            budget -= 1
            if budget < 0:
                return None
            tg = e[1]
            if tg.startswith("/"):
                cwd = []
            rest = split_comps(tg) + (["."] if tg.endswith("/") else []) + rest
    return cwd


def physical_target(tree, s):
    """canonical location of the directory entry that remove(s) names: parent resolved following links + last name"""
    cs = split_comps(s)
    if not cs or cs[-1] in (".", ".."):
        return None
    par = py_walk(tree, cs[:-1], True)
    if par is None:
        return None
    e = lookup(tree, par)
    if e is None or e[0] != "d":
        return None
    return par + [cs[-1]]


def candidate_paths(rng, tree, dotdot_ok):
    """every path of the tree in several spellings, paths through links, missing paths"""
    out = []
    paths = all_paths(tree)
    for (p, k) in paths:
        out.append(("/" if rng.random() < 0.7 else "") + p)
        if rng.random() < 0.35:
            out.append("/" + p + "/")
        if k == "l":
            out.append("/" + p + "/")                                  # link spelled with a trailing separator
            for n in NAMES[:2]:
                out.append("/" + p + "/" + n)                          # through the link
        if rng.random() < 0.15:
            out.append("/" + p.replace("/", "//"))
        if dotdot_ok and rng.random() < 0.15:
            out.append("/" + p + "/../" + rng.choice(NAMES))
        if rng.random() < 0.1:
            out.append("/./" + p)
    out += ["/nope", "/a/nope", "/nope/x", "/a/b/c/nope"]
    return out


def oracle(tree, path, before, after, status):
    """The property judged on the implementation alone (no Coq model involved): returns (key, what) or None."""
    ok = (status == "ok")
    plain = is_plain(tree, path)
    loc = split_comps(path) if plain else physical_target(tree, path)
    if loc is None:
        if before != after:
            return ("fsrm-touched-outside" if ok else "fsrm-error-changed-tree",
                    "remove(%r) names nothing that can be removed, yet the tree changed (status %s)" % (path, status))
        return None
    lp = "/".join(loc)
    under = lambda q: q == lp or q.startswith(lp + "/")
    for q in sorted(before):
        if not under(q) and after.get(q) != before[q]:
            return ("fsrm-touched-outside", "remove(%r) changed %r, which is not beneath the removed path %r: %s -> %s"
                    % (path, q, lp, before[q], after.get(q)))
    for q in sorted(after):
        if q not in before:
            return ("fsrm-touched-outside", "remove(%r) created %r" % (path, q))
    if ok:
        for q in sorted(after):
            if under(q):
                return ("fsrm-left-behind", "remove(%r) reported success but %r still exists" % (path, q))
    elif plain and before != after:
        return ("fsrm-error-changed-tree", "remove(%r) reported %s but changed the tree" % (path, status))
    elif plain:
        # "every path meeting those conditions is removed": an existing directory, or an existing file or link spelled
        # without a trailing separator, must not be refused (the harness runs with full permissions)
        e = lookup(tree, loc)
        if e is not None and (e[0] == "d" or not path.endswith("/")):
            return ("fsrm-left-behind", "remove(%r) reported %s and left the existing %s in place"
                    % (path, status, {"d": "directory", "f": "file", "l": "symbolic link"}[e[0]]))
    return None


def fixed_cases():
    """the shapes named in the task, always present whatever the seed"""
    t = {"root": ("d", {"out": ("l", "/elsewhere"), "dang": ("l", "/nowhere"), "fl": ("l", "../keep"), "x": ("f", 1),
                        "dir": ("d", {"inl": ("l", "/elsewhere"), "y": ("f", 2), "rel": ("l", "../x")})}),
         "elsewhere": ("d", {"x": ("f", 3), "sub": ("d", {"z": ("f", 4)})}),
         "keep": ("f", 5)}
    paths = ["/root/out", "/root/out/", "/root/dang", "/root/dang/", "/root/fl", "/root/dir", "/root/dir/", "/root/out/x", "/root/out/sub",
             "/root/dir/inl", "/root/dir/inl/sub", "/root", "/elsewhere", "/keep", "/keep/", "/root/x/y", "root//dir", "/root/zzz"]
    cyc = {"a": ("d", {"l": ("l", "/"), "f": ("f", 1)})}
    loop = {"a": ("d", {"l": ("l", "l"), "m": ("l", "/a/m2"), "m2": ("l", "m")})}
    return [(t, p) for p in paths] + [(cyc, "/a/l/a"), (cyc, "/a/l/a/f"), (loop, "/a/l"), (loop, "/a/l/x"), (loop, "/a/m/x"), (loop, "/a/m/")]


def tree_has_dotdot(t):
    return any((v[0] == "l" and ".." in v[1]) or (v[0] == "d" and tree_has_dotdot(v[1])) for v in t.values())


def copy_tree(t):
    return {k: (v[0], copy_tree(v[1]) if v[0] == "d" else v[1]) for k, v in t.items()}


def run_fs(chk, drv=None, model=None):
    """drv/model: the caller's binaries are not used (this phase has its own driver and model area `fsrm`)."""
    drvbin = vlib.build_drivers(["fsrm_driver"])["fsrm_driver"]
    mbin = vlib.model_bin("fsrm")
    rng = chk.rng
    base = os.path.join(vlib.WORK, "tmp", "c14fs")
    os.makedirs(base, exist_ok=True)
    S = os.path.join(base, "s%d" % os.getpid())
    d = vlib.Interactive(drvbin)
    try:
        mode = d.ask("mode")
        dotdot_ok = (mode == "chroot")
        chk.cov["fsrm_sandbox_mode"] = mode
        # ---- cases ----
        cases = [(t, p) for (t, p) in fixed_cases() if dotdot_ok or (".." not in p and not tree_has_dotdot(t))]
        target = chk.n(300, 5000)
        while len(cases) < target:
            counter = [0]
            t = gen_tree(rng, 3, counter)
            fill_links(rng, t, t, "", dotdot_ok)
            ps = candidate_paths(rng, t, dotdot_ok)
            rng.shuffle(ps)
            cases += [(t, p) for p in ps[:14]]
        cases = cases[:max(target, len(fixed_cases()))]
        mdl = vlib.Interactive(mbin)
        nplain = nlinkway = nok = norder = 0
        shapes = set()
        dis = []
        for (t, p) in cases:
            ts = tree_str(t)
            r = d.ask("mk %s %s" % (S, ts))
            assert r == "ok", (r, ts)
            b = d.ask("dump " + S)
            assert b == ts, "harness: the tree built is not the tree asked for\n%s\n%s" % (b, ts)
            # the model gets the directory entries in the order readdir hands them out (an input from the environment)
            to = d.ask("dumpo " + S)
            m = mdl.ask("fsrm %s %s" % (to, hx(p.encode())))
            status = d.ask("rm %s %s" % (S, hx(p.encode())))
            a = d.ask("dump " + S)
            assert status.startswith("ok") or status.startswith("err:"), status
            plain = is_plain(t, p)
            e = lookup(t, split_comps(p)) if plain else None
            shape = (plain, e[0] if e else None, p.endswith("/"), status)
            shapes.add(shape)
            nplain += plain
            nlinkway += (not plain)
            nok += (status == "ok")
            chk.count(("fsrm", ts, p) if a != b else None)
            if len(shapes) <= 4 and a != b:
                chk.sample(dict(kind="fsrm", tree=ts, path=p, status=status, after=a, plain=plain), limit=10)
            rp = dict(tree=ts, tree_in_readdir_order=to, tree_readable=sorted(parse_dump(ts).items()), path=p, sandbox_mode=mode, implementation_status=status,
                      implementation_tree_after=a, model_answer=m, plain=plain,
                      how="fsrm_driver: mk <dir> <tree>; rm <dir> <hex path>; dump <dir>")
            bad = oracle(t, p, parse_dump(b), parse_dump(a), status)
            if bad:
                rp["oracle"] = "before/after dumps compared by the harness (lexical for plain paths, harness-side resolution otherwise)"
                chk.violation(bad[0], bad[1], rp, found_input=True, broken="c14 file-system oracle on LocalFileSystem::remove")
            if m != a + " " + status:
                # is the MODEL's answer for this case independent of the order in which directory entries are visited? (the property does
                # not fix that order; a different but equally valid traversal must not count as a disagreement)
                alts = [",".join(enc_tree_order(t, k)) or "." for k in (lambda n, kd: n.encode(), lambda n, kd: tuple(-x for x in n.encode()) + (256,),
                                                                        lambda n, kd: (kd == "d", n.encode()), lambda n, kd: (kd != "d", n.encode()))]
                answers = set(mdl.ask("fsrm %s %s" % (o, hx(p.encode()))) for o in alts) | {m}
                if len(answers) > 1 and (a + " " + status) in answers:
                    norder += 1
                    continue
                dis.append((bad is not None, len(ts) + len(p), rp))
        chk.cov["fsrm_cases"] = len(cases)
        chk.cov["fsrm_plain_paths"] = nplain
        chk.cov["fsrm_paths_through_links_or_dots"] = nlinkway
        chk.cov["fsrm_successful_removals"] = nok
        chk.cov["fsrm_shapes"] = len(shapes)
        chk.cov["fsrm_traversal_order_dependent_cases_matching_another_order"] = norder
        if dis:
            chk.cov["fsrm_disagreements"] = len(dis)
            unexplained = [x for x in dis if not x[0]]
            if unexplained:
                _, _, rp = min(unexplained, key=lambda x: x[1])
                chk.violation("fsrm-correspondence", "model (Path.FsRemove.remove_path) and LocalFileSystem::remove disagree on tree %s path %r: impl=%s %s model=%s"
                              % (rp["tree"], rp["path"], rp["implementation_tree_after"], rp["implementation_status"], rp["model_answer"]),
                              rp, found_input=False, broken="correspondence: Path.FsRemove.remove_path")
        run_stale(chk, d, mdl, S, dotdot_ok)
        mdl.close()
    finally:
        try:
            d.ask("clean " + S)
        except Exception:
            pass
        d.close()


def fl(l):
    return "." if not l else ",".join(hx(x.encode()) for x in l)


def run_stale(chk, d, mdl, S, dotdot_ok):
    """(S) the loop of StaleFileRemovalCommand::execute over the deletion list, on the real file system"""
    rng = chk.rng
    cases = []
    for _ in range(chk.n(40, 600)):
        counter = [0]
        t = gen_tree(rng, 3, counter)
        fill_links(rng, t, t, "", dotdot_ok)
        paths = ["/" + p for (p, k) in all_paths(t)]
        pool = paths + [p + "/" for p in paths[:2]] + ["/nope", "rel/x"] + [p + "/a" for p in paths if lookup(t, split_comps(p))[0] == "l"]
        prior = rng.sample(pool, min(len(pool), rng.randint(1, 6)))
        expected = [p for p in prior if rng.random() < 0.25] + rng.sample(pool, 1)
        tops = sorted(t) or ["a"]
        roots = [] if rng.random() < 0.3 else ["/" + rng.choice(tops) + rng.choice(["", "/"]) for _ in range(rng.randint(1, 2))]
        cases.append((t, prior, expected, roots))
    ndel = 0
    for (t, pr, ex, ro) in cases:
        def allowed(p):
            if not ro:
                return True
            return p.startswith("/") and any(split_comps(p)[:len(split_comps(r))] == split_comps(r) for r in ro)
        dels = sorted((p for p in set(pr) if p not in ex and allowed(p)), key=lambda s: s.encode())
        ts = tree_str(t)
        assert d.ask("mk %s %s" % (S, ts)) == "ok"
        b = d.ask("dump " + S)
        m = mdl.ask("stale_fs %s %s %s %s" % (d.ask("dumpo " + S), fl(pr), fl(ex), fl(ro)))
        statuses = [d.ask("rm %s %s" % (S, hx(p.encode()))) for p in dels]
        a = d.ask("dump " + S)
        ndel += len(dels)
        chk.count(("stale_fs", ts, tuple(dels)) if a != b else None)
        rp = dict(tree=ts, prior=pr, expected=ex, roots=ro, removed_in_order=dels, implementation_statuses=statuses,
                  implementation_tree_after=a, model_answer=m)
        bad = False
        if ro and all(is_plain(t, p) for p in dels):
            before, after = parse_dump(b), parse_dump(a)
            for q in sorted(before):
                inside = any(split_comps(q)[:len(split_comps(r))] == split_comps(r) for r in ro)
                if not inside and after.get(q) != before[q]:
                    bad = True
                    chk.violation("fsrm-touched-outside", "stale-file removal with roots %r changed %r, which lies under none of the roots" % (ro, q),
                                  rp, found_input=True, broken="c14 file-system oracle on the stale-file removal loop")
                    break
        if m != a + " " + fl(dels) and not bad:
            chk.violation("fsrm-correspondence", "model (Path.FsRemove.stale_apply) and the sequence of LocalFileSystem::remove calls disagree: impl=%s model=%s" % (a, m),
                          rp, found_input=False, broken="correspondence: Path.FsRemove.stale_apply")
    chk.cov["fsrm_stale_runs"] = len(cases)
    chk.cov["fsrm_stale_removals"] = ndel
