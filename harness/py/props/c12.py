# C12 - directory-tree signatures change exactly when the tree changes
#
# Tie and oracle are at the CLI: `llbuild buildsystem build --serial --chdir <sandbox> --db <sandbox>/build.db`, one
# process per build.  A sandbox holds `tree/` (and `outside/` for link targets), a build file with two shell commands:
# C.T with the directory-tree input "tree/" and C.S with the directory-structure input "./tree/", each appending a line
# to a counter file.  After every batch of edits: snapshot the tree in Python (lstat walk + resolved walk), build,
# read the counters, compare "ran again?" with
#   (i)  the extracted Coq model (BSys/DirTree.v: observe -> rebuild -> tree_toks / struct_toks, database state threaded),
#   (ii) the property oracle computed from the two snapshots only.
import os, json, shutil, stat, copy, ctypes
import vlib
from vlib import hx

BASE = os.path.join(vlib.WORK, "tmp", "c12")
T0 = 1600000000 * 10**9
STEP_NS = 1000000007

BUILD = """client:
  name: basic

targets:
  "": ["<all>"]

nodes:
  "%(t)s":%(tattr)s
  "%(s)s":%(sattr)s

commands:
  C.all:
    tool: phony
    inputs: ["<T>", "<S>"]
    outputs: ["<all>"]
  C.T:
    tool: shell
    inputs: ["%(t)s"]
    outputs: ["<T>"]
    args: echo T >> count.T
  C.S:
    tool: shell
    inputs: ["%(s)s"]
    outputs: ["<S>"]
    args: echo S >> count.S
"""

# how the two nodes are declared: (node name suffix, attribute lines)
# (a directory node has to be NAMED with the trailing slash: the tasks request Node(<name without the slash>) for the
#  directory itself, so the same attributes on a slash-less name make the node depend on itself: "cycle detected")
T_SPELLINGS = {"slash": ("/", []), "type": ("/", ["type: directory"]), "is-directory": ("/", ["is-directory: true"])}
S_SPELLINGS = {"is-directory-structure": ("/", ["is-directory-structure: true"]), "type": ("/", ["type: directory-structure"])}

def yq(s):
    return '"' + s.replace("\\", "\\\\").replace('"', '\\"') + '"'

# ------------------------------------------------------------------ sandbox

class Sandbox:
    """One scenario: a directory, a clock handing out distinct mtimes, the recorded operations."""
    def __init__(self, path, root="tree"):
        self.S = path
        self.root = root
        self.clock = 0
        shutil.rmtree(path, ignore_errors=True)
        os.makedirs(path)

    def tick(self):
        self.clock += 1
        return T0 + self.clock * STEP_NS

    def p(self, rel):
        return os.path.join(self.S, rel)

    def set_mtime(self, rel, ns):
        os.utime(self.p(rel), ns=(ns, ns), follow_symlinks=False)

    def mtime(self, rel):
        return os.lstat(self.p(rel)).st_mtime_ns

    def materialise(self, rel, spec):
        """Create spec at rel (parent exists). Every created object gets its recorded mtime (assigned on first use)."""
        full = self.p(rel)
        k = spec["k"]
        if k == "f":
            with open(full, "wb") as fh:
                fh.write(spec.get("data", "").encode())
            os.chmod(full, spec.get("mode", 0o644))
        elif k == "d":
            os.mkdir(full)
            for name, sub in spec.get("c", []):
                self.materialise(os.path.join(rel, name), sub)
            os.chmod(full, spec.get("mode", 0o755))
        elif k == "l":
            os.symlink(spec["to"], full)
        elif k == "p":
            os.mkfifo(full)
        else:
            raise ValueError(k)
        if "t" not in spec:
            spec["t"] = self.tick()
        self.set_mtime(rel, spec["t"])

    def remove(self, rel):
        full = self.p(rel)
        if os.path.islink(full) or not os.path.isdir(full):
            os.unlink(full)
        else:
            shutil.rmtree(full)

    def apply(self, op):
        """Apply one recorded operation. Directory mtimes are always set explicitly afterwards:
        op['dir'] == 'keep' restores the parent's previous mtime, otherwise op['dir_t'] is assigned."""
        kind = op["op"]
        parents = []
        for key in ("path", "dst"):
            if key in op and op[key] != self.root:
                par = os.path.dirname(op[key])
                if par not in parents:
                    parents.append(par)
        before = {par: self.mtime(par) for par in parents if os.path.lexists(self.p(par))}
        structural = True
        if kind == "write":
            with open(self.p(op["path"]), "r+b") as fh:
                fh.seek(0); fh.write(op["data"].encode()); fh.truncate()
            self.set_mtime(op["path"], op["t"]); structural = False
        elif kind == "touch":
            self.set_mtime(op["path"], op["t"]); structural = False
        elif kind == "chmod":
            os.chmod(self.p(op["path"]), op["mode"]); structural = False
        elif kind == "add":
            self.materialise(op["path"], op["spec"])
        elif kind == "rm":
            self.remove(op["path"])
        elif kind == "mv":
            os.rename(self.p(op["path"]), self.p(op["dst"]))
        elif kind == "retype":
            self.remove(op["path"]); self.materialise(op["path"], op["spec"])
        elif kind == "replace_inode":
            full = self.p(op["path"]); st = os.lstat(full)
            tmp = full + ".c12tmp"
            shutil.copyfile(full, tmp); os.chmod(tmp, stat.S_IMODE(st.st_mode))
            os.utime(tmp, ns=(st.st_mtime_ns, st.st_mtime_ns)); os.rename(tmp, full)
        elif kind == "hardlink_over":
            self.remove(op["path"]); os.link(self.p(op["target"]), self.p(op["path"]))
        elif kind == "relink":
            self.remove(op["path"]); os.symlink(op["to"], self.p(op["path"]))
            self.set_mtime(op["path"], op["t"])
        else:
            raise ValueError(kind)
        if structural:
            for par in parents:
                if not os.path.isdir(self.p(par)):
                    continue
                if op.get("dir") == "keep":
                    if par in before:
                        self.set_mtime(par, before[par])
                else:
                    self.set_mtime(par, op["dir_t"])

# ------------------------------------------------------------------ snapshots (the oracle's and the model's input)

def is_ancestor_link(full):
    """a symbolic link that resolves to the directory holding it or to one of that directory's ancestors"""
    try:
        rp = os.path.realpath(full, strict=True)
        dp = os.path.realpath(os.path.dirname(full), strict=True)
    except OSError:
        return False
    return dp == rp or dp.startswith(rp.rstrip("/") + "/")

def lsnap(root):
    """lstat walk: relpath -> (type, dev, ino, mode, size, mtime_ns, link target, link leads to an ancestor?); '' is the root itself."""
    out = {}
    def rec(full, rel):
        try:
            st = os.lstat(full)
        except OSError:
            return
        m = st.st_mode
        ty = "l" if stat.S_ISLNK(m) else "d" if stat.S_ISDIR(m) else "f" if stat.S_ISREG(m) else "p" if stat.S_ISFIFO(m) else "o"
        out[rel] = (ty, st.st_dev, st.st_ino, m, st.st_size, st.st_mtime_ns, os.readlink(full) if ty == "l" else None,
                    is_ancestor_link(full) if ty == "l" else None)
        if ty == "d":
            for n in sorted(os.listdir(full)):
                rec(os.path.join(full, n), (rel + "/" + n) if rel else n)
    rec(root, "")
    return out

def rsnap(root, maxdepth=10):
    """resolved walk (stat, following links, not into a directory it is already inside of):
    logical relpath -> (type, dev, ino, mode, size, mtime_ns) or 'missing'."""
    out = {}
    def rec(full, rel, depth, stack):
        try:
            st = os.stat(full)
        except OSError:
            out[rel] = "missing"
            return
        m = st.st_mode
        ty = "d" if stat.S_ISDIR(m) else "f" if stat.S_ISREG(m) else "p" if stat.S_ISFIFO(m) else "o"
        out[rel] = (ty, st.st_dev, st.st_ino, m, st.st_size, st.st_mtime_ns)
        if ty == "d" and depth < maxdepth:
            rp = os.path.realpath(full)
            if rp in stack:
                return
            for n in sorted(os.listdir(full)):
                rec(os.path.join(full, n), (rel + "/" + n) if rel else n, depth + 1, stack | {rp})
    rec(root, "", 0, frozenset())
    return out

_libc = ctypes.CDLL(None)
_libc.fnmatch.argtypes = [ctypes.c_char_p, ctypes.c_char_p, ctypes.c_int]
_libc.fnmatch.restype = ctypes.c_int

def c_fnmatch(pat, name):
    """the C library's fnmatch(pattern, name, 0) == 0: what filenameMatch calls (Python's fnmatch module has no backslash escapes)"""
    return _libc.fnmatch(os.fsencode(pat), os.fsencode(name), 0) == 0

def is_excluded(rel, pats):
    """a path is hidden when one of its components beneath the root matches a pattern (libc fnmatch, flags 0)"""
    if not rel or not pats:
        return False
    return any(c_fnmatch(p, c) for c in rel.split("/") for p in pats)

def visible(snap, pats):
    return {k: v for k, v in snap.items() if not is_excluded(k, pats)}

def enc_info(st):
    return "(%d.%d.%d.%d.%d.%d)" % (st.st_dev, st.st_ino, st.st_mode, st.st_size, st.st_mtime_ns // 10**9, st.st_mtime_ns % 10**9)

def enc_tree(full, depth=0, stack=frozenset()):
    """the model's input: the `tree` term of BSys/DirTree.v for what is at `full` (children in os.listdir order).
    A link that leads back into a directory being encoded is given a childless stand-in for its target: the model has
    to leave such a link out by itself (if it did not, its tokens would differ from llbuild's)."""
    try:
        st = os.lstat(full)
    except OSError:
        return "M"
    if stat.S_ISLNK(st.st_mode):
        try:
            rp = "=" + hx(os.fsencode(os.path.realpath(full, strict=True))) + ";"
        except OSError:
            rp = "!"
        return "L" + enc_info(st) + rp + enc_follow(full, depth + 1, stack)
    if stat.S_ISDIR(st.st_mode):
        stk = stack | {os.path.realpath(full)}
        return "D" + enc_info(st) + "[" + ",".join(hx(os.fsencode(n)) + ":" + enc_tree(os.path.join(full, n), depth + 1, stk) for n in os.listdir(full)) + "]"
    return "F" + enc_info(st)

def enc_follow(full, depth, stack=frozenset()):
    try:
        st = os.stat(full)
    except OSError:
        return "M"
    if stat.S_ISDIR(st.st_mode):
        rp = os.path.realpath(full)
        if depth > 10 or rp in stack:
            return "F" + enc_info(st)
        stk = stack | {rp}
        return "D" + enc_info(st) + "[" + ",".join(hx(os.fsencode(n)) + ":" + enc_tree(os.path.join(full, n), depth + 1, stk) for n in os.listdir(full)) + "]"
    return "F" + enc_info(st)

# ------------------------------------------------------------------ the property oracle

def diff_paths(a, b):
    return sorted(k for k in set(a) | set(b) if a.get(k) != b.get(k))

def oracle(prev, cur, pats, produced=(), prev_pats=None):
    """prev/cur: (lsnap, rsnap). Returns (must_T, must_S, classification hints). True: must run again, False: must not,
    None: the property does not say (only something outside the tree, reached through a link, or the root itself, changed).
    produced: relative paths of directories that are OUTPUTS of mkdir commands of the description: their own stat record
    is the producing command's business (its result stays valid while the directory exists), so only their type counts."""
    # each build is judged with the patterns its description had: after an edit of the patterns, entries that became
    # visible count as added and entries that became hidden as removed
    edited = prev_pats is not None and list(prev_pats) != list(pats)
    pp = prev_pats if edited else pats
    L0r, R0r = visible(prev[0], pp), visible(prev[1], pp)
    L1r, R1r = visible(cur[0], pats), visible(cur[1], pats)
    def norm(S):
        return {k: ((v[0],) if (k in produced and v != "missing" and v[0] == "d") else v) for k, v in S.items()}
    L0, L1, R0, R1 = norm(L0r), norm(L1r), norm(R0r), norm(R1r)
    D = [k for k in diff_paths(L0, L1) if k != ""]
    same_all = (L0 == L1 and R0 == R1)
    must_T = True if D else (False if same_all else None)
    if edited and must_T is False:
        must_T = None          # the description itself was edited: a re-run is allowed, not demanded, when the visible set is the same
    sh = lambda s: {k: (v[0] if v != "missing" else "missing") for k, v in s.items()}
    shR0, shR1 = sh(R0r), sh(R1r)
    # an entry that was itself edited (its lstat record differs) and resolves to another type now: a retargeted link
    SDR = [k for k in diff_paths(L0r, L1r) if k in L0r and k in L1r and shR0.get(k) != shR1.get(k)]
    SD = sorted(set(diff_paths(sh(L0r), sh(L1r))) | set(SDR))
    must_S = True if SD else (False if shR0 == shR1 else None)
    if edited and must_S is False:
        must_S = None
    hints = dict(changed=D, shape_changed=SD, patterns_edited=edited)
    # classification of the changed paths (for the finding key of a missed change): which known finding, if any,
    # explains that this path's change is not seen
    def only_mode(k):
        a, b = L0r.get(k), L1r.get(k)
        return a is not None and b is not None and a[:3] + a[4:] == b[:3] + b[4:] and a[3] != b[3]
    def involves_link(k):
        # the object stays, but it is (or becomes) a symbolic link: retype link <-> file, re-spelled target, touched link
        a, b = L0r.get(k), L1r.get(k)
        return a is not None and b is not None and (a[0] == "l" or b[0] == "l")
    def parent_of(k):
        return k.rsplit("/", 1)[0] if "/" in k else ""
    def parent_unchanged(k):
        par = parent_of(k)
        return par in L0r and L0r.get(par) == L1r.get(par)
    def gone_unseen(k):
        # removed while its directory's record stayed the same, and it did not resolve before either: a stored
        # filtered listing still has the name and its node is MissingInput before and after
        return bool(pats) and k in L0r and k not in L1r and parent_unchanged(k) and prev[1].get(k) == "missing"
    # "seen through" (known finding D4) explains a path only when what the link RESOLVES to did not change
    def ancestor_link(k):
        # an entry that is, on every side where it exists, a symbolic link to an ancestor of its directory
        sides = [x for x in (L0r.get(k), L1r.get(k)) if x is not None]
        return bool(sides) and all(x[0] == "l" and x[7] for x in sides)
    hints["cat_T"] = {k: ("ancestor" if ancestor_link(k) else "mode" if only_mode(k) else "link" if (involves_link(k) and R0r.get(k) == R1r.get(k)) else "stale" if gone_unseen(k) else None) for k in D}
    hints["cat_S"] = {k: ("ancestor" if ancestor_link(k) else "link" if (involves_link(k) and shR0.get(k) == shR1.get(k)) else "stale" if gone_unseen(k) else None) for k in SD}
    hints["file_root"] = L0r.get("", ("?",))[0] != "d" and L1r.get("", ("?",))[0] != "d" and "" in L0r and "" in L1r
    # entries that appeared while the record of their directory stayed the same: a stored filtered listing does not have them
    Draw = [k for k in diff_paths(L0r, L1r) if k != ""]
    hints["added_unseen"] = [k for k in Draw if k not in L0r and parent_unchanged(k)] if (pats and not edited) else []
    hints["removed"] = [k for k in Draw if k not in L1r]
    hints["removed_parent_unchanged"] = [k for k in Draw if k not in L1r and parent_of(k) in L1r and parent_unchanged(k)]
    hints["relisted_dirs"] = [k for k in Draw if k in L0r and k in L1r]
    hints["root_changed"] = L0r.get("") != L1r.get("")
    dangling_dirs = set()
    for R in (prev[1], cur[1]):
        for q, v in R.items():
            if v == "missing":
                dangling_dirs.add(parent_of(q))
    def beneath_dangling_link(k):
        parts = k.split("/")
        return any("/".join(parts[:j]) in dangling_dirs for j in range(len(parts)))
    hints["truncated_listing"] = bool(pats) and any(beneath_dangling_link(k) for k in D)
    return must_T, must_S, hints

def missed_key(cmd, hints, cats):
    """cats: path -> 'ancestor' | 'mode' | 'link' | 'stale' | None for the paths whose change the command had to see"""
    ks = hints["changed"] if cmd == "tree" else hints["shape_changed"]
    got = [cats.get(k) for k in ks]
    if any(c is None for c in got):
        if hints["truncated_listing"]:
            return "filtered-listing-truncated-%s" % cmd
        return "%s-missed-change" % cmd
    if "ancestor" in got:
        return "ancestor-link-edit-unseen-%s" % cmd
    if "mode" in got:
        return "tree-misses-mode-change" if cmd == "tree" else "structure-missed-change"
    if "link" in got:
        return "symlink-seen-through-%s" % cmd
    return "filtered-listing-stale-%s" % cmd

# ------------------------------------------------------------------ generation

FILE_NAMES = ["a", "b.txt", "c d", ".hid", "m.c", "x.tmp", "skip1", "n 1.tmp", "k", "zz", "a*b", "b\\c", ".x.tmp", ".hidden", "..two", ".main.c.swp", "bak~"]
DIR_NAMES = ["sub", "sub dir", "z.d", "inc", "zz top", "skip2", "o.tmp", ".cache", ".d.tmp"]
# plain names, globs, backslash escapes without any glob character ("\\.hid" hides ".hid", "a\\*b" hides the name "a*b",
# "b\\\\c" hides the name with one backslash), bracket expressions
PATTERN_SETS = [["*.tmp"], ["*.tmp", "skip?"], ["x.*", "n ?.tmp", "skip1"], [".*", "*.tmp"],
                ["\\.hid", "\\.cache"], ["a\\*b", "k", "*.tmp"], ["b\\\\c", "x\\.tmp"], ["skip[0-9]", "[!a-y]*"], ["[ab]", "\\.cache", "o.tmp"],
                # wildcards that have to match a LEADING period (fnmatch flags are 0: no FNM_PERIOD)
                ["*.swp", "*~"], ["?x*", "*.tmp"], ["[.]*"], ["*two", "?hid*"], ["*"]]

def gen_spec(rng, depth, maxdepth, fan, link_targets):
    """a directory spec; the entry that sorts last is usually a directory so that edits land beneath a last child"""
    entries = []
    nfan = rng.randint(1, fan)
    used = set()
    for j in range(nfan):
        want_dir = depth < maxdepth and (rng.random() < 0.45 or (j == nfan - 1 and rng.random() < 0.6))
        pool = [n for n in (DIR_NAMES if want_dir else FILE_NAMES) if n not in used]
        if not pool:
            continue
        name = rng.choice(pool)
        used.add(name)
        if want_dir:
            entries.append([name, gen_spec(rng, depth + 1, maxdepth, fan, link_targets)])
        else:
            r = rng.random()
            if r < 0.14 and link_targets:
                entries.append([name, dict(k="l", to=rng.choice(link_targets))])
            elif r < 0.17:
                entries.append([name, dict(k="p")])
            else:
                entries.append([name, dict(k="f", data="x" * rng.randint(0, 9), mode=rng.choice([0o644, 0o644, 0o600, 0o755]))])
    return dict(k="d", c=entries, mode=0o755)

def walk(sb, pats=None):
    """existing objects beneath the root: list of (relpath-from-sandbox, type, depth, excluded?)"""
    out = []
    rootfull = sb.p(sb.root)
    def rec(rel, depth):
        full = sb.p(rel)
        st = os.lstat(full)
        ty = "l" if stat.S_ISLNK(st.st_mode) else "d" if stat.S_ISDIR(st.st_mode) else "f" if stat.S_ISREG(st.st_mode) else "p"
        inner = os.path.relpath(full, rootfull)
        out.append((rel, ty, depth, is_excluded("" if inner == "." else inner, pats or [])))
        if ty == "d":
            for n in sorted(os.listdir(full)):
                rec(os.path.join(rel, n), depth + 1)
    if os.path.lexists(rootfull):
        rec(sb.root, 0)
    return out

def cycle_links(sb):
    """symbolic links beneath the root that lead back into a directory being walked (a loop for a walker that follows links)"""
    bad = []
    def rec(full, rel, stack, depth):
        try:
            names = sorted(os.listdir(full))
        except OSError:
            return
        for n in names:
            f = os.path.join(full, n)
            if not os.path.isdir(f):
                continue
            try:
                rp = os.path.realpath(f, strict=True)
            except OSError:
                continue
            if rp in stack or depth > 12:
                if os.path.islink(f):
                    bad.append(os.path.join(rel, n))
                continue
            rec(f, os.path.join(rel, n), stack | {rp}, depth + 1)
    root = sb.p(sb.root)
    if os.path.isdir(root):
        rec(root, sb.root, {os.path.realpath(root)}, 0)
    return bad

def pick(rng, items):
    """deep objects and last children are preferred"""
    if not items:
        return None
    w = [1 + 2 * it[2] for it in items]
    return rng.choices(items, weights=w)[0]

def fresh_name(rng, sb, d, pool):
    have = set(os.listdir(sb.p(d)))
    cand = [n for n in pool if n not in have]
    return rng.choice(cand) if cand else None

def gen_edit(rng, sb, family, pats):
    """one operation valid on the current file system; returns (op, label) or None"""
    objs = walk(sb, pats)
    if not objs:
        spec = gen_spec(rng, 1, 2, 2, [])
        return dict(op="add", path=sb.root, spec=spec), "recreate-root"
    prot = getattr(sb, "protected", set())
    def movable(o):
        # outputs of mkdir commands (and what contains them) are not removed, renamed or retyped by the edits
        return not any(q == o[0] or q.startswith(o[0] + "/") for q in prot)
    inner = [o for o in objs if o[2] > 0]
    files = [o for o in inner if o[1] == "f"]
    dirs = [o for o in objs if o[1] == "d"]
    links = [o for o in inner if o[1] == "l"]
    vis = lambda l: [o for o in l if not o[3]]
    exc = lambda l: [o for o in l if o[3]]
    t = sb.tick()
    kinds = ["content", "content-same-size", "touch", "touch-1ns", "add-file", "add-dir", "rm", "mv", "retype", "retype-fifo", "replace-inode", "add-link", "touch-dir",
             "add-sibling-link", "retarget-sibling-link"]
    if pats:
        kinds += ["excluded-content", "excluded-add-keep", "excluded-add", "excluded-rm-keep"] * 2
    else:
        kinds += ["add-file-keep", "rm-keep", "mv-keep", "add-sibling-link-keep", "retarget-sibling-link-keep"]      # without patterns the listing is compared on every build
    if family == "mode":
        kinds = ["chmod", "chmod", "chmod-dir", "touch", "content"]
    elif family == "stale":
        kinds = ["add-file-keep", "rm-keep", "mv-keep", "add-dir-keep"]
    elif family == "symlink":
        kinds = ["link-to-hardlink", "file-to-link", "link-to-file", "respell-link", "link-to-hardlink"]
    elif family == "root":
        kinds = ["rm-root", "retype-root", "touch-root", "content"]
    elif family == "ancestor":
        # edits elsewhere in a tree that holds links to ancestors; no new links, nothing moved (other loops stay out)
        kinds = ["content", "content-same-size", "touch", "add-file", "add-dir", "rm", "retype-fifo", "touch-dir"]
        if pats:
            kinds += ["excluded-content", "excluded-add"]
    kind = rng.choice(kinds)
    if kind in ("content", "content-same-size", "excluded-content"):
        o = pick(rng, exc(files) if kind == "excluded-content" else vis(files))
        if not o: return None
        size = os.lstat(sb.p(o[0])).st_size
        if kind == "content-same-size" and size:
            cur = open(sb.p(o[0]), errors="replace").read()
            data = ("y" if cur[:1] != "y" else "w") * size
        else:
            data = "z" * (size + rng.randint(1, 3))
        return dict(op="write", path=o[0], data=data, t=t), kind
    if kind in ("touch", "touch-1ns"):
        o = pick(rng, vis(files) + vis(links))
        if not o: return None
        return dict(op="touch", path=o[0], t=(sb.mtime(o[0]) + 1) if kind == "touch-1ns" else t), kind
    if kind.startswith("add-sibling-link"):
        # a link to an entry of the same directory ("current -> v1"), at the root or deeper
        cands = []
        for d in vis(dirs):
            ents = [n for n in os.listdir(sb.p(d[0])) if not os.path.islink(sb.p(os.path.join(d[0], n)))]
            if ents:
                cands.append((d, ents))
        if not cands: return None
        d, ents = rng.choice(cands)
        name = fresh_name(rng, sb, d[0], [n for n in ["current", "latest", "cur.lnk"] + FILE_NAMES if not is_excluded(n, pats)])
        if not name: return None
        op = dict(op="add", path=os.path.join(d[0], name), spec=dict(k="l", to=rng.choice(ents)))
        op.update(dict(dir="keep") if kind.endswith("keep") else dict(dir_t=sb.tick()))
        return op, kind
    if kind.startswith("retarget-sibling-link"):
        cands = []
        for o in vis(links):
            cur = os.readlink(sb.p(o[0]))
            if "/" in cur: continue
            d = os.path.dirname(o[0])
            curdir = os.path.isdir(sb.p(o[0]))
            others = [n for n in os.listdir(sb.p(d)) if n != cur and n != os.path.basename(o[0]) and not os.path.islink(sb.p(os.path.join(d, n)))
                      and os.path.isdir(sb.p(os.path.join(d, n))) != curdir]
            if others:
                cands.append((o, others))
        if not cands: return None
        o, others = rng.choice(cands)
        op = dict(op="relink", path=o[0], to=rng.choice(others), t=t)
        op.update(dict(dir="keep") if kind.endswith("keep") else dict(dir_t=sb.tick()))
        return op, kind
    if kind == "touch-dir":
        o = pick(rng, vis([d for d in dirs if d[2] > 0]))
        if not o: return None
        return dict(op="touch", path=o[0], t=t), kind
    if kind == "touch-root":
        return dict(op="touch", path=sb.root, t=t), kind
    if kind in ("chmod", "chmod-dir"):
        o = pick(rng, vis(files) if kind == "chmod" else vis([d for d in dirs if d[2] > 0]))
        if not o: return None
        cur = stat.S_IMODE(os.lstat(sb.p(o[0])).st_mode)
        new = rng.choice([m for m in ([0o600, 0o644, 0o755, 0o640] if kind == "chmod" else [0o755, 0o750, 0o700]) if m != cur])
        return dict(op="chmod", path=o[0], mode=new), kind
    if kind in ("add-file", "add-dir", "add-link", "add-file-keep", "add-dir-keep", "excluded-add", "excluded-add-keep"):
        d = pick(rng, vis(dirs))
        if not d: return None
        if kind.startswith("excluded"):
            pool = [n for n in FILE_NAMES + DIR_NAMES if is_excluded(n, pats)]
        else:
            pool = [n for n in (DIR_NAMES if "dir" in kind else FILE_NAMES) if not is_excluded(n, pats)]
        name = fresh_name(rng, sb, d[0], pool)
        if not name: return None
        if "dir" in kind:
            spec = gen_spec(rng, 2, 3, 2, [])
        elif kind == "add-link":
            tg = pick(rng, [o for o in inner if o[1] in ("f", "d")])
            spec = dict(k="l", to=os.path.relpath(sb.p(tg[0]), sb.p(d[0])) if tg else "nowhere")
        else:
            spec = dict(k="f", data="n" * rng.randint(0, 5))
        op = dict(op="add", path=os.path.join(d[0], name), spec=spec)
        op.update(dict(dir="keep") if kind.endswith("keep") else dict(dir_t=sb.tick()))
        return op, kind
    if kind in ("rm", "rm-keep", "excluded-rm-keep"):
        o = pick(rng, [x for x in (exc(inner) if kind.startswith("excluded") else vis(inner)) if movable(x)])
        if not o: return None
        op = dict(op="rm", path=o[0])
        op.update(dict(dir="keep") if kind.endswith("keep") else dict(dir_t=sb.tick()))
        return op, kind
    if kind in ("mv", "mv-keep"):
        o = pick(rng, [x for x in vis(inner) if movable(x)])
        if not o: return None
        cand = [d for d in vis(dirs) if not (d[0] + "/").startswith(o[0] + "/")]
        d = pick(rng, cand) if rng.random() < 0.4 else None
        dst_dir = d[0] if d else os.path.dirname(o[0])
        name = fresh_name(rng, sb, dst_dir, [n for n in (DIR_NAMES if o[1] == "d" else FILE_NAMES) if not is_excluded(n, pats)])
        if not name: return None
        op = dict(op="mv", path=o[0], dst=os.path.join(dst_dir, name))
        op.update(dict(dir="keep") if kind.endswith("keep") else dict(dir_t=sb.tick()))
        return op, kind
    if kind in ("rm-root", "retype-root") and prot:
        return None
    if kind == "retype":
        o = pick(rng, [x for x in vis(inner) if movable(x)])
        if not o: return None
        if o[1] == "d":
            spec = dict(k="f", data="was a directory")
        elif rng.random() < 0.6:
            spec = gen_spec(rng, 2, 3, 2, [])
        else:
            spec = dict(k="p") if o[1] != "p" else dict(k="f", data="was a fifo")
        return dict(op="retype", path=o[0], spec=spec, dir_t=sb.tick()), kind
    if kind == "retype-fifo":
        # a type change between two kinds that are not directories: regular file <-> fifo, same name, preferably deep
        cands = vis([o for o in inner if o[1] in ("f", "p")])
        deep = [o for o in cands if o[2] >= 2]
        o = pick(rng, deep or cands)
        if not o: return None
        spec = dict(k="p") if o[1] == "f" else dict(k="f", data="was a fifo")
        return dict(op="retype", path=o[0], spec=spec, dir_t=sb.tick()), ("file-to-fifo" if o[1] == "f" else "fifo-to-file")
    if kind == "replace-inode":
        o = pick(rng, vis(files))
        if not o: return None
        return dict(op="replace_inode", path=o[0], dir="keep"), kind
    if kind == "rm-root":
        return dict(op="rm", path=sb.root), kind
    if kind == "retype-root":
        o = objs[0]
        spec = dict(k="f", data="root is a file") if o[1] == "d" else gen_spec(rng, 1, 2, 2, [])
        return dict(op="retype", path=sb.root, spec=spec), kind
    # ---- symlink family (all keep the directory mtime so that only the link itself differs)
    if kind == "link-to-hardlink":
        cands = []
        for o in vis(links):
            tg = os.path.join(os.path.dirname(sb.p(o[0])), os.readlink(sb.p(o[0])))
            if os.path.isfile(tg) and os.path.realpath(tg).startswith(os.path.realpath(sb.S) + "/"):
                cands.append((o, os.path.relpath(os.path.realpath(tg), sb.S)))
        if not cands: return None
        o, tg = rng.choice(cands)
        return dict(op="hardlink_over", path=o[0], target=tg, dir="keep"), kind
    if kind == "link-to-file":
        cands = [o for o in vis(links) if os.path.isfile(sb.p(o[0]))]
        if not cands: return None
        o = rng.choice(cands)
        return dict(op="retype", path=o[0], spec=dict(k="f", data=open(sb.p(o[0])).read(), t=t), dir="keep"), kind
    if kind == "file-to-link":
        o = pick(rng, vis(files))
        if not o: return None
        others = [f for f in vis(files) if f[0] != o[0]]
        if not others: return None
        tg = rng.choice(others)
        return dict(op="retype", path=o[0], spec=dict(k="l", to=os.path.relpath(sb.p(tg[0]), os.path.dirname(sb.p(o[0]))), t=t), dir="keep"), kind
    if kind == "respell-link":
        o = pick(rng, vis(links))
        if not o: return None
        cur = os.readlink(sb.p(o[0]))
        return dict(op="relink", path=o[0], to=("./" + cur) if not cur.startswith("./") else cur[2:], t=t, dir="keep"), kind
    return None

# ------------------------------------------------------------------ one scenario

def counts(S):
    def n(f):
        try:
            return len(open(os.path.join(S, f)).read().splitlines())
        except OSError:
            return 0
    return n("count.T"), n("count.S")

def write_build(sb, pats, absolute, tsp="slash", ssp="is-directory-structure", produced=()):
    pre = (sb.S + "/") if absolute else ""
    tsuf, tlines = T_SPELLINGS[tsp]
    ssuf, slines = S_SPELLINGS[ssp]
    tnode, snode = pre + sb.root + tsuf, pre + "./" + sb.root + ssuf
    pl = ["content-exclusion-patterns: [%s]" % ", ".join(yq(p) for p in pats)] if pats else []
    fmt = lambda lines: ("".join("\n    " + l for l in lines)) if lines else " {}"
    text = BUILD % dict(t=tnode, s=snode, tattr=fmt(tlines + pl), sattr=fmt(slines + pl))
    # directories that are outputs of mkdir-tool commands of this description (one command per spelling of the path,
    # because the two nodes reach the directory as tree/... and ./tree/...)
    for j, rel in enumerate(produced):
        for tag, base in (("t", pre + sb.root), ("s", pre + "./" + sb.root)):
            text += "  C.mkdir.%d%s:\n    tool: mkdir\n    outputs: [%s]\n" % (j, tag, yq(base + ("/" + rel if rel else "")))
    open(os.path.join(sb.S, "build.llbuild"), "w").write(text)
    return tnode.rstrip("/"), snode.rstrip("/")

def build(llb, sb):
    """one build in a fresh process, under a memory limit and a small timeout (a listing that follows links to
    ancestors would never finish)"""
    before = counts(sb.S)
    rc, out, err = vlib.sh(["bash", "-c", 'ulimit -v 4000000; exec timeout 30 "$0" "$@"', llb, "buildsystem", "build", "--serial", "--chdir", sb.S,
                            "--db", os.path.join(sb.S, "build.db"), "-f", os.path.join(sb.S, "build.llbuild")], timeout=120)
    after = counts(sb.S)
    return rc, after[0] > before[0], after[1] > before[1], (out + err)[-600:]

def observe_disk(sb):
    root = sb.p(sb.root)
    return (lsnap(root), rsnap(root)), enc_tree(root)

def run_scenario(chk, llb, model, sc, idx, generate=None):
    """sc: dict(init=spec, outside=spec|None, pats=[...], absolute=bool, root=str, steps=[[op,...],...]).
    With `generate` (a callable returning the ops of the next step from the live sandbox) steps are produced on the fly
    and recorded into sc['steps'].  Returns a list of per-build records."""
    sb = Sandbox(os.path.join(BASE, "s%d" % idx), sc.get("root", "tree"))
    pats = sc["pats"]
    for name in sorted(sc.get("siblings", {})):
        sb.materialise(name, sc["siblings"][name])
    if sc["init"] is not None:
        sb.materialise(sb.root, sc["init"])
    produced = list(sc.get("produced", []))
    sb.cur_pats = pats
    sb.protected = set(os.path.join(sb.root, r) if r else sb.root for r in produced)
    pT, pS = write_build(sb, pats, sc.get("absolute", False), sc.get("tspell", "slash"), sc.get("sspell", "is-directory-structure"), produced)
    records = []
    encs = []
    pats_used = []
    prev_pats = pats
    nsteps = sc.get("nsteps", len(sc["steps"]))
    k = 0
    prev = None
    while True:
        if k > 0:
            if generate is not None and len(sc["steps"]) < k:
                sc["steps"].append(generate(sb, k))
            if k > len(sc["steps"]):
                break
            for op in sc["steps"][k - 1]["ops"]:
                sb.apply(op)
            if "pats" in sc["steps"][k - 1] and sc["steps"][k - 1]["pats"] != pats:
                prev_pats, pats = pats, list(sc["steps"][k - 1]["pats"])        # an edit of the description
                sb.cur_pats = pats
                write_build(sb, pats, sc.get("absolute", False), sc.get("tspell", "slash"), sc.get("sspell", "is-directory-structure"), produced)
            else:
                prev_pats = pats
        pats_used.append(pats)
        snaps, enc = observe_disk(sb)
        rc, ranT, ranS, log = build(llb, sb)
        encs.append(enc)
        rec = dict(step=k, labels=(sc["steps"][k - 1]["labels"] if k > 0 else ["initial build"]), rc=rc, ranT=ranT, ranS=ranS, log=log if rc != 0 else "")
        if k > 0:
            rec["must_T"], rec["must_S"], rec["hints"] = oracle(prev, snaps, pats, set(produced), prev_pats)
            rec["patterns"] = pats
        records.append(rec)
        if rc != 0 and sc.get("ancestor_links"):
            break       # a build that does not finish: the remaining steps would each wait for the timeout again
        # the baseline of the next step is what is on disk AFTER this build (mkdir commands may have created directories)
        prev = observe_disk(sb)[0] if produced else snaps
        k += 1
        if generate is not None and k > nsteps:
            break
    sc["_sandbox"] = sb.S
    if produced:
        # the Coq model covers INPUT directories (FileInputNodeTask); produced directories are judged by the oracle only
        for rec in records[1:]:
            rec["model_T"] = rec["model_S"] = None
        return records
    fl = lambda ps: "." if not ps else ",".join(hx(p.encode()) for p in ps)
    rroot = os.path.realpath(sb.p(sb.root))      # what real_path() gives for the node's path (both spellings)
    reqs = ["scenariop %s %s %s" % (hx(p.encode()), hx(os.fsencode(rroot)), " ".join(fl(ps) + "@" + e for ps, e in zip(pats_used, encs))) for p in (pT, pS)]
    rc, out, err = vlib.run_lines(model, reqs, timeout=300)
    if rc != 0 or len(out) != 2 or any(o.startswith(("ERR", "EXC")) for o in out):
        raise RuntimeError("model failed on scenario %d: rc=%s out=%r err=%s" % (idx, rc, out[:2], err[-500:]))
    mT = out[0].split(" ") if out[0] else []
    mS = out[1].split(" ") if out[1] else []
    for j, rec in enumerate(records[1:]):
        rec["model_T"] = mT[j][0] == "1"
        rec["model_S"] = mS[j][1] == "1"
    sc["_sandbox"] = sb.S
    return records

def judge(chk, sc, records, idx):
    """apply oracle and tie to the records of one scenario; returns number of builds that agreed with the model"""
    agreed = 0
    def rp(rec, extra=None):
        d = dict(scenario={k: v for k, v in sc.items() if not k.startswith("_")}, failing_step=rec["step"], records=records, sandbox=sc.get("_sandbox"))
        if extra: d.update(extra)
        return d
    r0 = records[0]
    if r0["rc"] != 0 and sc.get("ancestor_links"):
        chk.violation("ancestor-links-do-not-terminate", "the first build over a tree with links to ancestors did not finish within 30 s / 4 GB (rc=%s)" % r0["rc"], rp(r0), found_input=True, broken="c12 oracle (termination)")
        return 0
    if r0["rc"] != 0 or not (r0["ranT"] and r0["ranS"]):
        chk.violation("initial-build", "the first build failed or did not run both commands (rc=%s)" % r0["rc"], rp(r0), found_input=True, broken="c12 harness expectation")
        return 0
    # finding D3 bookkeeping: per directory, the names its STORED filtered listing is known to be wrong about
    unseen = {}      # names that appeared while the directory's record stayed the same (not in the stored listing)
    ghosts = {}      # names that went away while the directory's record stayed the same (still in the stored listing)
    def split(k):
        return tuple(k.rsplit("/", 1)) if "/" in k else ("", k)
    for rec in records[1:]:
        unlisted = False
        fam = sc.get("family", "core")
        h = rec["hints"]
        spats = rec.get("patterns", sc["pats"])
        if h.get("patterns_edited"):
            unseen.clear(); ghosts.clear()      # new keys: every listing is computed afresh
        def stale_in(table, k):
            parts = k.split("/")
            return any(parts[j] in table.get("/".join(parts[:j]), ()) for j in range(len(parts)))
        before = {d: set(v) for d, v in unseen.items()}
        # the directory's own record changed: it is listed again; what the stored listing had wrong comes to light now
        redone = list(h["relisted_dirs"]) + ([""] if h["root_changed"] else [])
        relisted = [k for k in redone if unseen.get(k) or ghosts.get(k)]
        for k in redone:
            unseen.pop(k, None)
            ghosts.pop(k, None)
        for k in h["added_unseen"]:
            par, name = split(k)
            unseen.setdefault(par, set()).add(name)
        def stale(k):
            # an entry that was never in the stored listing: changes beneath it, and its removal, cannot be seen
            return stale_in(before if k in h["removed"] else unseen, k)
        up = lambda table: {k: (c or ("stale" if (spats and stale(k)) else None)) for k, c in table.items()}
        cats = dict(tree=up(h["cat_T"]), structure=up(h["cat_S"]))
        rec["cats"] = cats
        for k in h["removed"]:
            par, name = split(k)
            unseen.get(par, set()).discard(name)
            if spats and k in h["removed_parent_unchanged"]:
                ghosts.setdefault(par, set()).add(name)
        key = (fam, bool(spats), tuple(rec["labels"]), rec["ranT"], rec["ranS"])
        chk.count(key if (rec["must_T"] or rec["must_S"]) else None)
        if rec["rc"] != 0 and sc.get("ancestor_links"):
            unlisted |= chk.violation("ancestor-links-do-not-terminate", "a build over a tree with links to ancestors did not finish within 30 s / 4 GB (rc=%s) after: %s" % (rec["rc"], "; ".join(rec["labels"])),
                                      rp(rec), found_input=True, broken="c12 oracle (termination)")
        elif rec["rc"] != 0:
            unlisted |= chk.violation("build-failed", "llbuild exited with %d during an incremental build" % rec["rc"], rp(rec), found_input=True, broken="c12 oracle")
        for cmd, ran, must in (("tree", rec["ranT"], rec["must_T"]), ("structure", rec["ranS"], rec["must_S"])):
            if must is True and not ran:
                key_ = missed_key(cmd, rec["hints"], cats[cmd])
                what = "the command with the directory-%s input did not run again after: %s (changed: %s)" % (cmd, "; ".join(rec["labels"]), ", ".join((rec["hints"]["changed"] if cmd == "tree" else rec["hints"]["shape_changed"])[:4]))
                unlisted |= chk.violation(key_, what, rp(rec, dict(command=cmd)), found_input=True, broken="c12 oracle (detects) on llbuild buildsystem build")
            elif must is False and ran:
                key_ = "%s-spurious-rerun" % cmd
                if relisted:
                    key_ = "filtered-listing-stale-late-%s" % cmd      # finding D3 seen late: the entry was added in an earlier step
                if cmd == "structure" and spats and rec["hints"]["file_root"]:
                    key_ += "-file-root-filtered"
                what = ("the command with the directory-%s input ran again although " % cmd) + ("nothing beneath the directory changed" if cmd == "tree" else "no entry was added, removed or changed type") + " (%s)" % "; ".join(rec["labels"])
                unlisted |= chk.violation(key_, what, rp(rec, dict(command=cmd)), found_input=True, broken="c12 oracle (stable) on llbuild buildsystem build")
        tie_ok = (rec["model_T"] == rec["ranT"]) and (rec["model_S"] == rec["ranS"])
        if rec["model_T"] is None:
            pass
        elif tie_ok:
            agreed += 1
        elif not unlisted:
            chk.violation("correspondence-%s" % ("tree" if rec["model_T"] != rec["ranT"] else "structure"),
                          "model (BSys/DirTree.v) and llbuild disagree on whether a command runs again after: %s (model T=%s S=%s, llbuild T=%s S=%s); the property oracle reports no unlisted failure at this step"
                          % ("; ".join(rec["labels"]), rec["model_T"], rec["model_S"], rec["ranT"], rec["ranS"]),
                          rp(rec), found_input=False, broken="correspondence: BSys.DirTree (observe/rebuild/tree_toks/struct_toks)")
    return agreed

# ------------------------------------------------------------------ fixed corpus (inputs of repaired and known findings)

def corpus():
    f = lambda d="x", m=0o644: dict(k="f", data=d, mode=m)
    d = lambda *c: dict(k="d", c=[list(x) for x in c], mode=0o755)
    out = []
    # D2 (fixed c2e7355): chmod, build, touch, build -> the structure command must not run
    out.append(dict(name="structure-after-chmod", family="mode", pats=[], init=d(("a.txt", f()), ("sub", d(("b", f("bb"))))), steps=[
        dict(labels=["chmod"], ops=[dict(op="chmod", path="tree/sub/b", mode=0o600)]),
        dict(labels=["touch"], ops=[dict(op="touch", path="tree/sub/b", t=T0 + 900 * STEP_NS)])]))
    # D5 (fixed 9d17fc1): absolute node path /x/tree2 containing l -> ../tree
    out.append(dict(name="prefix-sibling-link", family="core", pats=[], absolute=True, root="tree2",
                    siblings=dict(tree=d(("a.txt", f()), ("sub", d(("b", f()))))),
                    init=d(("l", dict(k="l", to="../tree")), ("z", f())), steps=[
        dict(labels=["content beneath the link target"], ops=[dict(op="write", path="tree/a.txt", data="changed", t=T0 + 901 * STEP_NS)]),
        dict(labels=["add beneath the link target"], ops=[dict(op="add", path="tree/new", spec=f(), dir_t=T0 + 902 * STEP_NS)]),
        dict(labels=["remove the link, directory mtime restored"], ops=[dict(op="rm", path="tree2/l", dir="keep")]),
        dict(labels=["nothing"], ops=[])]))
    # D6 (fixed e9065fb): a dangling link in a directory listed with patterns ended the listing
    out.append(dict(name="dangling-link-filtered", family="core", pats=["*.tmp"], init=d(("b.txt", dict(k="l", to="nowhere")), ("c d", f()), ("sub", d(("l2", dict(k="l", to="nowhere")), ("k", f())))), steps=[
        dict(labels=["add-file"], ops=[dict(op="add", path="tree/new", spec=f(), dir_t=T0 + 910 * STEP_NS)]),
        dict(labels=["mv"], ops=[dict(op="mv", path="tree/c d", dst="tree/a", dir_t=T0 + 911 * STEP_NS)]),
        dict(labels=["content beside a dangling link"], ops=[dict(op="write", path="tree/sub/k", data="changed", t=T0 + 912 * STEP_NS)]),
        dict(labels=["rm the dangling link"], ops=[dict(op="rm", path="tree/sub/l2", dir_t=T0 + 913 * STEP_NS)])]))
    # D7 (fixed 66b6b5d): a filtered structure node on a regular file ran again on every content change of the file
    out.append(dict(name="file-root-structure-filtered", family="root", pats=["*.tmp"], init=f("file root"), steps=[
        dict(labels=["touch-root"], ops=[dict(op="touch", path="tree", t=T0 + 914 * STEP_NS)]),
        dict(labels=["content of the file root"], ops=[dict(op="write", path="tree", data="file root, longer", t=T0 + 915 * STEP_NS)])]))
    # (fixed, found by P4) node attribute `type: directory` was mapped to a plain file node: deep edits were missed
    out.append(dict(name="type-directory-spelling", family="core", pats=[], tspell="type", sspell="type", init=d(("a", f()), ("sub", d(("deep", d(("b", f("1"))))))), steps=[
        dict(labels=["content (deep)"], ops=[dict(op="write", path="tree/sub/deep/b", data="22", t=T0 + 916 * STEP_NS)]),
        dict(labels=["add (deep)"], ops=[dict(op="add", path="tree/sub/deep/c", spec=f(), dir_t=T0 + 917 * STEP_NS)])]))
    out.append(dict(name="is-directory-spelling", family="core", pats=["*.tmp"], tspell="is-directory", sspell="type", init=d(("a", f()), ("sub", d(("deep", d(("b", f("1"))))))), steps=[
        dict(labels=["content (deep)"], ops=[dict(op="write", path="tree/sub/deep/b", data="22", t=T0 + 916 * STEP_NS)]),
        dict(labels=["add (deep)"], ops=[dict(op="add", path="tree/sub/deep/c", spec=f(), dir_t=T0 + 917 * STEP_NS)])]))
    # loop protection (absolute node path): a link to an ancestor is left out of the unfiltered listing, the build terminates
    out.append(dict(name="ancestor-link-absolute", family="core", pats=[], absolute=True, init=d(("a", f()), ("sub", d(("up", dict(k="l", to="..")), ("b", f())))), steps=[
        dict(labels=["content"], ops=[dict(op="write", path="tree/sub/b", data="changed", t=T0 + 918 * STEP_NS)]),
        dict(labels=["nothing"], ops=[])]))
    # seeded C12-2: a type change between two non-directory kinds must re-run the structure command (mode & S_IFMT)
    for pats_ in ([], ["*.tmp"]):
        out.append(dict(name="file-fifo-retype" + ("-filtered" if pats_ else ""), family="core", pats=pats_,
                        init=d(("a", f()), ("sub", d(("deep", d(("d", f("1")), ("x.tmp", f()))), ("q", dict(k="p"))))), steps=[
            dict(labels=["content (deep)"], ops=[dict(op="write", path="tree/sub/deep/d", data="22", t=T0 + 920 * STEP_NS)]),
            dict(labels=["file-to-fifo (deep)"], ops=[dict(op="retype", path="tree/sub/deep/d", spec=dict(k="p"), dir_t=T0 + 921 * STEP_NS)]),
            dict(labels=["nothing"], ops=[]),
            dict(labels=["fifo-to-file (deep)"], ops=[dict(op="retype", path="tree/sub/deep/d", spec=f("back"), dir_t=T0 + 922 * STEP_NS)]),
            dict(labels=["fifo-to-file"], ops=[dict(op="retype", path="tree/sub/q", spec=f("q"), dir_t=T0 + 923 * STEP_NS)])]))
    # seeded C12-1: patterns with a backslash escape and no glob character hide exactly the escaped name
    out.append(dict(name="backslash-patterns", family="core", pats=["\\.cache", "a\\*b", "k"],
                    init=d(("a", f()), (".cache", d(("obj", f("o")))), ("sub", d(("a*b", f("star")), ("axb", f("x")), ("k", f("k"))))), steps=[
        dict(labels=["excluded-content (.cache/obj)"], ops=[dict(op="write", path="tree/.cache/obj", data="oo", t=T0 + 930 * STEP_NS)]),
        dict(labels=["excluded-content (a*b)"], ops=[dict(op="write", path="tree/sub/a*b", data="stars", t=T0 + 931 * STEP_NS)]),
        dict(labels=["excluded-add (.cache in sub)"], ops=[dict(op="add", path="tree/sub/.cache", spec=f(), dir_t=T0 + 932 * STEP_NS)]),
        dict(labels=["excluded-rm (.cache in sub)"], ops=[dict(op="rm", path="tree/sub/.cache", dir_t=T0 + 933 * STEP_NS)]),
        dict(labels=["content (axb is not hidden by a\\*b)"], ops=[dict(op="write", path="tree/sub/axb", data="xx", t=T0 + 934 * STEP_NS)]),
        dict(labels=["excluded-rm (.cache), root mtime restored"], ops=[dict(op="rm", path="tree/.cache", dir="keep")])]))
    out.append(dict(name="bracket-patterns", family="core", pats=["skip[0-9]", "[!a-y]*"],
                    init=d(("a", f()), ("skip1", f("s")), ("zz", f("z")), ("sub", d(("skipx", f("v")), ("m.c", f("m"))))), steps=[
        dict(labels=["excluded-content (skip1)"], ops=[dict(op="write", path="tree/skip1", data="ss", t=T0 + 935 * STEP_NS)]),
        dict(labels=["excluded-content (zz)"], ops=[dict(op="write", path="tree/zz", data="zzz", t=T0 + 936 * STEP_NS)]),
        dict(labels=["content (skipx is visible)"], ops=[dict(op="write", path="tree/sub/skipx", data="vv", t=T0 + 937 * STEP_NS)]),
        dict(labels=["excluded-add (skip7)"], ops=[dict(op="add", path="tree/sub/skip7", spec=f(), dir_t=T0 + 938 * STEP_NS)])]))
    # seeded C12-5: the watched directory (and a sub-directory) are OUTPUTS of mkdir commands of the description
    for pats_ in (["*.tmp"], []):
        tag = "-filtered" if pats_ else ""
        out.append(dict(name="mkdir-produced-root" + tag, family="produced", pats=pats_, init=None, produced=[""], steps=[
            dict(labels=["nothing"], ops=[]),
            dict(labels=["excluded-add"], ops=[dict(op="add", path="tree/scratch.tmp", spec=f("x"), dir_t=T0 + 940 * STEP_NS)]),
            dict(labels=["add-file"], ops=[dict(op="add", path="tree/a.txt", spec=f("hello"), dir_t=T0 + 941 * STEP_NS)]),
            dict(labels=["nothing"], ops=[]),
            dict(labels=["content"], ops=[dict(op="write", path="tree/a.txt", data="hello2", t=T0 + 942 * STEP_NS)]),
            dict(labels=["rm"], ops=[dict(op="rm", path="tree/a.txt", dir_t=T0 + 943 * STEP_NS)])]))
        out.append(dict(name="mkdir-produced-subdirs" + tag, family="produced", pats=pats_, produced=["", "gen", "gen/deep"],
                        init=d(("a", f()), ("gen", d(("deep", d(("k", f("1")))), ("m.c", f("m"))))), steps=[
            dict(labels=["add-file (in a produced sub-directory)"], ops=[dict(op="add", path="tree/gen/deep/new", spec=f("n"), dir_t=T0 + 944 * STEP_NS)]),
            dict(labels=["content (in a produced sub-directory)"], ops=[dict(op="write", path="tree/gen/deep/k", data="22", t=T0 + 945 * STEP_NS)]),
            dict(labels=["file-to-fifo (in a produced sub-directory)"], ops=[dict(op="retype", path="tree/gen/m.c", spec=dict(k="p"), dir_t=T0 + 946 * STEP_NS)]),
            dict(labels=["rm (in a produced sub-directory)"], ops=[dict(op="rm", path="tree/gen/deep/new", dir_t=T0 + 947 * STEP_NS)]),
            dict(labels=["nothing"], ops=[])]))
    # seeded C12-6: links to an entry of the same directory (framework-style "current -> v1"), at the root and deeper
    for pats_ in ([], ["*.tmp"]):
        tag = "-filtered" if pats_ else ""
        out.append(dict(name="sibling-links" + tag, family="core", pats=pats_,
                        init=d(("v1", d(("lib", f("1")))), ("README", f("r")), ("pkg", d(("v1", d(("lib", f("1")))), ("v2", d(("lib", f("2")))), ("README", f("r"))))), steps=[
            dict(labels=["add-sibling-link (pkg/current -> v1)"], ops=[dict(op="add", path="tree/pkg/current", spec=dict(k="l", to="v1"), dir="keep" if not pats_ else None, dir_t=T0 + 950 * STEP_NS)]),
            dict(labels=["retarget-sibling-link (directory -> file)"], ops=[dict(op="relink", path="tree/pkg/current", to="README", t=T0 + 951 * STEP_NS, dir="keep")]),
            dict(labels=["retarget-sibling-link (file -> directory)"], ops=[dict(op="relink", path="tree/pkg/current", to="v2", t=T0 + 952 * STEP_NS, dir="keep")]),
            dict(labels=["rm (the sibling link)"], ops=[dict(op="rm", path="tree/pkg/current", dir="keep" if not pats_ else None, dir_t=T0 + 953 * STEP_NS)]),
            dict(labels=["add-sibling-link (current -> v1 at the root)"], ops=[dict(op="add", path="tree/current", spec=dict(k="l", to="v1"), dir_t=T0 + 954 * STEP_NS)]),
            dict(labels=["retarget-sibling-link (root: directory -> file)"], ops=[dict(op="relink", path="tree/current", to="README", t=T0 + 955 * STEP_NS, dir_t=T0 + 956 * STEP_NS)]),
            dict(labels=["rm (the sibling link at the root)"], ops=[dict(op="rm", path="tree/current", dir_t=T0 + 957 * STEP_NS)])]))
    # 403a739 (repaired; seeded C12-7 reverts it): the description's patterns are edited between builds
    out.append(dict(name="patterns-edited", family="patterns", pats=["*.tmp"],
                    init=d(("a.txt", f("a")), ("x.tmp", f("t")), ("k", f("k")), ("sub", d(("b", f("b")), ("y.tmp", f("t"))))), steps=[
        dict(labels=["excluded-content (x.tmp)"], ops=[dict(op="write", path="tree/x.tmp", data="tt", t=T0 + 960 * STEP_NS)]),
        dict(labels=["patterns -> [*.nothing]: x.tmp, sub/y.tmp become visible"], ops=[], pats=["*.nothing"]),
        dict(labels=["content (x.tmp, visible now)"], ops=[dict(op="write", path="tree/x.tmp", data="ttt", t=T0 + 961 * STEP_NS)]),
        dict(labels=["content (sub/y.tmp, visible now)"], ops=[dict(op="write", path="tree/sub/y.tmp", data="ttt", t=T0 + 962 * STEP_NS)]),
        dict(labels=["patterns -> the same list"], ops=[], pats=["*.nothing"]),
        dict(labels=["patterns -> [*.nothing, k]: k becomes hidden"], ops=[], pats=["*.nothing", "k"]),
        dict(labels=["excluded-content (k, hidden now)"], ops=[dict(op="write", path="tree/k", data="kk", t=T0 + 963 * STEP_NS)]),
        dict(labels=["patterns -> none"], ops=[], pats=[]),
        dict(labels=["content (k, visible again)"], ops=[dict(op="write", path="tree/k", data="kkk", t=T0 + 964 * STEP_NS)]),
        dict(labels=["patterns -> [*.tmp]: x.tmp, sub/y.tmp hidden again"], ops=[], pats=["*.tmp"]),
        dict(labels=["excluded-content (sub/y.tmp, hidden again)"], ops=[dict(op="write", path="tree/sub/y.tmp", data="tttt", t=T0 + 965 * STEP_NS)]),
        dict(labels=["content (a.txt)"], ops=[dict(op="write", path="tree/a.txt", data="aa", t=T0 + 966 * STEP_NS)])]))
    # d863e96 (repaired; seeded C12-8 reverts it): links to ancestors, relative and absolute node paths, with and without patterns
    for absolute in (False, True):
        for pats_ in ([], ["*.tmp"]):
            tag = ("-absolute" if absolute else "-relative") + ("-filtered" if pats_ else "")
            out.append(dict(name="ancestor-links" + tag, family="ancestor", ancestor_links=True, absolute=absolute, pats=pats_,
                            init=d(("a", f()), ("sub", d(("up", dict(k="l", to="..")), ("b", f("b")), ("x.tmp", f("t")),
                                                         ("deep", d(("up2", dict(k="l", to="../..")), ("up", dict(k="l", to="..")), ("self", dict(k="l", to=".")), ("c", f("c"))))))), steps=[
                dict(labels=["nothing"], ops=[]),
                dict(labels=["content (beside the links)"], ops=[dict(op="write", path="tree/sub/deep/c", data="cc", t=T0 + 970 * STEP_NS)]),
                dict(labels=["add-file (beside the links)"], ops=[dict(op="add", path="tree/sub/deep/new", spec=f(), dir_t=T0 + 971 * STEP_NS)]),
                dict(labels=["file-to-fifo"], ops=[dict(op="retype", path="tree/sub/b", spec=dict(k="p"), dir_t=T0 + 972 * STEP_NS)]),
                dict(labels=["rm"], ops=[dict(op="rm", path="tree/sub/deep/new", dir_t=T0 + 973 * STEP_NS)]),
                dict(labels=["nothing"], ops=[])]))
    # finding ancestor-link-edit-unseen: such a link added or removed (directory mtime restored) is an entry added or removed
    out.append(dict(name="ancestor-link-edits", family="ancestor", ancestor_links=True, pats=[],
                    init=d(("a", f()), ("sub", d(("b", f("b")), ("deep", d(("c", f("c"))))))), steps=[
        dict(labels=["add-ancestor-link (sub/up -> ..), directory mtime restored"], ops=[dict(op="add", path="tree/sub/up", spec=dict(k="l", to=".."), dir="keep")]),
        dict(labels=["add-ancestor-link (sub/deep/self -> .)"], ops=[dict(op="add", path="tree/sub/deep/self", spec=dict(k="l", to="."), dir_t=T0 + 975 * STEP_NS)]),
        dict(labels=["rm-ancestor-link (sub/up), directory mtime restored"], ops=[dict(op="rm", path="tree/sub/up", dir="keep")]),
        dict(labels=["content"], ops=[dict(op="write", path="tree/sub/deep/c", data="cc", t=T0 + 976 * STEP_NS)])]))
    # seeded C12-9: a wildcard matches a leading period of a name (fnmatch flags 0), at depth 0 and deeper
    out.append(dict(name="leading-period-names", family="core", pats=["*.swp", "*~", "?x*", "*two"],
                    init=d(("main.c", f("m")), (".main.c.swp", f("s")), (".x.tmp", f("t")), ("sub", d(("..two", f("2")), (".b.swp", f("s")), ("b", f("b"))))), steps=[
        dict(labels=["excluded-content (.main.c.swp)"], ops=[dict(op="write", path="tree/.main.c.swp", data="ss", t=T0 + 980 * STEP_NS)]),
        dict(labels=["excluded-content (.x.tmp, hidden by ?x*)"], ops=[dict(op="write", path="tree/.x.tmp", data="tt", t=T0 + 981 * STEP_NS)]),
        dict(labels=["excluded-content (sub/..two)"], ops=[dict(op="write", path="tree/sub/..two", data="22", t=T0 + 982 * STEP_NS)]),
        dict(labels=["excluded-rm (sub/.b.swp), directory mtime restored"], ops=[dict(op="rm", path="tree/sub/.b.swp", dir="keep")]),
        dict(labels=["excluded-add (.new.swp)"], ops=[dict(op="add", path="tree/.new.swp", spec=f(), dir_t=T0 + 983 * STEP_NS)]),
        dict(labels=["excluded-rm (.new.swp)"], ops=[dict(op="rm", path="tree/.new.swp", dir_t=T0 + 984 * STEP_NS)]),
        dict(labels=["content (main.c)"], ops=[dict(op="write", path="tree/main.c", data="mm", t=T0 + 985 * STEP_NS)])]))
    out.append(dict(name="leading-period-star", family="core", pats=["[.]*"],
                    init=d(("a", f()), (".hidden", f("h")), ("sub", d((".cache", d(("obj", f("o")))), ("k", f("k"))))), steps=[
        dict(labels=["excluded-content (.hidden)"], ops=[dict(op="write", path="tree/.hidden", data="hh", t=T0 + 986 * STEP_NS)]),
        dict(labels=["excluded-content (sub/.cache/obj)"], ops=[dict(op="write", path="tree/sub/.cache/obj", data="oo", t=T0 + 987 * STEP_NS)]),
        dict(labels=["content (sub/k)"], ops=[dict(op="write", path="tree/sub/k", data="kk", t=T0 + 988 * STEP_NS)])]))
    # D1 (known): chmod only
    out.append(dict(name="chmod-only", family="mode", pats=[], init=d(("a.txt", f()), ("sub", d(("b", f())))), steps=[
        dict(labels=["chmod"], ops=[dict(op="chmod", path="tree/sub/b", mode=0o600)]),
        dict(labels=["nothing"], ops=[])]))
    # D3 (known): filtered listing reused when the directory's stat is unchanged
    out.append(dict(name="filtered-stale", family="stale", pats=["*.tmp"], init=d(("a.txt", f()), ("sub", d(("b", f()), ("x.tmp", f())))), steps=[
        dict(labels=["add-file-keep"], ops=[dict(op="add", path="tree/sub/new", spec=f(), dir="keep")]),
        dict(labels=["nothing"], ops=[]),
        dict(labels=["rm-keep"], ops=[dict(op="rm", path="tree/sub/b", dir="keep")])]))
    # the same edits without patterns are seen
    out.append(dict(name="unfiltered-keep", family="core", pats=[], init=d(("a.txt", f()), ("sub", d(("b", f()), ("x.tmp", f())))), steps=[
        dict(labels=["add-file-keep"], ops=[dict(op="add", path="tree/sub/new", spec=f(), dir="keep")]),
        dict(labels=["nothing"], ops=[]),
        dict(labels=["rm-keep"], ops=[dict(op="rm", path="tree/sub/b", dir="keep")])]))
    # D4 (known): links are seen through
    out.append(dict(name="link-retype", family="symlink", pats=[], init=d(("a.txt", f()), ("l", dict(k="l", to="a.txt")), ("sub", d(("b", f())))), steps=[
        dict(labels=["respell-link"], ops=[dict(op="relink", path="tree/l", to="./a.txt", t=T0 + 903 * STEP_NS, dir="keep")]),
        dict(labels=["link-to-hardlink"], ops=[dict(op="hardlink_over", path="tree/l", target="tree/a.txt", dir="keep")])]))
    # breaking changes the generator must be able to see (task text): last child's sub-signature, content-only edits deep
    out.append(dict(name="deep-last-child", family="core", pats=[], init=d(("a", f()), ("z.d", d(("k", f()), ("zz top", d(("m.c", f("1")), ("zz", f("22"))))))), steps=[
        dict(labels=["content (deep, last child of last child)"], ops=[dict(op="write", path="tree/z.d/zz top/zz", data="333", t=T0 + 904 * STEP_NS)]),
        dict(labels=["nothing"], ops=[]),
        dict(labels=["content-same-size"], ops=[dict(op="write", path="tree/z.d/zz top/zz", data="444", t=T0 + 905 * STEP_NS)]),
        dict(labels=["touch-1ns"], ops=[dict(op="touch", path="tree/z.d/zz top/zz", t=T0 + 905 * STEP_NS + 1)]),
        dict(labels=["add (deep, last)"], ops=[dict(op="add", path="tree/z.d/zz top/zzz", spec=f(), dir_t=T0 + 906 * STEP_NS)]),
        dict(labels=["retype file -> directory (deep)"], ops=[dict(op="retype", path="tree/z.d/zz top/zzz", spec=d(), dir_t=T0 + 907 * STEP_NS)])]))
    # missing root, file root
    out.append(dict(name="missing-root", family="root", pats=[], init=None, steps=[
        dict(labels=["nothing"], ops=[]),
        dict(labels=["create root"], ops=[dict(op="add", path="tree", spec=d(("a", f())))]),
        dict(labels=["root becomes a file"], ops=[dict(op="retype", path="tree", spec=f("file root"))]),
        dict(labels=["content of the file root"], ops=[dict(op="write", path="tree", data="file root changed", t=T0 + 908 * STEP_NS)])]))
    out.append(dict(name="file-root-filtered", family="root", pats=["*.tmp"], init=f("file root"), steps=[
        dict(labels=["nothing"], ops=[]),
        dict(labels=["root becomes a directory"], ops=[dict(op="retype", path="tree", spec=d(("a", f()), ("x.tmp", f())))]),
        dict(labels=["excluded-content"], ops=[dict(op="write", path="tree/x.tmp", data="hidden", t=T0 + 909 * STEP_NS)])]))
    return out

# ------------------------------------------------------------------ glob (trusted instantiation of `matches`) against Python's fnmatch

def check_glob(chk, model):
    names = FILE_NAMES + DIR_NAMES + ["", "x", "xtmp", ".tmp", "a.tmpx", "skip", "skip12", "n  .tmp", "axb", "a\\*b", "b\\\\c", "bc", "[", "]", "[ab]", "-", "!", "^", "\\"]
    pats = sorted(set(p for ps in PATTERN_SETS for p in ps) | {"*", "?", "??", "*.*", "a*b*", "*p", "s*?", "\\*", "\\?", "a\\", "\\\\", "[", "[a", "[]]", "[!]]", "[^a]*",
                                                              "[a-c]", "[a\\-c]", "[]-]", "[--0]", "*[.]*", "[!.]*", "\\[ab\\]", "[[]", "k", ".cache", "\\a"})
    reqs = ["excluded %s %s" % (hx(p.encode()), hx(n.encode())) for p in pats for n in names]
    rc, out, err = vlib.run_lines(model, reqs)
    bad = []
    i = 0
    for p in pats:
        for n in names:
            chk.count()
            want = c_fnmatch(p, n)
            if (out[i] == "1") != want:
                bad.append(dict(pattern=p, name=n, model=out[i], libc=want))
            i += 1
    if bad:
        chk.violation("glob-correspondence", "the glob that instantiates `matches` in ocaml/vmodel_dirtree.ml disagrees with libc fnmatch on %d (pattern, name) pairs" % len(bad),
                      dict(examples=bad[:8]), found_input=False, broken="trusted instantiation of matches (ocaml/vmodel_dirtree.ml glob)")
    chk.cov["glob_pairs"] = len(reqs)

# ------------------------------------------------------------------ entry points

def gen_scenario(rng, family, pats, idx):
    maxdepth = 3
    sc = dict(family=family, pats=pats, steps=[], nsteps=rng.randint(2, 4) + 1,
              siblings=dict(outside=dict(k="d", mode=0o755, c=[["of", dict(k="f", data="outside")], ["od", dict(k="d", mode=0o755, c=[["o2", dict(k="f", data="o")]])]])))
    sc["init"] = gen_spec(rng, 1, maxdepth, 3, ["../outside/of", "../../outside/od", "nowhere", "a", "b.txt"])
    if family == "ancestor":
        # links to ancestors at depth 1 and 2: up -> .., up2 -> ../.., self -> .
        sc["ancestor_links"] = True
        sc["absolute"] = rng.random() < 0.5
        dirs1 = [e for e in sc["init"]["c"] if e[1]["k"] == "d"]
        if not dirs1:
            sc["init"]["c"].append(["sub", dict(k="d", mode=0o755, c=[["k", dict(k="f", data="k")]])])
            dirs1 = [sc["init"]["c"][-1]]
        d1 = rng.choice(dirs1)[1]
        d1["c"] = [e for e in d1["c"] if e[0] not in ("up", "up2", "self")] + [["up", dict(k="l", to="..")]]
        if rng.random() < 0.6:
            d1["c"].append(["self", dict(k="l", to=".")])
        dirs2 = [e for e in d1["c"] if e[1]["k"] == "d"]
        if dirs2 and rng.random() < 0.7:
            d2 = rng.choice(dirs2)[1]
            d2["c"] = [e for e in d2["c"] if e[0] not in ("up", "up2")] + [["up2", dict(k="l", to="../..")], ["up", dict(k="l", to="..")]]
    if family == "produced":
        # the root and up to two existing sub-directories are outputs of mkdir commands
        subs = []
        for n1, c1 in sc["init"]["c"]:
            if c1["k"] == "d":
                subs.append(n1)
                subs += [n1 + "/" + n2 for n2, c2 in c1.get("c", []) if c2["k"] == "d"][:1]
        sc["produced"] = [""] + rng.sample(subs, min(len(subs), 2))
    sc["tspell"] = rng.choice(["slash", "slash", "type", "is-directory"])
    sc["sspell"] = rng.choice(["is-directory-structure", "type"])
    if family == "symlink":
        sc["init"]["c"] = [e for e in sc["init"]["c"] if e[0] not in ("k", "lk", "zz")] + [["k", dict(k="f", data="target")], ["lk", dict(k="l", to="k")]]
    return sc

def make_generator(rng, family, pats0):
    def generate(sb, k):
        ops, labels = [], []
        pats = getattr(sb, "cur_pats", pats0)
        if family == "patterns" and rng.random() < 0.5:
            # an edit of the description: other patterns, one more pattern, none at all, or the same list again
            choice = rng.random()
            if choice < 0.2:
                new = list(pats)
            elif choice < 0.4:
                new = []
            elif choice < 0.6:
                new = list(pats) + [rng.choice([q for q in ["k", "*.c", "skip?", ".*", "zz*"] if q not in pats])]
            elif choice < 0.75:
                new = ["*.nothing"]
            else:
                new = list(rng.choice(PATTERN_SETS))
            step = dict(ops=[], labels=["patterns -> %s" % json.dumps(new)], pats=new)
            if rng.random() < 0.4:
                e = gen_edit(rng, sb, "core", pats)
                if e is not None:
                    sb.apply(e[0]); step["ops"].append(dict(e[0])); step["labels"].append(e[1])
            return step
        if rng.random() < 0.15 or (k == 1 and rng.random() < 0.3):
            return dict(ops=[], labels=["nothing"])
        n = 1 if rng.random() < 0.7 else rng.randint(2, 3)
        fam = family
        for _ in range(n):
            for attempt in range(6):
                f = "ancestor" if fam == "ancestor" else "core" if fam in ("produced", "patterns") else (fam if (fam in ("core",) or rng.random() < 0.75) else "core")
                e = gen_edit(rng, sb, f, pats)
                if e is not None:
                    break
            if e is None:
                continue
            op, label = e
            sb.apply(op)            # applied immediately so that the next choice sees the new tree
            ops.append(dict(op)); labels.append(label)
            for bad in ([] if family == "ancestor" else cycle_links(sb)):      # other loops are outside the generator's space
                if os.path.lexists(sb.p(bad)):
                    fix = dict(op="rm", path=bad, dir_t=sb.tick())
                    sb.apply(fix)
                    ops.append(fix); labels.append("rm-loop-link")
        return dict(ops=ops, labels=labels if labels else ["nothing"])
    return generate

def run(chk):
    llb = vlib.llbuild_bin()
    model = vlib.model_bin("dirtree")
    chk.proof_gate()
    shutil.rmtree(BASE, ignore_errors=True)
    os.makedirs(BASE, exist_ok=True)
    check_glob(chk, model)
    idx = 0
    builds = agreed = 0
    scen = []
    for sc in corpus():
        scen.append((sc, None))
    rng = chk.rng
    plan = []
    n = chk.n(60, 900)
    for i in range(n):
        r = i % 16
        family = "core" if r < 6 else ("mode", "stale", "symlink", "root", "produced", "produced", "patterns", "patterns", "ancestor", "ancestor")[r - 6]
        pats = rng.choice(PATTERN_SETS) if (family == "stale" or (family == "patterns" and rng.random() < 0.8) or (family != "symlink" and rng.random() < 0.45)) else []
        plan.append((family, pats))
    for family, pats in plan:
        sc = gen_scenario(rng, family, pats, idx)
        scen.append((sc, make_generator(rng, family, pats)))
    for sc, g in scen:
        if sc.get("ancestor_links") and any(v["key"] == "ancestor-links-do-not-terminate" for v in chk.violations):
            continue    # already found: do not wait for the timeout in every further scenario of this family
        try:
            records = run_scenario_live(chk, llb, model, sc, idx, g)
        except RuntimeError as e:
            chk.violation("harness-model-failure", str(e)[:300], dict(scenario={k: v for k, v in sc.items() if not k.startswith("_")}), found_input=False, broken="c12 harness / model driver")
            idx += 1
            continue
        builds += len(records)
        agreed += judge(chk, sc, records, idx)
        if idx in (1, 6) or (g is not None and len(chk.samples) < 5 and any(r.get("must_T") for r in records[1:])):
            chk.sample(dict(family=sc.get("family"), patterns=sc["pats"], name=sc.get("name"),
                            steps=[dict(edits=r["labels"], tree_ran=r["ranT"], structure_ran=r["ranS"], oracle_tree=r.get("must_T"), oracle_structure=r.get("must_S"),
                                        model_tree=r.get("model_T"), model_structure=r.get("model_S")) for r in records]))
        if not chk.violations:
            shutil.rmtree(os.path.join(BASE, "s%d" % idx), ignore_errors=True)
        idx += 1
    chk.cov["scenarios"] = idx
    chk.cov["builds"] = builds
    chk.cov["traces_validated_against_impl"] = agreed
    chk.assumptions = ["default file-system mode (stat records: device, inode, mode, size, mtime; no checksums)",
                       "the database holds no values for paths that were absent in the previous build (two-tree formulation of rebuild)",
                       "an inode never changes its file type (same device+inode+size+mtime implies same S_IFMT bits)",
                       "fnmatch is a Section variable (matches) in the theorems; the extracted model instantiates it with a byte-wise glob ('*', '?', literals) checked against libc fnmatch on the generated patterns and names",
                       "llvm::hash_combine chain idealised: one collision-free 64-bit function of the sequence of combined items on the finite set of sequences that occur (hash_good)",
                       "every build is a new process over one database (--db); the model threads one database state",
                       "scenarios whose watched directories are OUTPUTS of mkdir-tool commands are judged by the snapshot oracle only (the Coq model covers input directories); the own stat record of such a directory is not required to trigger (its producer's result stays valid while the directory exists)"]
    return chk.finish(level="proof",
                      rule="fixed corpus (inputs of the repaired and known findings, deep last-child edits, missing/file roots) plus generated scenarios: a random tree (depth <= 3, fan-out <= 3; files, directories, symlinks inside/outside/dangling, fifos; names with spaces and dots) "
                           "materialised with explicit distinct mtimes, then 3-5 batches of 1-3 edits (content with/without size change, mtime-only incl. +1ns, add/remove/rename/move/retype, replace inode, chmod, edits inside excluded names, directory mtime bumped or restored, link<->file, links to an entry of the same directory added/removed/retargeted directory<->file, file<->fifo, root removed/retyped), "
                           "each followed by a build in a fresh process; with and without content-exclusion-patterns (globs, backslash escapes, bracket expressions, plain names); watched directories pre-existing or produced by mkdir commands of the description. Every build's 'ran again?' for the tree and the structure command is compared with the extracted model and with the snapshot oracle. "
                           "non-trivial = builds where the oracle demands a re-run of at least one command; distinct by (family, filtered?, edit labels, outcome)",
                      trusted=["hand-written model coq/BSys/DirTree.v tied by correspondence at the CLI only", "Python os.lstat/os.stat/os.listdir/realpath and libc fnmatch (ctypes) as independent observers",
                               "fnmatch is a Section variable (matches); extracted model uses the glob of ocaml/vmodel_dirtree.ml", "ideal hash: hash_good premise of the signature-level theorems",
                               "extraction (ExtrOcamlBasic) + ocaml/vmodel_dirtree.ml"])

def run_scenario_live(chk, llb, model, sc, idx, gen):
    """generated scenarios apply their edits while generating; wrap so that run_scenario does not apply them again"""
    if gen is None:
        return run_scenario(chk, llb, model, sc, idx)
    class Once(dict):
        pass
    def g(sb, k):
        step = gen(sb, k)
        step = dict(step)
        live = dict(ops=[], labels=step["labels"], recorded_ops=step["ops"])   # already applied
        if "pats" in step:
            live["pats"] = step["pats"]
        return live
    records = run_scenario(chk, llb, model, sc, idx, generate=g)
    # store the replayable form
    for st in sc["steps"]:
        if "recorded_ops" in st:
            st["ops"] = st.pop("recorded_ops")
    return records

def replay(chk, rp):
    llb = vlib.llbuild_bin()
    model = vlib.model_bin("dirtree")
    sc = rp.get("scenario")
    if not sc:
        print(json.dumps(rp, indent=1)[:4000])
        return run(chk)
    os.makedirs(BASE, exist_ok=True)
    sc = copy.deepcopy(sc)
    sc.pop("nsteps", None)
    records = run_scenario(chk, llb, model, sc, 9999)
    for r in records:
        print(json.dumps({k: v for k, v in r.items() if k != "hints"}, default=str))
    judge(chk, sc, records, 9999)
    if chk.violations:
        print("REPLAY: the recorded scenario still fails")
    else:
        print("REPLAY: the recorded scenario passes now")
    return run(chk)     # the full check follows, so that the evidence file describes a complete run
