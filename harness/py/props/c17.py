# C17 - Ninja manifests mean what Ninja says (manifest parsing and evaluation part; the lexer and shell quoting
# parts live in props/c17lex.py and are called from here when present).
#
#  (a) proof gate: Props/Properties_C17.v when it exists, else Props/Properties_C17eval.v
#  (b) differential: generated manifests -> `ninja_driver ast` (REAL lexer + parser) -> model `load`
#      versus `ninja_driver load` (REAL ManifestLoader): the canonical dumps must be identical
#  (c) oracle, independent of the model: the installed ninja (1.11.1) on the well-formed, restricted manifests:
#      `-t compdb` (+ `-t commands <out>` for edges without inputs), `-t query`, `-n` (descriptions),
#      `-t compdb -x` (response-file contents); commands are compared after word splitting by the real /bin/sh.
import os, json, shutil, subprocess, re
import vlib
from vlib import hx, unhx

AREA = "ninjaeval"
SANDBOX = os.path.join(vlib.WORK, "tmp", "c17")
NINJA = shutil.which("ninja") or "/usr/bin/ninja"

# ------------------------------------------------------------------ corpus (defects repaired in /repo; kept as regression inputs)

CORPUS = [
    dict(name="rule-var-self-reference", files={"main.ninja": b"rule r\n  command = $command\nbuild o: r i\n"}, oracle=False,
         note="93e41ab: recursed without bound"),
    dict(name="rule-var-cycle-of-two", files={"main.ninja": b"rule r\n  command = a $description\n  description = b $command\nbuild o: r i\n"}, oracle=False),
    dict(name="subninja-parent-rule", files={"main.ninja": b"rule cc\n  command = cc $in -o $out\nbuild a.o: cc a.c\nsubninja sub.ninja\n",
                                              "sub.ninja": b"build b.o: cc b.c\nbuild all: phony b.o\n"}, oracle=True,
         note="61345c3: a subninja file could not use the rules of the enclosing scope (not even phony)"),
    dict(name="default-evaluated", files={"main.ninja": b"rule cc\n  command = cc $in -o $out\nx = top\nbuild $x.o: cc $x.c\ndefault $x.o\n"}, oracle=True,
         note="4fc9269: default looked its path up unevaluated"),
    dict(name="self-include", files={"main.ninja": b"x = 1\ninclude main.ninja\n"}, oracle=False,
         note="4a0983c: unbounded C++ recursion (segfault)"),
    dict(name="mutual-subninja", files={"main.ninja": b"subninja b.ninja\n", "b.ninja": b"subninja main.ninja\n"}, oracle=False),
    dict(name="in-out-quoting-rspfile_content",
         files={"main.ninja": b"rule link\n  command = true @$rspf $in\n  description = LINK $out from $in\n  rspfile = $rspf\n"
                              b"  rspfile_content = $in_newline -- $in\n  depfile = $out.d\nbuild o$ ut: link a$ b c\n  rspf = o.rsp\n"}, oracle=True,
         note="9d7b725: $in/$out were shell-quoted only in `command`"),
    dict(name="dollar-at-end-of-file", files={"main.ninja": b"x = abc$"}, oracle=False),
    dict(name="deferred-evaluation-errors",
         files={"main.ninja": b"include r.ninja\nbuild o: r i\nbuild p: q i\n",
                "r.ninja": b"rule q\n  command = a ${b+c} $!\n  description = ${open\nrule r\n  command = abc$"}, oracle=False),
    dict(name="build-path-build-level-binding",
         files={"main.ninja": b"rule cc\n  command = cc $in -o $out $flags\nx = top\nbuild $x.o: cc $x.c\n  x = inner\n"}, oracle=True, flagged=[0],
         note="known finding: build-statement paths are evaluated before the build-level bindings"),
]

# a chain of 66 distinct files, alternately included and subninja'd: the 64th nested file is refused (4a0983c)
_chain = {"main.ninja": b"v0 = 0\ninclude c1.ninja\n"}
for _i in range(1, 66):
    _chain["c%d.ninja" % _i] = b"v%d = $v%d.\n%s c%d.ninja\nbuild o%d: phony\n" % (_i, _i - 1, b"include" if _i % 2 else b"subninja", _i + 1, _i)
_chain["c66.ninja"] = b"never = reached\n"
CORPUS.append(dict(name="deep-include-chain", files=_chain, oracle=False))

# ------------------------------------------------------------------ generator

LETTERS = b"abcdefghijklmnopqrstuvwxyzABCDEFGHIJKLMNOPQRSTUVWXYZ0123456789"
SAFE_EXTRA = b"_-.+,@%="
PATH_SPECIALS = [b" ", b":", b"$", b"'", b'"', b"#", b"&", b";", b"(", b")", b"<", b">", b"*", b"?", b"[", b"]", b"{", b"}",
                 b"!", b"\\", b"^", b"~", b"`"]
VAR_NAMES = [b"cflags", b"ldflags", b"opt", b"cc", b"mode", b"x", b"y", b"v-1", b"a.b", b"builds", b"rulez", b"poolside",
             b"default_", b"include2", b"subninja_x", b"libs", b"desc"]
PATH_VARS = [b"dir", b"ext", b"obj"]
RULE_NAMES = [b"cc", b"link", b"cp", b"gen", b"r.1", b"buildx", b"rule-2", b"pool_"]


def esc_path(p):
    return p.replace(b"$", b"$$").replace(b" ", b"$ ").replace(b":", b"$:")


def ref(name, rng):
    """a reference to a variable in manifest syntax"""
    simple = all(c in LETTERS + b"_-" for c in name)
    if simple and rng.random() < 0.6:
        return b"$" + name
    return b"${" + name + b"}"


class Frame:
    def __init__(self, parent=None):
        self.parent = parent
        self.rules = {}        # name -> set of referenced variable names
        self.pathvars = {}     # PATH_VARS with literal values

    def rule(self, n):
        f = self
        while f:
            if n in f.rules:
                return f.rules[n]
            f = f.parent
        return None

    def visible_rules(self):
        out, f = [], self
        while f:
            out += [r for r in f.rules if r not in out]
            f = f.parent
        return out

    def pathvar(self, n):
        f = self
        while f:
            if n in f.pathvars:
                return f.pathvars[n]
            f = f.parent
        return b""


class Gen:
    def __init__(self, rng, kind):
        # kind: "oracle" (well-formed, restricted, canonical paths), "late" (re-binding after use allowed),
        #       "weird" (non-canonical path spellings), "malformed"
        self.rng, self.kind = rng, kind
        self.files = {}
        self.extra_names = []      # include targets that do not exist
        self.counter = 0
        self.outputs = []          # (manifest text, frame id) of earlier outputs
        self.sources = []
        self.frozen = set()
        self.pools = [b"console"]
        self.flagged = []          # indices (in load order) of builds whose paths use a variable bound in their own block
        self.nbuilds = 0
        self.nfiles = 0
        self.features = set()

    # ---- atoms
    def word(self, n=None, high=0.15):
        rng = self.rng
        n = n or rng.randint(1, 6)
        out = bytearray()
        for _ in range(n):
            r = rng.random()
            if r < high:
                out.append(rng.randrange(0x80, 0x100)); self.features.add("high-byte")
            elif r < high + 0.1:
                out.append(rng.choice(SAFE_EXTRA))
            else:
                out.append(rng.choice(LETTERS))
        return bytes(out)

    def safe_word(self):
        return bytes(self.rng.choice(LETTERS[:52]) for _ in range(self.rng.randint(1, 5)))

    def path_component(self):
        rng = self.rng
        w = bytearray(self.word(high=0.08))
        if rng.random() < 0.3:
            for _ in range(rng.randint(1, 2)):
                s = rng.choice(PATH_SPECIALS)
                pos = rng.randint(0, len(w))
                if s == b"#" and pos == 0:
                    pos = len(w)
                w[pos:pos] = s
                self.features.add("path-special:" + s.decode())
        w = bytes(w)
        if w in (b".", b".."):
            w += b"x"
        return w

    def raw_path(self, suffix=b""):
        rng = self.rng
        comps = [self.path_component() for _ in range(rng.choice([1, 1, 1, 2, 3]))]
        p = b"/".join(comps) + suffix
        if self.kind == "weird" and rng.random() < 0.6:
            self.features.add("weird-path")
            r = rng.random()
            if r < 0.2: p = b"./" + p
            elif r < 0.35: p = p + b"/"
            elif r < 0.5: p = comps[0] + b"/../" + p
            elif r < 0.6: p = comps[0] + b"//" + p
            elif r < 0.7: p = b"/abs/" + p
            elif r < 0.8: p = b"../" + p
            elif r < 0.9: p = comps[0] + b"/./" + p
            else: p = p + b"/."
        return p

    def path_text(self, frame, raw=None, allow_vars=True):
        """manifest spelling of a path, possibly through path variables"""
        rng = self.rng
        raw = raw if raw is not None else self.raw_path()
        t = esc_path(raw)
        if allow_vars and rng.random() < 0.25 and any(frame.pathvar(v) for v in PATH_VARS):
            v = rng.choice([v for v in PATH_VARS if frame.pathvar(v)])
            self.features.add("path-var")
            r = rng.random()
            if r < 0.5:
                t = ref(v, rng) + b"/" + t
            else:
                t = t + b"${" + v + b"}"
        return t

    def fresh_output(self, frame):
        self.counter += 1
        raw = self.raw_path(suffix=b"-o%d" % self.counter)
        t = self.path_text(frame, raw)
        self.outputs.append(t)
        return t

    def input_text(self, frame):
        rng = self.rng
        if self.outputs and rng.random() < 0.4:
            return rng.choice(self.outputs)
        if self.sources and rng.random() < 0.4:
            return rng.choice(self.sources)
        self.counter += 1
        t = self.path_text(frame, self.raw_path(suffix=b"-s%d" % self.counter))
        self.sources.append(t)
        return t

    def value_text(self, frame, shell_neutral=True, depth=0):
        """right-hand side of a binding"""
        rng = self.rng
        parts = []
        for _ in range(rng.choice([0, 1, 1, 2, 3, 4])):
            r = rng.random()
            if r < 0.45:
                parts.append(self.word())
            elif r < 0.65:
                parts.append(ref(rng.choice(VAR_NAMES + PATH_VARS), rng)); self.features.add("nested-ref")
            elif r < 0.72:
                parts.append(b"$" + rng.choice([b"x", b"cc", b"opt"]) + b"." + self.safe_word()); self.features.add("$x.y")
            elif r < 0.78:
                parts.append(self.word(2) + b"$:" + self.word(2)); self.features.add("$:")
            elif r < 0.84:
                parts.append(self.word(2) + b"$ " + self.word(2)); self.features.add("$-space")
            elif r < 0.9:
                parts.append(self.word(2) + b"$\n" + b" " * rng.randint(0, 6) + self.word(2)); self.features.add("$-newline")
            elif r < 0.95 and not shell_neutral:
                parts.append(b"$$" + self.word(2)); self.features.add("$$")
            else:
                parts.append(b"-D" + self.safe_word() + b"=" + self.safe_word())
        sep = b" " if rng.random() < 0.8 else b""
        return sep.join(parts)

    # ---- statements
    def binding(self, frame, out):
        rng = self.rng
        if rng.random() < 0.25:
            n = rng.choice(PATH_VARS)
            if n in self.frozen and self.kind in ("oracle", "weird"):
                return
            v = self.safe_word()
            frame.pathvars[n] = v
            out.append(n + rng.choice([b" = ", b"=", b"   =   "]) + v)
            return
        cands = [n for n in VAR_NAMES if not (n in self.frozen and self.kind in ("oracle", "weird"))]
        if not cands:
            return
        n = rng.choice(cands)
        out.append(n + b" = " + self.value_text(frame, shell_neutral=(n != b"desc")))
        self.features.add("top-level-binding")

    def rule(self, frame, out, name=None):
        rng = self.rng
        cands = [r for r in RULE_NAMES if r not in frame.rules]
        if name is None:
            if not cands:
                return
            name = rng.choice(cands)
        refs = set()
        def rv(n):
            refs.add(n)
            return ref(n, rng)
        lines = [b"rule " + name]
        shape = rng.random()
        rsp = shape < 0.2
        depref = False
        inref = rng.choice([b"$in", b"${in}"])
        outref = rng.choice([b"$out", b"${out}"])
        if rsp:
            cmd = rv(b"cc") + b" @" + rv(b"rspf") + b" -o " + outref + b" " + rv(b"ldflags")
            self.features.add("rspfile")
        elif shape < 0.4:
            # the command / description name the rule's own dependency and response files through $depfile / $rspfile,
            # which are defined from $out / $in: the quoting mode of the QUERY (command: quoted) must reach them
            depref = True
            cmd = rv(b"cc") + b" -MF " + rng.choice([b"$depfile", b"${depfile}"]) + rng.choice([b"", b" @$rspfile", b" @${rspfile}"]) + \
                b" -c " + inref + b" -o " + outref + b" " + rv(rng.choice([b"cflags", b"opt", b"mode"]))
            self.features.add("command-via-$depfile")
        elif shape < 0.85:
            cmd = rv(b"cc") + b" " + inref + b" -o " + outref + b" " + rv(rng.choice([b"cflags", b"opt", b"mode", b"a.b"]))
        else:
            cmd = b"tool " + self.word(3, high=0.3) + b" " + outref + b" " + inref + rng.choice([b"", b" $\n      " + rv(b"libs")])
        lines.append(b"  command = " + cmd)
        if depref:
            lines.append(b"  depfile = " + rng.choice([outref + b".d", b"deps/" + outref + b".d", inref + b".dep"]))
            if b"rspfile" in cmd or rng.random() < 0.3:
                lines.append(b"  rspfile = " + outref + b".rsp")
                lines.append(b"  rspfile_content = " + rng.choice([inref, b"$in_newline", inref + b" $depfile", b"-o " + outref + b" @$rspfile"]))
                self.features.add("rspfile-from-$out")
            if rng.random() < 0.7:
                lines.append(b"  description = " + rng.choice([b"CC " + outref + b" (deps in $depfile)", b"DEP $depfile", b"RSP $rspfile " + inref]))
        elif rng.random() < 0.6:
            d = rng.choice([b"CC " + outref, b"LINK " + outref + b" <- " + inref, rv(b"desc") + b" " + outref,
                            b"RUN " + outref + b": $command", b"$$ " + outref + b" $: " + self.word(3)])
            lines.append(b"  description = " + d)
            if b"$command" in d:
                self.features.add("rule-var-refers-rule-var")
        if depref:
            pass
        elif rng.random() < 0.3:
            lines.append(b"  depfile = " + outref + rng.choice([b".d", b".dep " + rv(b"x")]))
            if rng.random() < 0.6:
                lines.append(b"  deps = gcc")
            self.features.add("depfile")
        elif rng.random() < 0.1:
            lines.append(b"  deps = msvc")
        if rsp:
            lines.append(b"  rspfile = " + rv(b"rspf"))
            lines.append(b"  rspfile_content = " + rng.choice([b"$in_newline", b"$in", b"$in_newline " + rv(b"libs"), inref + b" " + outref]))
            self.features.add("in_newline")
        if rng.random() < 0.2 and len(self.pools) > 0:
            lines.append(b"  pool = " + rng.choice(self.pools))
            self.features.add("pool-use")
        if rng.random() < 0.15:
            lines.append(b"  generator = " + rng.choice([b"1", b"", rv(b"mode")]))
        if rng.random() < 0.15:
            lines.append(b"  restat = " + rng.choice([b"1", b"true", rv(b"y")]))
        if rng.random() < 0.3:
            lines = [lines[0]] + sorted(lines[1:], key=lambda l: rng.random())
        if rng.random() < 0.1 and self.kind != "oracle":
            lines.insert(rng.randint(1, len(lines)), b"   ")  # indented blank line inside the block (ninja ends the block there)
            self.features.add("blank-line-in-block")
        frame.rules[name] = dict(refs=refs, rsp=rsp, deps_gcc=any(l.strip() == b"deps = gcc" for l in lines))
        out.append(b"\n".join(lines))
        self.features.add("rule")

    def pool(self, frame, out):
        rng = self.rng
        name = b"p%d" % (len(self.pools))
        out.append(b"pool " + name + b"\n  depth = " + rng.choice([b"1", b"3", b"07", b"4294967297"]))
        self.pools.append(name)
        self.features.add("pool")

    def build(self, frame, out):
        rng = self.rng
        rules = frame.visible_rules()
        use_phony = rng.random() < 0.12 or not rules
        rname = b"phony" if use_phony else rng.choice(rules)
        info = None if use_phony else frame.rule(rname)
        nouts = rng.choice([1, 1, 1, 2, 3])
        outs = [self.fresh_output(frame) for _ in range(nouts)]
        known_before = list(self.outputs[:-nouts])
        saved = self.outputs
        self.outputs = known_before
        ex = [self.input_text(frame) for _ in range(rng.choice([0, 1, 1, 2, 3]))]
        im = [self.input_text(frame) for _ in range(rng.choice([0, 0, 0, 1, 2]))]
        oo = [self.input_text(frame) for _ in range(rng.choice([0, 0, 0, 1, 2]))]
        self.outputs = saved
        if im: self.features.add("implicit-input")
        if oo: self.features.add("order-only-input")
        if nouts > 1: self.features.add("multiple-outputs")
        cont = lambda: (b" $\n" + b" " * rng.randint(1, 8)) if rng.random() < 0.1 else b" "
        line = b"build"
        for o in outs:
            line += cont() + o
        line += rng.choice([b":", b": ", b" : "]) + rname
        for i in ex:
            line += cont() + i
        if im:
            line += b" |" + b"".join(cont() + i for i in im)
        if oo:
            line += b" ||" + b"".join(cont() + i for i in oo)
        lines = [line]
        bl = set()
        if info and info["rsp"]:
            self.counter += 1
            lines.append(b"  rspf = r%d.rsp" % self.counter); bl.add(b"rspf")
        if info and rng.random() < 0.35:
            # 2-4 indented bindings that mention names bound EARLIER IN THE SAME statement, file-level names and
            # themselves: every value is evaluated in the file scope only (the bindings never see each other)
            used = sorted(n for n in info["refs"] if n != b"rspf") or [b"cflags"]
            helper = rng.choice([b"opt", b"mode", b"x", b"y", b"libs", b"cflags"])
            target = rng.choice(used)
            chain = [(helper, self.word(3, high=0.05))]
            r = rng.random()
            if r < 0.5:
                chain.append((target, self.word(2, high=0.05) + b" " + ref(helper, rng) + b" " + self.word(2, high=0.05)))
            else:
                chain.append((target, self.word(3, high=0.05)))
                chain.append((target, ref(target, rng) + b"-again"))
            if rng.random() < 0.4:
                chain.append((helper, ref(target, rng) + b"." + ref(helper, rng)))
            if rng.random() < 0.4:
                chain.append((rng.choice(used), ref(helper, rng) + b" " + ref(rng.choice(VAR_NAMES), rng)))
            for (n, v) in chain:
                lines.append(b"  " + n + b" = " + v); bl.add(n)
            self.features.add("build-level-chain")
        elif rng.random() < 0.4 and not use_phony:
            for _ in range(rng.randint(1, 3)):
                r = rng.random()
                if r < 0.6:
                    n = rng.choice([b"cflags", b"opt", b"mode", b"a.b", b"libs", b"ldflags", b"desc", b"cc"])
                    lines.append(b"  " + n + b" = " + self.value_text(frame)); bl.add(n)
                    self.features.add("build-level-override")
                elif r < 0.75:
                    lines.append(b"  description = OVERRIDE " + self.value_text(frame, shell_neutral=False)); bl.add(b"description")
                    self.features.add("build-level-description")
                elif r < 0.85:
                    lines.append(b"  command = other " + self.value_text(frame)); bl.add(b"command")
                    self.features.add("build-level-command")
                elif r < 0.95 and self.pools:
                    lines.append(b"  pool = " + rng.choice(self.pools)); bl.add(b"pool")
                else:
                    lines.append(b"  generator = 1"); bl.add(b"generator")
        # the reset idiom of the Ninja manual: a build-level binding whose value is (or evaluates to) the EMPTY string still
        # shadows the rule-level and file-level values of that name
        if info and rng.random() < 0.3:
            cands = sorted(n for n in info["refs"] if n != b"rspf") + [b"description", b"pool", b"rspfile", b"rspfile_content", b"deps", b"generator"]
            if not info.get("deps_gcc"):
                cands.append(b"depfile")
            for n in rng.sample(cands, min(len(cands), rng.randint(1, 3))):
                v = rng.choice([b"", b"", b"$undefined_zz", b"${empty_zz}", b"$undefined_zz${empty_zz}", b"$\n      "])
                lines.append(b"  " + n + rng.choice([b" = ", b" =", b"="]) + v); bl.add(n)
            self.features.add("empty-build-level-binding")
        # the one place where llbuild knowingly differs from ninja (known finding): a path of the statement uses a
        # variable that the statement's own block binds
        if rng.random() < 0.015 and self.kind == "oracle":
            v = rng.choice(PATH_VARS)
            lines[0] = lines[0].replace(b"build ", b"build " + ref(v, rng) + b"/", 1)
            lines.append(b"  " + v + b" = " + self.safe_word())
            self.flagged.append(self.nbuilds)
            self.features.add("build-path-uses-own-binding")
        # every variable this edge reads through its rule is frozen from here on (the property's restriction)
        if info:
            self.frozen |= (info["refs"] - bl)
            self.frozen |= set([b"command", b"description", b"depfile", b"deps", b"pool", b"generator", b"restat", b"rspfile", b"rspfile_content"])
        self.nbuilds += 1
        out.append(b"\n".join(lines))
        self.features.add("build")

    def default(self, frame, out, mine):
        if mine:
            out.append(b"default " + b" ".join(self.rng.sample(mine, min(len(mine), self.rng.randint(1, 2)))))
            self.features.add("default")

    def keyword_lookalikes(self, frame, out):
        rng = self.rng
        n = rng.choice([b"builds", b"rulez", b"poolside", b"default_", b"include2", b"subninja_x"])
        if n in self.frozen and self.kind in ("oracle", "weird"):
            return
        out.append(n + b" = " + self.word())
        self.features.add("keyword-prefix-identifier")

    def malformed_stmt(self, frame, out):
        rng = self.rng
        self.counter += 1
        k = self.counter
        choices = [
            b"build bad%d: nosuchrule a.c" % k,
            b"rule nocmd%d\n  description = x" % k,
            b"rule dup%d\n  command = a\nrule dup%d\n  command = b\nbuild dupo%d: dup%d i" % (k, k, k, k),
            b"badv%d = a$!b" % k,
            b"badv%d = ${unclosed" % k,
            b"badv%d = ${bad+name} tail" % k,
            b"rule defer%d\n  command = echo ${bar\n  description = ok $!\nbuild defo%d: defer%d i" % (k, k, k),
            b"build a$!b%d: phony" % k,
            b"rule self%d\n  command = $command\nbuild selfo%d: self%d" % (k, k, k),
            b"rule cyc%d\n  command = a $description\n  description = b $depfile\n  depfile = c $command\nbuild cyco%d: cyc%d i" % (k, k, k),
            b"rule cyd%d\n  command = ok\n  description = d $description\nbuild cydo%d: cyd%d i" % (k, k, k),
            b"include missing%d.ninja" % k,
            b"subninja missing%d.ninja" % k,
            b"rule up%d\n  command = c\n  pool = nosuchpool\nbuild upo%d: up%d" % (k, k, k),
            b"pool bd%d\n  depth = %s" % (k, rng.choice([b"0", b"-3", b"abc", b"4294967296", b"99999999999999999999", b"9223372036854775808",
                                                         b"9223372036854775807", b"3x", b"", b" 4", b"+4", b"$undefined", b"1$ "])),
            b"pool console\n  depth = 2",
            b"pool nodepth%d" % k,
            b"pool pv%d\n  depth = 2\n  foo = 1\n  depth = 5" % k,
            b"rule rv%d\n  command = c\n  cflags = 1" % k,
            b"build $undefined_var%d: phony x" % k,
            b"build eo%d: phony $undefined_var ok" % k,
            b"default nosuchtarget%d" % k,
            b"default $!",
            b"rule dp%d\n  command = c\n  deps = bogus\nbuild dpo%d: dp%d" % (k, k, k),
            b"rule dm%d\n  command = c\n  deps = msvc\n  depfile = x.d\nbuild dmo%d: dm%d" % (k, k, k),
            b"rule dg%d\n  command = c\n  deps = gcc\nbuild dgo%d: dg%d" % (k, k, k),
            b"build nocolon%d phony a" % k,
            b"build : phony",
            b"x y = 1",
            b"rule",
            b"pool",
            b"default",
            b"include",
            b"= 3",
            b"rule blk%d\n  command = c\n  foo bar\n  description = d\nbuild blko%d: blk%d" % (k, k, k),
            b"build bb%d: phony\n  = 3\n  x = 1" % k,
            b"rule phony\n  command = notphony\nbuild ph%d: phony in" % k,
            b"build rsp%d: phony\n  rspfile = ../../x/../y.rsp\n  rspfile_content = $in $out" % k,
        ]
        out.append(rng.choice(choices))
        self.features.add("malformed")

    # ---- files
    def gen_file(self, name, frame, level):
        rng = self.rng
        self.nfiles += 1
        out = []
        mine = []
        n = rng.randint(3, 9) if level == 0 else rng.randint(1, 6)
        if rng.random() < 0.3:
            out.append(b"# " + self.word(8))
        for i in range(n):
            r = rng.random()
            if self.kind == "malformed" and rng.random() < 0.25:
                self.malformed_stmt(frame, out)
            if r < 0.22:
                self.binding(frame, out)
            elif r < 0.42:
                self.rule(frame, out)
            elif r < 0.47:
                self.pool(frame, out)
            elif r < 0.8:
                before = len(self.outputs)
                self.build(frame, out)
                mine += self.outputs[before:]
            elif r < 0.84:
                self.default(frame, out, mine)
            elif r < 0.87:
                self.keyword_lookalikes(frame, out)
            elif r < 0.97 and level < 3 and self.nfiles < 6:
                self.counter += 1
                is_inc = rng.random() < 0.45
                sub = (b"inc%d.ninja" if is_inc else b"sub%d.ninja") % self.counter
                text = sub
                if rng.random() < 0.3:
                    d = frame.pathvar(b"dir")
                    if d:
                        text = ref(b"dir", rng) + b"/" + sub
                        sub = d + b"/" + sub
                if is_inc:
                    out.append(b"include " + text)
                    self.gen_file(sub.decode(), frame, level + 1)
                    self.features.add("include")
                else:
                    out.append(b"subninja " + text)
                    child = Frame(frame)
                    self.gen_file(sub.decode(), child, level + 1)
                    self.features.add("subninja")
                    if child.rules:
                        self.features.add("subninja-defines-rule")
                if level + 1 >= 2:
                    self.features.add("nesting-depth-%d" % (level + 1))
            else:
                out.append(b"")
        body = b"\n".join(out)
        if not (self.kind == "malformed" and rng.random() < 0.2):
            body += b"\n"
        elif rng.random() < 0.5:
            body += b"\nlast = abc$"          # '$' as the last byte of the file
        self.files[name] = body

    def generate(self):
        root = Frame()
        if self.rng.random() < 0.7:
            # a prelude that makes the interesting statements likely
            pre = []
            for v in PATH_VARS:
                if self.rng.random() < 0.7:
                    root.pathvars[v] = self.safe_word()
                    pre.append(v + b" = " + root.pathvars[v])
            self.prelude = b"\n".join(pre) + b"\n" if pre else b""
        else:
            self.prelude = b""
        self.gen_file("main.ninja", root, 0)
        self.files["main.ninja"] = self.prelude + self.files["main.ninja"]
        if self.kind == "malformed" and self.rng.random() < 0.08:
            self.files["main.ninja"] += b"include main.ninja\n"
            self.features.add("self-include")
        return dict(files=self.files, kind=self.kind, flagged=self.flagged, features=sorted(self.features))


# ------------------------------------------------------------------ running one case through model and implementation

class Runner:
    def __init__(self, chk, drv, model):
        self.chk, self.drv_path, self.model_path = chk, drv, model
        self.drv = vlib.Interactive(drv, env=self.env())
        self.model = vlib.Interactive(model)
        self.shcache = {}

    def env(self):
        e = dict(os.environ)
        return e

    def restart_driver(self):
        try:
            self.drv.close()
        except Exception:
            pass
        self.drv = vlib.Interactive(self.drv_path, env=self.env())

    def close(self):
        self.drv.close(); self.model.close()
        if getattr(self, "group_model", None) is not None:
            self.group_model.close()

    def write_case(self, wd, files):
        shutil.rmtree(wd, ignore_errors=True)
        os.makedirs(wd)
        for n, c in files.items():
            p = os.path.join(wd, n)
            os.makedirs(os.path.dirname(p), exist_ok=True)
            with open(p, "wb") as f:
                f.write(c)

    def both(self, wd, files, main="main.ninja"):
        """returns (impl dump, model dump) as lists of records; impl dump None = crash"""
        ast = os.path.join(wd, "ast.txt")
        names = sorted(files)
        a = self.drv.ask("ast %s %s %s %s" % (ast, hx(wd.encode()), hx(main.encode()), " ".join(hx(n.encode()) for n in names)))
        if not a.startswith("OK"):
            raise RuntimeError("ast failed: " + a)
        try:
            impl = self.drv.ask("load %s %s" % (hx(wd.encode()), hx(main.encode())))
        except RuntimeError as e:
            self.restart_driver()
            return None, str(e)
        mod = self.model.ask("load " + ast)
        return impl.split(" ; "), mod.split(" ; ")

    # ---- /bin/sh word splitting
    def sh_words(self, cmd):
        if cmd in self.shcache:
            return self.shcache[cmd]
        d = os.path.join(SANDBOX, "sh-empty")
        os.makedirs(d, exist_ok=True)
        try:
            p = subprocess.run(["/bin/sh", "-c", b"printf '%s\\0' " + cmd], cwd=d, env={"PATH": "/nonexistent"},
                               stdout=subprocess.PIPE, stderr=subprocess.PIPE, timeout=10)
            r = tuple(p.stdout.split(b"\0")[:-1]) if p.returncode == 0 else None
        except Exception:
            r = None
        for f in os.listdir(d):          # a redirection in a badly quoted command may have created files
            try: os.unlink(os.path.join(d, f))
            except OSError: pass
        self.shcache[cmd] = r
        return r


def parse_dump(recs):
    """records of the canonical dump -> dict"""
    out = dict(loaded=False, commands=[], errors=[], defaults=[], pools={}, vars={}, rules={})
    def nodes(s):
        if s == ".": return []
        return [tuple(unhx(x) for x in n.split(":")) for n in s.split(",")]
    for r in recs:
        f = r.split(" ")
        if f[0] == "L": out["loaded"] = f[1] == "1"
        elif f[0] == "C":
            out["commands"].append(dict(rule=unhx(f[1]), outs=nodes(f[2]), ex=nodes(f[3]), im=nodes(f[4]), oo=nodes(f[5]),
                                        command=unhx(f[6]), description=unhx(f[7]), deps=int(f[8]), depfile=unhx(f[9]),
                                        pool=None if f[10] == "*" else unhx(f[10]), generator=f[11] == "1", restat=f[12] == "1",
                                        rspfile=unhx(f[13]), rspfile_content=unhx(f[14])))
        elif f[0] == "E": out["errors"].append((int(f[1]), f[2]))
        elif f[0] == "D": out["defaults"] = nodes(f[1])
        elif f[0] == "P": out["pools"][unhx(f[1])] = int(f[2])
        elif f[0] == "V": out["vars"][unhx(f[1])] = unhx(f[2])
        elif f[0] == "R": out["rules"][unhx(f[1])] = f[2]
    return out


def quote_words(s):
    """split on unquoted spaces, honouring only '...' and backslash (the two quoting forms llbuild and ninja emit);
    every other byte is literal.  Used for descriptions, which are not shell commands.  None = unterminated."""
    words, cur, i, n, inw = [], bytearray(), 0, len(s), False
    while i < n:
        c = s[i:i + 1]
        if c == b"'":
            j = s.find(b"'", i + 1)
            if j < 0:
                return None
            cur += s[i + 1:j]; inw = True; i = j + 1
        elif c == b"\\" and i + 1 < n:
            cur += s[i + 1:i + 2]; inw = True; i += 2
        elif c == b" ":
            if inw:
                words.append(bytes(cur)); cur = bytearray(); inw = False
            i += 1
        else:
            cur += c; inw = True; i += 1
    if inw:
        words.append(bytes(cur))
    return tuple(words)


def show(b):
    return b.decode("latin-1") if isinstance(b, (bytes, bytearray)) else b


def case_replay(case, wd, extra=None):
    d = dict(files={n: c.hex() for n, c in case["files"].items()}, files_text={n: show(c) for n, c in case["files"].items()},
             kind=case.get("kind"), flagged=case.get("flagged", []), sandbox=wd, main="main.ninja")
    if extra:
        d.update(extra)
    return d


# ------------------------------------------------------------------ the ninja oracle

def ninja_run(wd, args, timeout=30):
    try:
        p = subprocess.run([NINJA, "-f", "main.ninja"] + args, cwd=wd, stdout=subprocess.PIPE, stderr=subprocess.PIPE, timeout=timeout,
                           env={"PATH": "/usr/bin:/bin", "LC_ALL": "C", "TERM": "dumb"})
        return p.returncode, p.stdout, p.stderr
    except subprocess.TimeoutExpired:
        return -9, b"", b"TIMEOUT"


def parse_compdb(data):
    """[{command, file, output}] of `ninja -t compdb`; byte-exact (the JSON carries raw bytes >= 0x80)"""
    try:
        l = json.loads(data.decode("latin-1"))
    except ValueError:
        return None
    return [dict(command=e["command"].encode("latin-1"), output=e["output"].encode("latin-1"), file=e["file"].encode("latin-1")) for e in l]


def parse_query(data, targets):
    """`ninja -t query t1 t2 ...` -> {target: (rule, explicit, implicit, orderonly)}; the targets are printed in the
    order given, each as "<path>:" at the start of a line"""
    out, cur, sec, ti = {}, None, None, 0
    for line in data.split(b"\n"):
        if not line:
            continue
        if ti < len(targets) and line == targets[ti] + b":":
            cur = targets[ti]; ti += 1
            out[cur] = [None, [], [], []]
            sec = None
        elif cur is None:
            continue
        elif line.startswith(b"  input: ") and sec is None:
            out[cur][0] = line[9:]; sec = "in"
        elif line == b"  outputs:":
            sec = "out"
        elif line == b"  validations:":
            sec = "val"
        elif line.startswith(b"    ") and sec == "in":
            t = line[4:]
            if t.startswith(b"|| "): out[cur][3].append(t[3:])
            elif t.startswith(b"| "): out[cur][2].append(t[2:])
            else: out[cur][1].append(t)
    return out


def oracle(chk, run, case, wd, impl, stats):
    """the installed ninja judges the implementation (independent of the Coq model).  Returns list of
    (key, what, extra replay fields)."""
    bad = []
    flagged = set(case.get("flagged", []))
    cmds = impl["commands"]
    rc, out, err = ninja_run(wd, ["-t", "compdb"])
    if rc != 0:
        # ninja rejects the manifest: only an issue when llbuild accepted it silently and no build is flagged
        stats["ninja_rejected"] += 1
        if not impl["errors"] and not flagged:
            stats["ninja_rejected_llbuild_accepted"] += 1
            chk.notes.setdefault("ninja_rejected_but_llbuild_silent", [])
            if len(chk.notes["ninja_rejected_but_llbuild_silent"]) < 3:
                chk.notes["ninja_rejected_but_llbuild_silent"].append(dict(sandbox=wd, ninja=show(err + out)[-300:]))
        return bad
    if impl["errors"]:
        bad.append(("llbuild-rejects-what-ninja-accepts", "llbuild reports errors %s on a manifest that ninja loads" % impl["errors"][:4],
                    dict(llbuild_errors=impl["errors"][:10])))
        return bad
    stats["ninja_accepted"] += 1
    db = parse_compdb(out)
    if db is None:
        stats["compdb_unparsable"] += 1
        return bad
    by_out = {}
    for e in db:
        by_out[e["output"]] = e
    # edges in the compilation database that llbuild does not have
    have = set(c["outs"][0][1] for c in cmds if c["outs"])
    # targets for -t query: every output llbuild knows
    targets = []
    for i, c in enumerate(cmds):
        if i in flagged:
            continue
        for (canon, screen) in c["outs"]:
            targets.append(screen)
    q = {}
    if targets:
        rcq, outq, errq = ninja_run(wd, ["-t", "query"] + targets)
        if rcq == 0:
            q = parse_query(outq, targets)
        else:
            m = re.search(rb"unknown target '(.*)'", errq)
            bad.append(("output-unknown-to-ninja", "ninja does not know an output that llbuild loaded: %s" % show(errq)[-200:],
                        dict(ninja_stderr=show(errq)[-400:])))
            return bad
    for i, c in enumerate(cmds):
        stats["edges"] += 1
        if i in flagged:
            # known divergence: the statement's paths use a variable bound in its own block
            first = c["outs"][0][1]
            rct, outt, errt = ninja_run(wd, ["-t", "query", first])
            if rct != 0:
                bad.append(("build-path-build-level-binding", "a build statement whose paths use a variable bound in its own block: llbuild evaluates the "
                            "paths in the file scope (output %r), ninja evaluates them with the build-level binding (ninja: %s)" % (show(first), show(errt).strip()[-120:]),
                            dict(edge_index=i, llbuild_output=show(first))))
            stats["flagged_edges"] += 1
            continue
        first = c["outs"][0][1]
        # ---- input classes and rule, per output
        for (canon, screen) in c["outs"]:
            e = q.get(screen)
            if e is None:
                bad.append(("query-missing", "ninja -t query printed nothing for output %r" % show(screen), dict(edge_index=i)))
                continue
            want = (c["rule"], [s for (_, s) in c["ex"]], [s for (_, s) in c["im"]], [s for (_, s) in c["oo"]])
            got = (e[0], e[1], e[2], e[3])
            if want != got:
                key = "input-classes" if want[0] == got[0] else "edge-rule"
                bad.append((key, "output %r: llbuild has rule/explicit/implicit/order-only = %s, ninja has %s" % (show(screen), [show(want[0])] + [[show(x) for x in l] for l in want[1:]],
                                                                                                                [show(got[0])] + [[show(x) for x in l] for l in got[1:]]),
                            dict(edge_index=i)))
            else:
                stats["query_ok"] += 1
        # ---- command
        if c["rule"] == b"phony":
            stats["phony"] += 1
            continue
        if first in by_out:
            ncmd = by_out[first]["command"]
        else:
            rcc, outc, errc = ninja_run(wd, ["-t", "commands", "--", first])     # "--": the tool parses options of its own
            if rcc != 0:
                bad.append(("commands-failed", "ninja -t commands failed for %r: %s" % (show(first), show(errc)[-200:]), dict(edge_index=i)))
                continue
            ls = outc.split(b"\n")
            ncmd = ls[-2] if len(ls) >= 2 else b""
        if ncmd == c["command"]:
            stats["command_identical"] += 1
        else:
            w1, w2 = run.sh_words(c["command"]), run.sh_words(ncmd)
            if w1 is not None and w1 == w2:
                stats["command_equal_by_sh"] += 1
            else:
                bad.append(("command-mismatch", "output %r: llbuild command %r and ninja command %r are not split into the same words by /bin/sh" % (show(first), show(c["command"]), show(ncmd)),
                            dict(edge_index=i, llbuild=show(c["command"]), ninja=show(ncmd),
                                 llbuild_words=None if w1 is None else [show(x) for x in w1], ninja_words=None if w2 is None else [show(x) for x in w2])))
    # edges ninja has that llbuild lacks
    for o in by_out:
        if o not in have and not flagged:
            bad.append(("edge-unknown-to-llbuild", "ninja has an edge with first output %r that llbuild did not load" % show(o), dict()))
    # ---- response files: `-t compdb -x` splices rspfile_content (newlines -> spaces) in place of @<rspfile>
    rsp_edges = [(i, c) for i, c in enumerate(cmds) if c["rspfile"] and i not in flagged and c["rule"] != b"phony"]
    if rsp_edges and not bad:
        rcx, outx, errx = ninja_run(wd, ["-t", "compdb", "-x"])
        dbx = parse_compdb(outx) if rcx == 0 else None
        if dbx is not None:
            bx = {e["output"]: e["command"] for e in dbx}
            for i, c in rsp_edges:
                first = c["outs"][0][1]
                if first not in bx or first not in by_out:
                    continue
                plain, expanded = by_out[first]["command"], bx[first]
                m = re.search(rb"@(r\d+\.rsp)", plain)
                if not m or plain == expanded:
                    continue
                # what llbuild would put into the response file, spliced the same way
                if not c["rspfile"].endswith(b"/" + m.group(1)):
                    bad.append(("rspfile-name", "output %r: llbuild response file %r, ninja %r" % (show(first), show(c["rspfile"]), show(m.group(1))), dict(edge_index=i)))
                    continue
                mine = c["command"].replace(b"@" + m.group(1), c["rspfile_content"].replace(b"\n", b" "), 1)
                stats["rspfile_checked"] += 1
                if mine != expanded:
                    w1, w2 = run.sh_words(mine), run.sh_words(expanded)
                    if w1 is None or w1 != w2:
                        bad.append(("rspfile-content-mismatch", "output %r: response-file content differs: llbuild %r, ninja (spliced into the command) %r" % (show(first), show(c["rspfile_content"]), show(expanded)),
                                    dict(edge_index=i, llbuild_spliced=show(mine), ninja_spliced=show(expanded))))
    # ---- descriptions: dry run (needs the source files to exist)
    # (an edge in the console pool locks ninja's line printer, which then drops status lines: no dry run for those)
    if not bad and not flagged and cmds and not any(c["pool"] == b"console" for c in cmds):
        produced = set(s for c in cmds for (_, s) in c["outs"])
        ok = True
        for c in cmds:
            for (_, s) in c["ex"] + c["im"] + c["oo"]:
                if s in produced or s.startswith(b"/"):
                    if s.startswith(b"/") and s not in produced:
                        ok = False
                    continue
                p = os.path.join(os.fsencode(wd), s)
                try:
                    os.makedirs(os.path.dirname(p), exist_ok=True)
                    if not os.path.exists(p):
                        open(p, "wb").close()
                except OSError:
                    ok = False
        if ok:
            rcn, outn, errn = ninja_run(wd, ["-n"])
            if rcn == 0:
                lines = []
                for l in outn.split(b"\n"):
                    m = re.match(rb"\[\d+/\d+\] (.*)$", l)
                    if m:
                        lines.append(m.group(1))
                # ninja runs the edges needed for the default targets (all of them when there is no default statement)
                if not impl["defaults"]:
                    want = sorted((c["description"] or c["command"]) for c in cmds if c["rule"] != b"phony")
                    got = sorted(lines)
                    if all(b"\n" not in w for w in want):
                        stats["dry_runs"] += 1
                        # ninja quotes a superset of what llbuild quotes: equal as word lists under quote removal
                        if want != got and sorted(map(quote_words, want), key=repr) != sorted(map(quote_words, got), key=repr):
                            # quoting-only differences are still differences of the description string
                            bad.append(("description-mismatch", "the descriptions ninja prints in a dry run differ from llbuild's: only llbuild %s, only ninja %s" % (
                                [show(x) for x in want if x not in got][:3], [show(x) for x in got if x not in want][:3]), dict()))
                        else:
                            stats["descriptions_ok"] += len(want)
            else:
                stats["dry_run_failed"] += 1
                if len(chk.notes.setdefault("dry_run_failures", [])) < 3:
                    chk.notes["dry_run_failures"].append(show(errn + outn)[-300:])
    return bad


# ------------------------------------------------------------------ parts

def norm_part(chk, drv, model):
    """Manifest::normalize_path against the model (compared, not proved)"""
    rng = chk.rng
    wds = [b"/w/d", b"/", b"/w/d/", b"/w//d", b"//net/x", b"/a/../b"]
    comps = [b"a", b"b", b".", b"..", b"", b"..x", b".x", b"x.", b"...", b"a b", b"\xff"]
    reqs = []
    for _ in range(chk.n(3000, 60000)):
        wd = wds[0] if rng.random() < 0.6 else rng.choice(wds)
        n = rng.randint(0, 6)
        p = b"/".join(rng.choice(comps) for _ in range(n))
        if rng.random() < 0.3: p = b"/" + p
        if rng.random() < 0.1: p = b"/" + p
        if rng.random() < 0.2: p = p + b"/"
        reqs.append((wd, p))
    reqs += [(b"/w/d", b""), (b"/w/d", b"//net"), (b"/w/d", b"//net/a/../.."), (b"/w/d", b"../../../.."), (b"/", b"..")]
    lines = ["norm %s %s" % (hx(w), hx(p)) for (w, p) in reqs]
    rc1, o1, e1 = vlib.run_lines(drv, lines, timeout=600)
    rc2, o2, e2 = vlib.run_lines(model, lines, timeout=600)
    nd = 0
    if rc1 != 0 or len(o1) != len(lines):
        chk.violation("normalize-path-crash", "Manifest::normalize_path crashed", dict(stderr=e1[-800:], input=lines[min(len(o1), len(lines) - 1)]))
        return
    for (w, p), a, b in zip(reqs, o1, o2):
        chk.count(("norm", w, p) if (b".." in p or b"//" in p or b"/./" in p) else None)
        if a != b:
            nd += 1
            if nd <= 3:
                chk.notes.setdefault("normalize_path_disagreements", []).append(dict(wd=show(w), path=show(p), implementation=a, model=b))
    chk.cov["normalize_path_cases"] = len(reqs)
    if nd:
        chk.violation("normalize-path-correspondence", "model and implementation of Manifest::normalize_path disagree on %d of %d paths" % (nd, len(reqs)),
                      dict(examples=chk.notes.get("normalize_path_disagreements"), broken="correspondence: Parse.NinjaEval.normalize_path"), found_input=False,
                      broken="correspondence: Parse.NinjaEval.normalize_path")


def same_up_to_error_order(run, wd, impl_recs, mod_recs):
    """the two dumps agree once the error records of EACH declaration are sorted (the grouping of the errors by declaration
    comes from the parser+loader model of props/ninjaparse.py run on the files of the case); False when that model is absent"""
    try:
        import props.ninjaparse as ninjaparse
    except ImportError:
        return False
    if getattr(run, "group_model", None) is None:
        run.group_model = vlib.Interactive(vlib.model_bin(ninjaparse.AREA))
    return ninjaparse.same_up_to_error_order(run.group_model, wd, "main.ninja", impl_recs, mod_recs)


def classify_diff(impl_recs, mod_recs):
    a = [r for r in impl_recs if r not in mod_recs]
    b = [r for r in mod_recs if r not in impl_recs]
    kinds = sorted(set(r.split(" ")[0] for r in a + b))
    return a, b, kinds


def eval_part(chk, only_case=None):
    drv = vlib.build_drivers(["ninja_driver"])["ninja_driver"]
    model = vlib.model_bin(AREA)
    # ---- (a) proof gate
    have_full = os.path.exists(os.path.join(vlib.COQ, "Props", "Properties_C17.v"))
    if have_full:
        # Properties_C17.v also holds the lexer / shell-quoting theorems over the probed tables: regenerate the tables first
        search = None
        try:
            import props.c17lex as c17lex
            c17lex.prepare(chk)
            search = c17lex.proof_search(chk)
        except ImportError:
            pass
        chk.proof_gate(search=search)
    else:
        res = vlib.check_props("C17eval")
        chk.proof = res
        if res["hygiene"]:
            chk.violation("coq-hygiene", "forbidden vernacular in the development: %s" % res["hygiene"][:5],
                          dict(broken="hygiene gate", detail=res["hygiene"]), found_input=False, broken="hygiene gate")
        if not res["ok"]:
            chk.violation("proof-broken", "a proof obligation of C17 (manifest evaluation) no longer checks", dict(broken="Props/Properties_C17eval.v (or a file it depends on)",
                          failed_at=res.get("failed_at"), coq_log_tail=res["log"][-3000:]), found_input=False, broken="Props/Properties_C17eval.v")
    shutil.rmtree(SANDBOX, ignore_errors=True)
    os.makedirs(SANDBOX, exist_ok=True)
    norm_part(chk, drv, model)
    run = Runner(chk, drv, model)
    rng = chk.rng
    stats = {k: 0 for k in ["cases", "oracle_cases", "ninja_accepted", "ninja_rejected", "ninja_rejected_llbuild_accepted", "compdb_unparsable", "edges",
                            "flagged_edges", "query_ok", "phony", "command_identical", "command_equal_by_sh", "rspfile_checked", "dry_runs",
                            "descriptions_ok", "dry_run_failed", "disagreements", "errors_cases", "commands"]}
    kinds = {}
    feats = {}
    errkinds = {}
    ncases = chk.n(300, 6000)
    cases = []
    if only_case is not None:
        cases = [only_case]
    else:
        for c in CORPUS:
            cases.append(dict(files=c["files"], kind="oracle" if c["oracle"] else "malformed", flagged=c.get("flagged", []), features=["corpus:" + c["name"]]))
        for i in range(ncases):
            r = rng.random()
            kind = "oracle" if r < 0.6 else "late" if r < 0.72 else "weird" if r < 0.82 else "malformed"
            cases.append(Gen(rng, kind).generate())
    ndis = 0
    try:
        for idx, case in enumerate(cases):
            wd = os.path.join(SANDBOX, "c%d" % idx)
            run.write_case(wd, case["files"])
            impl_recs, mod_recs = run.both(wd, case["files"])
            stats["cases"] += 1
            kinds[case["kind"]] = kinds.get(case["kind"], 0) + 1
            for f in case.get("features", []):
                feats[f] = feats.get(f, 0) + 1
            if impl_recs is None:
                chk.violation("loader-crash", "the manifest loader crashed on a generated manifest: %s" % mod_recs[-300:],
                              case_replay(case, wd, dict(stderr=mod_recs[-1500:])), found_input=True, broken="ManifestLoader::load")
                continue
            impl = parse_dump(impl_recs)
            stats["commands"] += len(impl["commands"])
            for (code, arg) in impl["errors"]:
                errkinds[code] = errkinds.get(code, 0) + 1
            if impl["errors"]:
                stats["errors_cases"] += 1
            key = None
            if impl["commands"] or impl["errors"]:
                key = ("case", tuple(sorted(set(case.get("features", [])))), len(impl["commands"]), tuple(sorted(set(c for c, _ in impl["errors"]))))
            chk.count(key)
            if idx in (len(CORPUS), len(CORPUS) + 1):
                chk.sample(dict(kind=case["kind"], files={n: show(c)[:400] for n, c in case["files"].items()},
                                implementation_dump=[r[:160] for r in impl_recs[:6]], commands=len(impl["commands"])))
            obad = []
            if case["kind"] == "oracle":
                stats["oracle_cases"] += 1
                obad = oracle(chk, run, case, wd, impl, stats)
                for (k, what, extra) in obad:
                    chk.violation(k, what, case_replay(case, wd, dict(oracle="ninja %s" % NINJA, **extra)), found_input=True, broken="c17 oracle (installed ninja) on the implementation")
            if impl_recs != mod_recs and same_up_to_error_order(run, wd, impl_recs, mod_recs):
                # the same records, only the errors ONE declaration reports come in another order: the property fixes what the
                # loaded statements mean, not the order of the diagnostics of one statement (both sides are normalised per
                # declaration; errors of different declarations keep their order)
                stats["identical_up_to_error_order_within_a_declaration"] = stats.get("identical_up_to_error_order_within_a_declaration", 0) + 1
            elif impl_recs != mod_recs:
                ndis += 1
                a, b, ks = classify_diff(impl_recs, mod_recs)
                if len(chk.notes.setdefault("disagreements", [])) < 3:
                    chk.notes["disagreements"].append(dict(sandbox=wd, only_implementation=a[:4], only_model=b[:4]))
                if not obad:
                    # no property failure found on the implementation for this input: the correspondence is what broke
                    chk.violation("eval-correspondence-" + "".join(ks), "model (Parse.NinjaEval.load) and ManifestLoader disagree on a generated manifest (record kinds %s)" % ks,
                                  case_replay(case, wd, dict(only_implementation=a[:6], only_model=b[:6])), found_input=False,
                                  broken="correspondence: Parse.NinjaEval.load vs lib/Ninja/ManifestLoader.cpp")
            if only_case is None and not chk.violations:
                shutil.rmtree(wd, ignore_errors=True)
    finally:
        run.close()
    stats["disagreements"] = ndis
    chk.cov["eval"] = stats
    chk.cov["case_kinds"] = kinds
    chk.cov["features"] = feats
    chk.cov["error_kinds_seen"] = {str(k): v for k, v in sorted(errkinds.items())}
    chk.cov["traces_validated_against_impl"] = stats["cases"] - ndis
    return stats


RULE = ("generated manifest trees (main file + include/subninja files up to 3 deep): rules with every recognised variable, pools, builds with explicit / "
        "implicit / order-only inputs and 1-3 outputs, top-level and indented bindings, nested references, build-level overrides, $in/$out/$in_newline, "
        "every $-escape and line continuations, paths with spaces, quotes, '$', ':' and bytes 0x80-0xFF, keyword-prefixed identifiers, phony, default; "
        "plus a malformed stream and the corpus of repaired defects. Each manifest goes through the REAL lexer+parser (AST dump) into the extracted Coq model "
        "and through the REAL ManifestLoader; the canonical dumps must be identical. Well-formed restricted manifests are also judged by the installed ninja. "
        "non-trivial = the implementation loaded at least one command or reported an error; distinct by (feature set, number of commands, error kinds)")


def run(chk):
    eval_part(chk)
    try:
        import props.c17lex as c17lex
        c17lex.lexer_part(chk)
        c17lex.shell_part(chk)
    except ImportError:
        chk.notes["lexer_part"] = "props/c17lex.py not present: lexer and shell-quoting parts not run"
    try:
        import props.ninjaparse as ninjaparse       # bytes -> model parser -> model loader vs the real ManifestLoader (no recorded AST in between)
        ninjaparse.load_part(chk)
    except ImportError:
        chk.notes["parser_part"] = "props/ninjaparse.py not present: end-to-end bytes -> model parse -> model load not run"
    chk.assumptions = ["the parser (lib/Ninja/Parser.cpp) is not modelled: the model's input is the AST recorded from the real parser on every case",
                       "Manifest::normalize_path and the llvm path helpers are compared with the model on generated paths, not proved",
                       "the working directory is an absolute POSIX path",
                       "depfile strings are compared between model and implementation only (ninja offers no tool that prints them)"]
    return chk.finish(level="proof", rule=RULE,
                      trusted=["hand-written model coq/Parse/NinjaEval.v tied by differential execution", "harness/cpp/ninja_driver.cpp",
                               "extraction (ExtrOcamlBasic) + ocaml/vmodel_ninjaeval.ml", "installed ninja 1.11.1 and /bin/sh as reference oracles"])


def replay(chk, rp):
    files = {n: bytes.fromhex(c) for n, c in rp.get("files", {}).items()}
    if not files:
        print(json.dumps(rp, indent=1)[:4000])
        return run(chk)
    case = dict(files=files, kind=rp.get("kind") or "oracle", flagged=rp.get("flagged", []), features=["replay"])
    print("replaying %s (%d files, kind %s)" % (rp.get("finding_key"), len(files), case["kind"]))
    for n, c in files.items():
        print("--- %s\n%s" % (n, show(c)))
    eval_part(chk, only_case=case)
    return chk.finish(level="proof", rule="replay of one stored manifest", trusted=["see the full run"])
