# C11 - dependencies discovered while a command runs are honoured on later builds
# (also home of deps_part(chk): the dependency-file parsers' part of C19, called by run() and by the C19 check)
import os, json, shutil, itertools, subprocess
import vlib
from vlib import hx, unhx

AREA = "parse"
# every byte special to the Makefile format, plus separators, a plain letter, non-ASCII bytes and quotes
PATH_ALPHA = [0x20, 0x23, 0x24, 0x5c, 0x3a, 0x2f, 0x2e, 0x61, 0x80, 0xff, 0x27, 0x22, 0x62]
MALFORMED_ALPHA = PATH_ALPHA + [0x00, 0x09, 0x0a, 0x0d]
SEPS = [b" ", b" \\\n ", b" \\\r\n "]
DI_OP = {"I": 0x10, "M": 0x11, "O": 0x40}
MD_MSG = {1: "unexpected character in file", 2: "missing ':' following rule", 3: "unexpected character in prerequisites"}
DI_MSG = {1: "missing null terminator", 2: "missing version record", 3: "empty operand", 4: "invalid duplicate version",
          5: "unknown opcode in file", 6: "missing operand"}
ASAN_ENV = dict(os.environ, ASAN_OPTIONS="detect_leaks=0:abort_on_error=0:exitcode=66", UBSAN_OPTIONS="print_stacktrace=1:halt_on_error=1")

CORPUS_MD = [b"a: b\\", b"\0", b"\0v\0\0", b"a $", b"a: b\\\r", b"a: \\", b"\\", b"a:", b"a", b"#", b"#\n", b"# c\na: b\n",
             b"a: b\\\r\n", b"a: b \\\r", b"a: $", b"a: $$", b"a:\\\r", b"a: b:", b"a: :", b"a::", b"$", b"$$", b"$$:", b"a: b\\\n",
             b"a: b\\\nc", b"a\\\n: b", b"a \\\r\n : b", b"a: b\\ ", b"a: \\#", b"a: #", b"a\tb: c", b"a: b\n\tc\n", b"", b"\n", b" ",
             b"a: b\rc", b"a: b c \\\n d\ne: f\n", b"a\\", b"a: b$", b"a: b$c", b"a: $$$", b"\xff: \x80"]
CORPUS_DI = [b"\0", b"\0v\0\0", b"a: b\\", b"a $", b"", b"\0v", b"\0v\0", b"\0v\0\x10", b"\0v\0\x10\0", b"\x10a\0", b"\0\0", b"\0\0\0",
             b"\0v\0\x10a\0", b"\0v\0\0w\0", b"\0v\0\x07a\0\x10b\0", b"\0v\0\x10a\0\x11b\0\x40c\0", b"\x00", b"\x01\0", b"\0v\0\x10a", b"\0v\0\x10\0\x10b\0",
             b"\0v\0\xffa\0", b"\0\xff\0"]


# ------------------------------------------------------------------ the documented writers (independent of the model)

def py_escape(p):
    out = bytearray()
    for c in p:
        if c in (0x20, 0x23, 0x5c):
            out += bytes([0x5c, c])
        elif c == 0x24:
            out += b"$$"
        else:
            out.append(c)
    return bytes(out)

EOLS = [b"\n", b"\r\n", b""]

def py_md_write(target, paths, sep, eol=0):
    return py_escape(target) + b":" + b"".join(SEPS[sep] + py_escape(p) for p in paths) + EOLS[eol]

def py_di_write(version, recs):
    return b"\0" + version + b"\0" + b"".join(bytes([DI_OP[k]]) + s + b"\0" for (k, s) in recs)

def wf_path(p):
    return len(p) > 0 and p[0] != 0x3a and not any(c in (0, 9, 10, 13) for c in p)

def wf_target(t):
    return len(t) > 0 and not any(c in (0, 9, 10, 13, 0x3a) for c in t)

def rnd_path(rng, target=False):
    while True:
        n = rng.choice([1, 1, 2, 2, 3, 3, 4, 5, 6, 9])
        p = bytes(rng.choice(PATH_ALPHA) for _ in range(n))
        if rng.random() < 0.1:
            p = bytes(rng.randrange(1, 256) for _ in range(n))
        if target:
            p = p.replace(b":", b"a")
        if (wf_target(p) if target else wf_path(p)):
            return p

def fl(l):
    return "." if not l else ",".join(hx(x) for x in l)


# ------------------------------------------------------------------ running the three sides

def events(line):
    return [] if line == "." else [tuple(e.split(" ")) for e in line.split("|")]

def same_event(e, w):
    """An error event is (kind = error, position); the class derived from the message TEXT is an optional refinement: it is
    compared only when the driver recognised the text (code 99 = a wording the table does not know, which is not a failure)."""
    if e[0] != w[0]:
        return False
    if e[0] == "X":
        if e[2] != w[2]:
            return False
        return e[1] == w[1] or e[1] == "99" or w[1] == "99"
    return tuple(e) == tuple(w)

def same_events(ev, want):
    return len(ev) == len(want) and all(same_event(e, w) for e, w in zip(ev, want))

def same_answer(a, m):
    """implementation answer vs model answer (or expected answer), wording-independent"""
    if a == m:
        return True
    if not isinstance(a, str) or not isinstance(m, str):
        return False
    return same_events(events(a), events(m))

def md_deps(evs):
    return [unhx(e[2]) for e in evs if e[0] == "D"]

def errs(evs):
    return [e for e in evs if e[0] == "X"]

class Sides:
    """normal driver, ASan driver, extracted model; built once per check"""
    def __init__(self, chk):
        # private copies: other checks may relink the shared driver directories while the streams below run
        d = os.path.join(vlib.WORK, "tmp", "c11bin-%s" % chk.pid, str(os.getpid()))
        os.makedirs(d, exist_ok=True)
        self.bindir = d
        def private(path, lock, name):
            dst = os.path.join(d, name)
            with vlib.Lock(lock):
                shutil.copy2(path, dst)
            return dst
        self.drv = private(vlib.build_drivers(["parse_driver"])["parse_driver"], "drv-hooks", "parse_driver")
        self.asan = private(vlib.build_drivers(["parse_driver"], "asan")["parse_driver"], "drv-asan", "parse_driver_asan")
        self.deps = private(vlib.build_drivers(["deps_driver"])["deps_driver"], "drv-hooks", "deps_driver")
        self.model = vlib.model_bin(AREA)

def sides(chk):
    if not hasattr(chk, "_c11_sides"):
        chk._c11_sides = Sides(chk)
    return chk._c11_sides

def run_stream(binary, reqs, env=None, timeout=900, max_incidents=12):
    """One answer per request.  A request on which the process dies, hangs or that is left unanswered is answered
    by a dict(incident=..., stderr=...) and the stream is resumed after it."""
    answers, i, incidents = [], 0, 0
    while i < len(reqs):
        rc, out, err = vlib.sh([binary], input="\n".join(reqs[i:]) + "\n", timeout=timeout, env=env)
        lines = out.split("\n")
        lines = lines[:-1]          # the text after the last newline is an incomplete answer (or empty)
        if rc == 0 and len(lines) == len(reqs) - i:
            answers += lines
            return answers, (err if err.strip() else "")
        k = min(len(lines), len(reqs) - i - 1)
        answers += lines[:k]
        kind = "hang (no answer within %d s)" % timeout if rc == -9 else "process died (exit %d)" % rc
        answers.append(dict(incident=kind, stderr=err[-6000:]))
        i += k + 1
        incidents += 1
        if incidents >= max_incidents:
            answers += [dict(incident="not run (too many incidents before it)", stderr="")] * (len(reqs) - i)
            break
    return answers, ""

def first_stderr_request(binary, reqs, env):
    """stderr output although the process ended normally: find the first request that produces it (bisection)"""
    lo, hi = 0, len(reqs)          # invariant: reqs[:hi] produces stderr, reqs[:lo] does not
    while hi - lo > 1:
        mid = (lo + hi) // 2
        rc, out, err = vlib.sh([binary], input="\n".join(reqs[:mid]) + "\n", timeout=600, env=env)
        if err.strip():
            hi = mid
        else:
            lo = mid
    return reqs[hi - 1]

def sanitizer_kind(stderr):
    for l in stderr.splitlines():
        if "ERROR: AddressSanitizer" in l or "runtime error:" in l or "ERROR: UndefinedBehaviorSanitizer" in l:
            return l.strip()[:300]
    return None

def differential(chk, name, reqs, datas, nontrivial=None):
    """reqs through the normal build, the ASan build and the model.  Returns the implementation's answers
    (None where it gave none).  datas[i]: the raw input bytes of reqs[i] (for replays)."""
    s = sides(chk)
    impl, e1 = run_stream(s.drv, reqs)
    asan, e2 = run_stream(s.asan, reqs, env=ASAN_ENV)
    model, e3 = run_stream(s.model, reqs)
    st = chk.cov.setdefault("streams", {}).setdefault(name, dict(cases=0, disagreements=0, incidents=0))
    st["cases"] += len(reqs)
    for (side, err, binary, env) in (("implementation", e1, s.drv, None), ("implementation (ASan build)", e2, s.asan, ASAN_ENV)):
        if err:
            rq = first_stderr_request(binary, reqs, env)
            chk.violation("parser-writes-stderr", "the %s wrote to stderr instead of reporting through the error callback: %s" % (side, err.strip()[:200]),
                          dict(request=rq, stderr=err[-3000:], stream=name), found_input=True, broken="c19 oracle (errors only through the callback)")
    out = []
    ndis = 0
    for i, rq in enumerate(reqs):
        a, b, m = impl[i], asan[i], model[i]
        if isinstance(m, dict):
            raise vlib.BuildError("the extracted model failed on %r: %s %s" % (rq, m["incident"], m["stderr"][-500:]))
        bad = None
        for (side, ans) in (("ASan build", b), ("normal build", a)):
            if isinstance(ans, dict):
                sk = sanitizer_kind(ans["stderr"])
                if sk:
                    key = "over-read-" + rq.split(" ")[0] if "AddressSanitizer" in sk else "undefined-behaviour-" + rq.split(" ")[0]
                    what = "sanitizer report on %s input %r: %s" % (rq.split(" ")[0], datas[i][:60], sk)
                elif ans["incident"].startswith("hang"):
                    key, what = "hang-" + rq.split(" ")[0], "the parser did not terminate on %r (%s)" % (datas[i][:60], side)
                elif ans["incident"].startswith("not run"):
                    continue
                else:
                    key, what = "crash-" + rq.split(" ")[0], "the parser process died on %r (%s, %s)" % (datas[i][:60], side, ans["incident"])
                bad = (key, what, ans)
                break
        if bad:
            st["incidents"] += 1
            chk.violation(bad[0], bad[1], dict(request=rq, input_hex=hx(datas[i]), input_repr=repr(datas[i]), stream=name, stderr=bad[2]["stderr"][-4000:],
                                               model=m), found_input=True, broken="c19 oracle (no sanitizer report, terminates, no crash)")
            out.append(a if isinstance(a, str) else None)
            chk.count(("inc", rq))
            continue
        if m in ("OUTOFFUEL", "OVERREAD") or "OUTOFFUEL" in m or "OVERREAD" in m:
            chk.violation("model-total-" + rq.split(" ")[0], "the extracted model reports %s although the theorem excludes it" % m, dict(request=rq, model=m),
                          found_input=False, broken="extraction / Props/Properties_C19deps.v")
        if not same_answer(a, m) or not same_answer(b, m):
            ndis += 1
            dl = chk.notes.setdefault("disagreements_" + name, [])
            if len(dl) < 5:
                dl.append(dict(request=rq, input_repr=repr(datas[i]), implementation=a, implementation_asan=b, model=m))
        out.append(a)
        nt = (a != "." and a is not None) if nontrivial is None else nontrivial(a)
        chk.count(("rq", rq) if nt else None)
    st["disagreements"] += ndis
    return out


# ------------------------------------------------------------------ byte-string streams (C19 part and C11 differential)

def strings_over(alpha, maxlen):
    out = [b""]
    for n in range(1, maxlen + 1):
        out += [bytes(t) for t in itertools.product(alpha, repeat=n)]
    return out

def valid_md_files(rng):
    t = [b"out.o", b"o ut", b"a#b"]
    files = [py_md_write(b"out.o", [b"a b", b"c#d", b"e$f", b"g\\h", b"i:j", b"/k/l.h"], 1),
             py_md_write(b"o ut", [b"x\\", b"y:", b"$", b"\x80\xff"], 2) + py_md_write(b"p", [b"q"], 0),
             py_md_write(b"a#b", [], 0) + b"# comment\n" + py_md_write(b"c", [b"d e"], 0)]
    for _ in range(3):
        files.append(b"".join(py_md_write(rnd_path(rng, True), [rnd_path(rng) for _ in range(rng.randint(0, 4))], rng.randrange(3)) for _ in range(rng.randint(1, 3))))
    return files

def valid_di_files(rng):
    files = [py_di_write(b"ld-123", [("I", b"/a b"), ("M", b"m"), ("O", b"o"), ("I", b"\x80\xff")]), py_di_write(b"v", [])]
    for _ in range(3):
        files.append(py_di_write(rnd_operand(rng), [(rng.choice("IMO"), rnd_operand(rng)) for _ in range(rng.randint(0, 5))]))
    return files

def rnd_operand(rng):
    n = rng.choice([1, 1, 2, 3, 5, 8])
    return bytes(rng.choice([0x2f, 0x61, 0x20, 0x10, 0x11, 0x40, 0x80, 0xff, 0x3a, 0x01]) if rng.random() < 0.8 else rng.randrange(1, 256) for _ in range(n))

def mutate(rng, data, alpha):
    d = bytearray(data)
    for _ in range(rng.choice([1, 1, 1, 2, 3])):
        op = rng.randrange(6)
        pos = rng.randrange(len(d) + 1)
        if op == 0 and d:
            del d[min(pos, len(d) - 1)]
        elif op == 1:
            d.insert(pos, rng.choice(alpha))
        elif op == 2 and d:
            d[min(pos, len(d) - 1)] = rng.choice(alpha)
        elif op == 3 and d:
            d[pos:pos] = d[max(0, pos - rng.randint(1, 4)):pos]
        elif op == 4 and len(d) > 1:
            q = min(pos, len(d) - 2)
            d[q], d[q + 1] = d[q + 1], d[q]
        elif op == 5:
            del d[pos:]
    return bytes(d)

def byte_streams(chk):
    """[(stream name, [data], parser)]: the inputs of the C19 part, all fed to the parsers as exact-size buffers"""
    rng = chk.rng
    q = chk.quick()
    out = []
    out.append(("corpus", CORPUS_MD + CORPUS_DI, "both"))
    md_alpha = [0x61, 0x20, 0x3a, 0x5c, 0x0a, 0x24, 0x23] if q else [0x61, 0x20, 0x3a, 0x5c, 0x0a, 0x24, 0x23, 0x0d]
    out.append(("exhaustive-makedeps", strings_over(md_alpha, 5 if q else 6), "md"))
    # the double quote (not special in the format) as a further byte, shorter strings
    out.append(("exhaustive-makedeps-quote", [w for w in strings_over([0x61, 0x20, 0x3a, 0x5c, 0x0a, 0x24, 0x23, 0x22], 4 if q else 5) if 0x22 in w], "md"))
    di_alpha = [0x00, 0x10, 0x61, 0x07] if q else [0x00, 0x10, 0x11, 0x40, 0x61, 0x07]
    out.append(("exhaustive-depinfo", strings_over(di_alpha, 6 if q else 7), "di"))
    mdf, dif = valid_md_files(rng), valid_di_files(rng)
    out.append(("truncations", [f[:i] for f in mdf for i in range(len(f) + 1)] + [f[i:] for f in mdf[:2] for i in range(len(f) + 1)], "md"))
    out.append(("truncations-depinfo", [f[:i] for f in dif for i in range(len(f) + 1)] + [f[i:] for f in dif[:2] for i in range(len(f) + 1)], "di"))
    nm = chk.n(4000, 150000)
    md_mut_alpha = MALFORMED_ALPHA
    out.append(("mutated", [mutate(rng, rng.choice(mdf), md_mut_alpha) for _ in range(nm)], "md"))
    out.append(("mutated-depinfo", [mutate(rng, rng.choice(dif), [0, 0, 0x10, 0x11, 0x40, 0x61, 0x07, 0xff]) for _ in range(nm // 2)], "di"))
    def rnd_bytes(special):
        n = rng.choice([0, 1, 2, 3, 4, 6, 8, 12, 20, 40, 100])
        return bytes(rng.choice(special) if rng.random() < 0.75 else rng.randrange(256) for _ in range(n))
    out.append(("random", [rnd_bytes(MALFORMED_ALPHA) for _ in range(nm)], "md"))
    out.append(("random-depinfo", [rnd_bytes([0, 0, 0, 0x10, 0x11, 0x40, 0x61, 0x07]) for _ in range(nm // 2)], "di"))
    return out

def requests_for(datas, parser):
    reqs, ds = [], []
    for d in datas:
        h = hx(d)
        if parser in ("md", "both"):
            reqs += ["makedeps 0 " + h, "makedeps 1 " + h]
            ds += [d, d]
        if parser in ("di", "both"):
            reqs.append("depinfo " + h)
            ds.append(d)
    return reqs, ds

def check_answer_shape(chk, rq, d, a):
    """problems are reported through the error callback with an offset inside the buffer (judged on the implementation's
    answer alone).  The wording of a message is not part of the property: texts the table of the driver does not know are
    only counted (notes: unrecognised_error_texts)."""
    if a is None:
        return
    for e in errs(events(a)):
        try:
            code, pos = int(e[1]), int(e[2])
        except (ValueError, IndexError):
            chk.violation("error-event-malformed", "an error event without a numeric position: %r" % (e,), dict(request=rq, input_repr=repr(d), implementation=a),
                          found_input=False, broken="correspondence: answer format of parse_driver")
            continue
        if code == 99:
            t = chk.notes.setdefault("unrecognised_error_texts", {})
            txt = (unhx(e[3]).decode("utf-8", "replace") if len(e) > 3 else "<no text>")
            t[txt] = t.get(txt, 0) + 1
        if pos > len(d):
            chk.violation("error-position-out-of-bounds", "error position %d reported for a buffer of %d bytes" % (pos, len(d)),
                          dict(request=rq, input_repr=repr(d), implementation=a), found_input=True, broken="c19 oracle (positions inside the buffer)")

def deps_part(chk, report=True):
    """see deps_part_body; never raises on unexpected answers (BuildError excepted)"""
    return guarded(chk, "deps-part", deps_part_body, report) if report else deps_part_body(chk, report)

def deps_part_body(chk, report=True):
    """C19, dependency-file parsers: every byte-string stream through the normal and the ASan build of the driver
    (exact-size heap buffers without terminator) and through the extracted model.  Oracle on the implementation: no
    sanitizer report, no crash, an answer within the timeout, problems reported only through the error callback with
    a known message and an offset inside the buffer.  Also checks Props/Properties_C19deps.v."""
    sides(chk)
    res = vlib.check_props("C19deps")
    chk.cov["deps_obligations"] = res["obligations"]
    chk.cov["deps_discharged"] = res["discharged"]
    chk.cov["deps_theorems"] = res["theorems"]
    if res["hygiene"]:
        chk.violation("coq-hygiene", "forbidden vernacular in the development: %s" % res["hygiene"][:5],
                      dict(broken="hygiene gate", detail=res["hygiene"]), found_input=False, broken="hygiene gate")
    if not res["ok"]:
        chk.violation("proof-broken-C19deps", "a proof obligation of Props/Properties_C19deps.v (termination / in-bounds positions of the dependency-file parsers) no longer checks",
                      dict(broken="Props/Properties_C19deps.v (or a file it depends on)", failed_at=res.get("failed_at"), coq_log_tail=res["log"][-3000:]),
                      found_input=False, broken="Props/Properties_C19deps.v")
    total = 0
    for (name, datas, parser) in byte_streams(chk):
        reqs, ds = requests_for(datas, parser)
        ans = differential(chk, name, reqs, ds)
        for rq, d, a in zip(reqs, ds, ans):
            check_answer_shape(chk, rq, d, a)
        total += len(reqs)
        if name == "corpus":
            i = reqs.index("makedeps 0 " + hx(b"a: b\\"))
            chk.sample(dict(kind="corpus", input_repr=repr(ds[i]), request=reqs[i], implementation=ans[i]))
            i = reqs.index("depinfo " + hx(b"\0v\0\0"))
            chk.sample(dict(kind="corpus", input_repr=repr(ds[i]), request=reqs[i], implementation=ans[i]))
    chk.cov["deps_byte_string_cases"] = total
    if report:      # run() reports once, after the C11 oracles had their say on the implementation
        report_disagreements(chk, "deps-parser")
    return total

def report_disagreements(chk, label):
    nd = sum(s["disagreements"] for s in chk.cov.get("streams", {}).values())
    done = getattr(chk, "_c11_dis_reported", 0)
    if nd > done and not any(v["found"] for v in chk.violations):
        ex = {k: v[:3] for k, v in chk.notes.items() if k.startswith("disagreements_")}
        chk.violation("parse-correspondence", "model (Parse/MakeDeps.v, Parse/DepInfo.v) and implementation disagree on %d inputs while no oracle failed on the implementation" % nd,
                      dict(broken="correspondence: Parse.MakeDeps / Parse.DepInfo vs lib/Core/MakefileDepsParser.cpp / DependencyInfoParser.cpp", examples=ex),
                      found_input=False, broken="correspondence: Parse.MakeDeps / Parse.DepInfo")
    chk._c11_dis_reported = nd
    chk.cov["disagreements"] = nd


# ------------------------------------------------------------------ C11: writer outputs, oracles on the implementation

def writer_part(chk):
    rng = chk.rng
    s = sides(chk)
    n = chk.n(2500, 60000)
    cases = []      # (rules [(target, paths, sep)], data, line ends)
    # directed first (so that a replay carries a short path): escapes AFTER an interior colon, for every separator
    for sp in range(3):
        for p in COLON_ESCAPE_PATHS:
            cases.append(([(b"out", [p], sp)], py_md_write(b"out", [p], sp), [0]))
        cases.append(([(b"o ut", COLON_ESCAPE_PATHS, sp)], py_md_write(b"o ut", COLON_ESCAPE_PATHS, sp), [0]))
        for p in QUOTE_PATHS:
            cases.append(([(b"out", [p], sp)], py_md_write(b"out", [p], sp), [0]))
            for e in (1, 2):      # the closing quote followed by CRLF / by the end of the file
                cases.append(([(b"out", [b"h", p], sp)], py_md_write(b"out", [b"h", p], sp, e), [e]))
            if b":" not in p:     # as the rule name
                cases.append(([(p, [b"h"], sp)], py_md_write(p, [b"h"], sp), [0]))
        cases.append(([(b"out", QUOTE_PATHS, sp)], py_md_write(b"out", QUOTE_PATHS, sp), [0]))
    for i in range(n):
        nr = 1 if rng.random() < 0.6 else rng.randint(2, 3)
        rules = []
        for _ in range(nr):
            paths = [rnd_path(rng) for _ in range(rng.choice([0, 1, 1, 2, 3, 5]))]
            if rng.random() < 0.25:      # interior / trailing colons
                paths.append(rnd_path(rng, True) + b":" + (rnd_path(rng, True) if rng.random() < 0.7 else b""))
            rules.append((rnd_path(rng, True), paths, rng.randrange(3)))
        # line ends: LF mostly, CRLF sometimes; the last rule may end with the file
        eols = [rng.choice([0, 0, 0, 1]) for _ in rules]
        if rng.random() < 0.15:
            eols[-1] = 2
        cases.append((rules, b"".join(py_md_write(t, ps, sp, e) for (t, ps, sp), e in zip(rules, eols)), eols))
    # the writer of the model is the one the theorems are about: it must be the documented one
    wreq = ["md_write_eol %s %s %d %d" % (hx(r[0][0]), fl(r[0][1]), r[0][2], e[0]) for (r, d, e) in cases[:600]] + \
           ["md_write %s %s %d" % (hx(r[0][0]), fl(r[0][1]), r[0][2]) for (r, d, e) in cases[:600]]
    rc, wout, werr = vlib.run_lines(s.model, wreq)
    for ((rules, d, eols), w, w0) in zip(cases[:600], wout[:600], wout[600:]):
        t, ps, sp = rules[0]
        if unhx(w) != py_md_write(t, ps, sp, eols[0]) or unhx(w0) != py_md_write(t, ps, sp):
            chk.violation("writer-correspondence", "Parse.MakeDeps.md_write / md_write_eol differ from the documented escaping computed by the harness",
                          dict(target=repr(t), paths=repr(ps), sep=sp, eol=eols[0], model=w, model_lf=w0, harness=hx(py_md_write(t, ps, sp, eols[0]))), found_input=False,
                          broken="correspondence: Parse.MakeDeps.md_write")
            break
    cases = [(r, d) for (r, d, e) in cases]
    chk.cov["directed_colon_escape_paths"] = [repr(p) for p in COLON_ESCAPE_PATHS]
    chk.cov["directed_quote_paths"] = [repr(p) for p in QUOTE_PATHS]
    reqs, ds = requests_for([d for (r, d) in cases], "md")
    ans = differential(chk, "writer-outputs", reqs, ds)
    for k, (rules, d) in enumerate(cases):
        a0, a1 = ans[2 * k], ans[2 * k + 1]
        if a0 is None or a1 is None:
            continue
        e0, e1 = events(a0), events(a1)
        want_all = [p for (t, ps, sp) in rules for p in ps]
        want_first = rules[0][1]
        rp = dict(rules=[dict(target=repr(t), paths=[repr(p) for p in ps], sep=repr(SEPS[sp])) for (t, ps, sp) in rules], file_repr=repr(d), file_hex=hx(d),
                  request=reqs[2 * k], implementation=a0, implementation_ignoring_subsequent=a1, oracle="deps == written paths, computed by the harness without the model")
        if errs(e0) or errs(e1):
            chk.violation("roundtrip-error", "a dependency file written with the documented escaping is reported as malformed: error %s at offset %s" % tuple((errs(e0) or errs(e1))[0][1:3]),
                          rp, found_input=True, broken="c11 oracle (round trip) on implementation")
        elif md_deps(e0) != want_all:
            kind = "quote" if [p for p in md_deps(e0) if p[:1] not in (b'"', b"'")] == [p for p in want_all if p[:1] not in (b'"', b"'")] and any(p[:1] in (b'"', b"'") for p in want_all) else \
                   "colon" if any(b":" in p for p in want_all) and [p for p in md_deps(e0) if b":" not in p] == [p for p in want_all if b":" not in p] else "paths"
            chk.violation("roundtrip-" + kind, "paths written with the documented escaping are not recovered byte for byte: wrote %r, read %r" % (want_all[:6], md_deps(e0)[:6]),
                          rp, found_input=True, broken="c11 oracle (round trip) on implementation")
        elif md_deps(e1) != want_first:
            chk.violation("roundtrip-first-rule", "with ignoreSubsequentOutputs the dependencies are not those of the first rule: wrote %r, read %r" % (want_first[:6], md_deps(e1)[:6]),
                          rp, found_input=True, broken="c11 oracle (multi rule) on implementation")
        elif [unhx(e[2]) for e in e0 if e[0] == "S"] != [t for (t, ps, sp) in rules]:
            chk.violation("roundtrip-targets", "rule names are not recovered", rp, found_input=True, broken="c11 oracle (round trip) on implementation")
    k = next(i for i, (r, d) in enumerate(cases) if i > 200 and len(r) > 1 and any(b":" in p for p in r[0][1]))
    chk.sample(dict(kind="writer-output", rules=[dict(target=repr(t), paths=[repr(p) for p in ps], sep=repr(SEPS[sp])) for (t, ps, sp) in cases[k][0]],
                    file_repr=repr(cases[k][1]), implementation=ans[2 * k]))
    # malformed families whose verdict the property text fixes: an error must be reported
    mal = []
    for i in range(chk.n(1500, 30000)):
        r = rng.random()
        if r < 0.4:      # not blank, no colon
            d = bytes(rng.choice([0x61, 0x20, 0x5c, 0x24, 0x2f, 0x0a, 0x09, 0x80, 0x62]) for _ in range(rng.randint(1, 10)))
            if not any(c not in (0x20, 0x09, 0x0a, 0x0d) for c in d):
                d += b"a"
            mal.append(("no-colon", d))
        elif r < 0.7:    # a prerequisite starting with ':'
            ps = [rnd_path(rng) for _ in range(rng.randint(0, 3))]
            j = rng.randint(0, len(ps))
            body = b"".join(SEPS[0] + py_escape(p) for p in ps[:j]) + b" :" + rnd_path(rng, True) + b"".join(SEPS[0] + py_escape(p) for p in ps[j:])
            mal.append(("colon-leading-prerequisite", py_escape(rnd_path(rng, True)) + b":" + body + b"\n"))
        else:            # a '$' that is not doubled
            p = rnd_path(rng, True).replace(b"$", b"a")
            q = rnd_path(rng, True).replace(b"$", b"a")
            mal.append(("lone-dollar", py_escape(rnd_path(rng, True)) + b": " + py_escape(p) + b"$" + py_escape(q) + b"\n"))
    reqs, ds = requests_for([d for (k, d) in mal], "md")
    ans = differential(chk, "malformed", reqs, ds)
    for k, (fam, d) in enumerate(mal):
        for a in (ans[2 * k], ans[2 * k + 1]):
            if a is not None and not errs(events(a)):
                chk.violation("malformed-silent-" + fam, "a malformed dependency file (%s) is accepted without any error: %r" % (fam, d[:80]),
                              dict(family=fam, file_repr=repr(d), file_hex=hx(d), request=reqs[2 * k], implementation=a), found_input=True,
                              broken="c11 oracle (malformed files are reported) on implementation")
    # dependency-info
    dcases = []
    for i in range(chk.n(1500, 40000)):
        v = rnd_operand(rng)
        recs = [(rng.choice("IMO"), rnd_operand(rng)) for _ in range(rng.choice([0, 1, 2, 3, 6]))]
        dcases.append((v, recs, py_di_write(v, recs)))
    wreq = ["di_write %s %s" % (hx(v), ",".join("%s:%s" % (k, hx(s_)) for (k, s_) in recs) if recs else ".") for (v, recs, d) in dcases[:300]]
    rc, wout, werr = vlib.run_lines(s.model, wreq)
    for (v, recs, d), w in zip(dcases[:300], wout):
        if unhx(w) != d:
            chk.violation("writer-correspondence-depinfo", "Parse.DepInfo.di_write differs from the record format computed by the harness",
                          dict(version=repr(v), records=repr(recs), model=w, harness=hx(d)), found_input=False, broken="correspondence: Parse.DepInfo.di_write")
            break
    reqs, ds = requests_for([d for (v, r, d) in dcases], "di")
    ans = differential(chk, "writer-outputs-depinfo", reqs, ds)
    for (v, recs, d), rq, a in zip(dcases, reqs, ans):
        if a is None:
            continue
        want = [("V", hx(v))] + [(k, hx(s_)) for (k, s_) in recs]
        if not same_events(events(a), want):
            chk.violation("depinfo-roundtrip", "a written dependency-info file is not read back exactly", dict(version=repr(v), records=repr(recs), file_hex=hx(d), request=rq, implementation=a,
                                                                                                             expected="|".join(" ".join(w) for w in want)),
                          found_input=True, broken="c11 oracle (dependency-info round trip) on implementation")
    chk.sample(dict(kind="depinfo-writer-output", version=repr(dcases[3][0]), records=repr(dcases[3][1]), implementation=ans[3]))
    dmal = []
    for i in range(chk.n(1200, 20000)):
        v, recs, d = rng.choice(dcases)
        r = rng.randrange(4)
        pre = recs[:rng.randint(0, len(recs))]
        off = len(py_di_write(v, pre))
        rest = py_di_write(v, recs)[off:] if rng.random() < 0.7 else b""
        if r == 0:
            dmal.append(("no-terminator", d[:-1], [("X", "1", str(len(d) - 1))], True))
        elif r == 1:
            x = bytes([rng.choice([0x10, 0x11, 0x40, 0x61, 0xff])]) + d[1:]
            dmal.append(("no-version", x, [("X", "2", "0")], True))
        elif r == 2:
            x = py_di_write(v, pre) + bytes([rng.choice([0x10, 0x11, 0x40, 0x00, 0x07])]) + b"\0" + rest
            dmal.append(("empty-operand", x, [("V", hx(v))] + [(k, hx(s_)) for (k, s_) in pre] + [("X", "3", str(off))], True))
        else:
            op = rng.choice([0x01, 0x07, 0x0f, 0x12, 0x41, 0x61, 0xff])
            x = py_di_write(v, pre) + bytes([op]) + rnd_operand(rng) + b"\0" + rest
            dmal.append(("unknown-opcode", x, [("X", "5", str(off))], False))
    reqs, ds = requests_for([m[1] for m in dmal], "di")
    ans = differential(chk, "malformed-depinfo", reqs, ds)
    for (fam, d, want, exact), rq, a in zip(dmal, reqs, ans):
        if a is None:
            continue
        ev = events(a)
        ok = same_events(ev, want) if exact else all(any(same_event(e, w) for e in ev) for w in want)
        if not ok:
            chk.violation("depinfo-malformed-" + fam, "malformed dependency-info file (%s): expected %s %s, got %s" % (fam, "exactly" if exact else "among the events", want, a[:200]),
                          dict(family=fam, file_hex=hx(d), file_repr=repr(d), request=rq, implementation=a), found_input=True,
                          broken="c11 oracle (malformed dependency-info files are reported) on implementation")


# ------------------------------------------------------------------ C11: path resolution (glue statements of ShellCommand.cpp)

def glue_part(chk):
    s = sides(chk)
    rc, out, err = vlib.run_lines(s.drv, ["cwd"])
    cwd = unhx(out[0])
    words = [w for w in strings_over([0x2f, 0x2e, 0x61], 4) if w] + [b"a b/c:d", b"./a", b"../a", b"a/", b"//a/b", b"///a", b"a//b", b"../x", b"./x", b"a/../x", b"sub/./x", b"a/../../x", b"./../x/."]
    wds = [b"", b"/", b"/w", b"/w/", b"/w/x y", b"//", b"//n", b"//n/x", b"/w//", b"w", b"w/"]
    reqs, meta = [], []
    for w in words:
        reqs.append("is_absolute " + hx(w)); meta.append(("abs", None, w))
        for wd in wds:
            reqs.append("abspath %s %s %s" % (hx(cwd), hx(wd), hx(w))); meta.append(("glue", wd, w))
    for w in words[:60]:
        reqs.append("make_absolute %s %s" % (hx(cwd), hx(w))); meta.append(("mk", None, w))
    impl, e1 = run_stream(s.drv, reqs)
    model, e2 = run_stream(s.model, reqs)
    nd = 0
    for rq, (kind, wd, w), a, m in zip(reqs, meta, impl, model):
        chk.count(("glue", rq) if kind == "glue" and not w.startswith(b"/") else None)
        if isinstance(a, dict):
            chk.violation("glue-crash", "the path functions crashed on %r" % (w,), dict(request=rq, stderr=a["stderr"][-2000:]), found_input=True, broken="c11 oracle (path resolution)")
            continue
        # property oracle, independent of the model: a relative word is appended to the working directory (the current
        # directory when there is none); a word with a single leading separator is kept
        if kind == "glue":
            base = wd if wd else cwd
            simple = base.startswith(b"/") and not base.startswith(b"//")
            want = None
            if w.startswith(b"/") and not w.startswith(b"//"):
                want = w
            elif not w.startswith(b"/") and simple:
                want = base + (b"" if base.endswith(b"/") else b"/") + w
            if want is not None and unhx(a) != want:
                chk.violation("relative-resolution", "dependency word %r with working directory %r (cwd %r) is keyed as %r, expected %r" % (w, wd, cwd, unhx(a), want),
                              dict(request=rq, word=repr(w), working_directory=repr(wd), cwd=repr(cwd), implementation=repr(unhx(a)), expected=repr(want)),
                              found_input=True, broken="c11 oracle (relative paths resolved against the working directory) on the glue statements")
        if a != m:
            nd += 1
            dl = chk.notes.setdefault("disagreements_glue", [])
            if len(dl) < 5:
                dl.append(dict(request=rq, word=repr(w), working_directory=repr(wd), implementation=a, model=m))
    chk.cov["glue_cases"] = len(reqs)
    chk.cov["glue_disagreements"] = nd
    if nd and not any(v["found"] for v in chk.violations):
        chk.violation("glue-correspondence", "model (Parse/DepsGlue.v) and llvm::sys::path / the glue statements disagree on %d of %d cases" % (nd, len(reqs)),
                      dict(broken="correspondence: Parse.DepsGlue vs lib/llvm/Support/Path.cpp", examples=chk.notes.get("disagreements_glue")), found_input=False,
                      broken="correspondence: Parse.DepsGlue")
    k = reqs.index("abspath %s %s %s" % (hx(cwd), hx(b"/w/x y"), hx(b"./a")))
    chk.sample(dict(kind="glue", word="./a", working_directory="/w/x y", request=reqs[k], implementation=repr(unhx(impl[k]))))


# ------------------------------------------------------------------ C11: the link to rebuild decisions, through the CLI

BUILD_TMPL = """client:
  name: basic

targets:
  "": ["<all>"]

commands:
  C1:
    tool: shell
    outputs: ["<all>"]
    description: CC
    args: "cp deps.src out.d && echo x >> counter"
%s    deps: out.d
    deps-style: %s
"""

NAMES = [b"h d", b"h#d", b"h$d", b"h\\d", b"h:d", b"h'\"d", b"\x80\xff", b"h:", b" h", b"$", b"#h", b"h\\", b"$$h", b"h d#e$f\\g:i",
         b"./h", b"d/../h", b"d//h", b"h.h"]
# paths whose FIRST escape sequence comes after an interior colon (the continuation call of lexWord handles it)
COLON_ESCAPE_PATHS = [b"a:b c", b"x:y#z", b"p:q\\r", b"m:n$o", b"inc:dir/my hdr.h", b"a:b:c d", b"k:\\", b"k:$"]
NAMES += COLON_ESCAPE_PATHS[:4] + [b"inc:my hdr.h"]
# quotes are NOT special in the format (nor in the documented escaping): names that begin and end with one, or only begin
QUOTE_PATHS = [b'"config"', b'"a b"', b"'q r'", b'"', b'""', b'"a', b"'x'", b'"a":b', b'"x"/y.h']
NAMES += QUOTE_PATHS[:4] + [b"'x'"]
# relative spellings with dot components, for the working directory reached through a symbolic link (mode symlink-wd)
DOT_NAMES = [b"../x", b"./x", b"a/../x", b"sub/./x", b"../x y", b"sub/../a/../x"]     # every prefix must exist: a/.. is real/other, which has no `sub`
STYLES = ["makefile", "dependency-info"]
ALL_STYLES = STYLES + ["makefile-ignoring-subsequent-outputs"]
MODES = ["relative", "absolute", "relative-wd", "absolute-wd"]
EVENTS = ["modify", "delete", "create", "none"]

def phys(path):
    """the file a path names, resolved through the file system (symbolic links in the directory part followed)"""
    return os.path.join(os.path.realpath(os.path.dirname(path)), os.path.basename(path))

def layout(S, mode, name):
    """Creates the directories of one history.  Returns (value of the working-directory attribute or None, the directory
    the command runs in, the file that `name` - as the command spells it - really is, the spelling for the deps file)."""
    Sb = S.encode()
    if mode == "symlink-wd":
        # the working directory is reached through a symbolic link to a deeper directory; inside it `a` is a link
        # to a directory with another parent, `sub` a real directory:  ../x, a/../x are NOT what folding ".." lexically gives
        os.makedirs(os.path.join(S, "real", "deep", "wd", "sub"))
        os.makedirs(os.path.join(S, "real", "other", "adir"))
        os.symlink(os.path.join("real", "deep", "wd"), os.path.join(S, "wd"))
        os.symlink(os.path.join("..", "..", "other", "adir"), os.path.join(S, "real", "deep", "wd", "a"))
        wd, cmdwd = "wd", os.path.join(S, "wd")
        return wd, cmdwd, phys(os.path.join(os.path.realpath(cmdwd).encode(), name)), name
    wd = "sub dir" if mode.endswith("-wd") else None
    cmdwd = os.path.join(S, wd) if wd else S
    os.makedirs(os.path.join(cmdwd, "d"))
    P = os.path.join(cmdwd.encode(), name)
    return wd, cmdwd, P, (P if mode.startswith("absolute") else name)

def deps_file(style, spelled, variant):
    """the dependency file the command's script produces, naming `spelled`"""
    if style == "makefile-ignoring-subsequent-outputs":   # only the first rule counts: the path is in it
        return py_md_write(b"out", ([b"/nonexistent-c11/x y"] if variant % 2 else []) + [spelled], variant % 3, (variant // 3) % 2) + \
               py_md_write(b"second", [b"/nonexistent-c11/other"], 0)
    if style == "makefile":
        if variant % 4 == 3:     # the path in the second of two rules, after a rule with another prerequisite
            return py_md_write(b"first", [b"/nonexistent-c11/other"], 0, (variant // 4) % 2) + py_md_write(b"out put", [spelled], 1, (variant // 8) % 3)
        return py_md_write(b"out", ([b"/nonexistent-c11/x y"] if variant % 2 else []) + [spelled], variant % 3, (variant // 3) % 3)
    return py_di_write(b"c11", ([("O", b"out"), ("M", b"/nonexistent-c11/m")] if variant % 2 else []) + [("I", spelled)])

def cli_scenario(chk, llb, S, style, name, mode, event, variant, malformed=None):
    """Runs one history in sandbox S; returns (verdict key or None, what, replay dict)."""
    shutil.rmtree(S, ignore_errors=True)
    wd, cmdwd, P, spelled = layout(S, mode, name)
    data = malformed if malformed is not None else deps_file(style, spelled, variant)
    open(os.path.join(cmdwd, "deps.src"), "wb").write(data)
    if event != "create":
        open(P, "wb").write(b"1")
        os.utime(P, ns=(10**18, 10**18))
    bf = os.path.join(S, "build.llbuild")
    open(bf, "w").write(BUILD_TMPL % (('    working-directory: "%s"\n' % wd) if wd else "", style))
    counter = os.path.join(cmdwd, "counter")
    log = []
    def build(label):
        rc, out, err = vlib.sh([llb, "buildsystem", "build", "--serial", "--chdir", S, "-f", bf], timeout=60)
        n = len(open(counter).read().split()) if os.path.exists(counter) else 0
        log.append(dict(step=label, exit=rc, executions_so_far=n, output=(out + err)[-400:]))
        return rc, n
    rp = dict(scenario=dict(style=style, name=repr(name), name_hex=hx(name), mode=mode, event=event, variant=variant,
                            malformed_hex=hx(malformed) if malformed is not None else None),
              path=repr(P), spelled_in_deps_file=repr(spelled), deps_file_repr=repr(data), deps_file_hex=hx(data), working_directory=wd, sandbox=S, builds=log,
              oracle="executions of the command counted through its side-effect file, judged by the harness without the model")
    # what the glue model (Parse/DepsGlue.v) says about this file: the keys and the success flag
    mwd = os.path.join(S, wd).encode() if wd else b""
    rcm, mo, me = vlib.run_lines(sides(chk).model, ["process %d %s %s %s" % ({"makefile": 1, "dependency-info": 2, "makefile-ignoring-subsequent-outputs": 3}[style], hx(S.encode()), hx(mwd), hx(data))])
    mok, mkeys = mo[0].split(" ")[0] == "1", [unhx(x) for x in mo[0].split(" ")[1].split(",")] if mo[0].split(" ")[1] != "." else []
    norm = lambda k: os.path.normpath(phys(os.path.join(S.encode(), k)))     # resolved through the file system, not lexically
    rp["model"] = dict(succeeds=mok, keys=[repr(k) for k in mkeys], tracks_the_path=norm(P) in [norm(k) for k in mkeys])
    if style == "dependency-info":
        rc0, m0, e0 = vlib.run_lines(sides(chk).model, ["process_depinfo_v0 " + hx(data)])
        k0 = [unhx(x) for x in m0[0].split(" ")[1].split(",")] if m0[0].split(" ")[1] != "." else []
        rp["model_before_ba34c0a"] = dict(keys=[repr(k) for k in k0], tracks_the_path=norm(P) in [norm(k) for k in k0])
    if malformed is not None:
        rc, n = build("build with the malformed dependency file")
        if rc == 0:
            return ("malformed-build-succeeds", "a build whose command wrote a malformed dependency file (%r) succeeds" % (data[:60],), rp)
        if n != 1:
            return ("malformed-not-run", "the command did not run (%d executions)" % n, rp)
        return (None, "", rp)
    rc, n = build("first build")
    if rc != 0 or n != 1:
        return ("cli-first-build", "the first build failed or did not run the command once (exit %d, %d executions)" % (rc, n), rp)
    rc, n = build("second build, nothing changed")
    if rc != 0 or n != 1:
        return ("spurious-reexecution", "the command re-executed (or the build failed) although nothing changed (exit %d, %d executions)" % (rc, n), rp)
    if event == "modify":
        open(P, "wb").write(b"22")
        os.utime(P, ns=(10**18 + 5 * 10**9, 10**18 + 5 * 10**9))
    elif event == "delete":
        os.unlink(P)
    elif event == "create":
        open(P, "wb").write(b"1")
    rc, n = build("build after %s of the discovered path" % event)
    want = 1 if event == "none" else 2
    if n != want:
        if event == "none":
            return ("spurious-reexecution", "the command re-executed although nothing changed", rp)
        return ("change-not-honoured", "the command reported reading %r (spelled %r, %s style%s) but did not re-execute after its %s" % (
            P, spelled, style, ", working directory %r" % wd if wd else "", {"modify": "modification", "delete": "deletion", "create": "creation"}[event]), rp)
    rc, n = build("last build, nothing changed")
    if n != want:
        return ("spurious-reexecution", "the command re-executed although nothing changed since the previous build", rp)
    return (None, "", rp)

ABORT_TMPL = """client:
  name: basic

targets:
  "": ["<all>"]

commands:
  C1:
    tool: shell
    outputs: ["<c1>"]
    description: CC
    args: "cp deps.src out.d && echo x >> counter"
%s    deps: out.d
    deps-style: %s
%s  all:
    tool: phony
    inputs: ["<c1>", "<a>"]
    outputs: ["<all>"]
"""
# elsewhere in the graph: a dependency cycle a <-> b (repaired: b has no inputs), or an unrelated failing command
ABORT_REST = {
    ("cycle", False): '  mk-a:\n    tool: shell\n    inputs: ["<c1>", "<b>"]\n    outputs: ["<a>"]\n    args: "true"\n'
                      '  mk-b:\n    tool: shell\n    inputs: ["<a>"]\n    outputs: ["<b>"]\n    args: "true"\n',
    ("cycle", True): '  mk-a:\n    tool: shell\n    inputs: ["<c1>", "<b>"]\n    outputs: ["<a>"]\n    args: "true"\n'
                     '  mk-b:\n    tool: shell\n    inputs: []\n    outputs: ["<b>"]\n    args: "true"\n',
    ("failure", False): '  mk-a:\n    tool: shell\n    inputs: ["<c1>"]\n    outputs: ["<a>"]\n    args: "exit 1"\n',
    ("failure", True): '  mk-a:\n    tool: shell\n    inputs: ["<c1>"]\n    outputs: ["<a>"]\n    args: "true"\n',
}

def cli_aborted_history(chk, llb, S, style, name, mode, abort, event, variant):
    """A build that ENDS UNSUCCESSFULLY (dependency cycle elsewhere in the graph, or an unrelated failing command) after
    the command with the dependency file has run and recorded the path; then the description is repaired, the path is
    changed, and a NEW process builds over the same database: the command must re-execute."""
    shutil.rmtree(S, ignore_errors=True)
    wd, cmdwd, P, spelled = layout(S, mode, name)
    data = deps_file(style, spelled, variant)
    open(os.path.join(cmdwd, "deps.src"), "wb").write(data)
    if event != "create":
        open(P, "wb").write(b"1")
        os.utime(P, ns=(10**18, 10**18))
    bf = os.path.join(S, "build.llbuild")
    db = os.path.join(S, "c11.db")
    def describe(repaired):
        open(bf, "w").write(ABORT_TMPL % (('    working-directory: "%s"\n' % wd) if wd else "", style, ABORT_REST[(abort, repaired)]))
    counter = os.path.join(cmdwd, "counter")
    log = []
    def build(label):
        rc, out, err = vlib.sh([llb, "buildsystem", "build", "--serial", "--chdir", S, "-f", bf, "--db", db], timeout=60)
        n = len(open(counter).read().split()) if os.path.exists(counter) else 0
        log.append(dict(step=label, exit=rc, executions_so_far=n, output=(out + err)[-400:]))
        return rc, n
    rp = dict(aborted=dict(style=style, name=repr(name), name_hex=hx(name), mode=mode, abort=abort, event=event, variant=variant),
              path=repr(P), spelled_in_deps_file=repr(spelled), deps_file_repr=repr(data), working_directory=wd, sandbox=S, builds=log,
              oracle="a new llbuild process per build over one database; executions of the command counted through its side-effect file")
    describe(False)
    rc, n = build("build that ends unsuccessfully (%s elsewhere in the graph)" % abort)
    if rc == 0 or n != 1:
        return ("setup", "the aborted build did not fail after running the command once (exit %d, %d executions)" % (rc, n), rp)
    describe(True)
    if event == "modify":
        open(P, "wb").write(b"22")
        os.utime(P, ns=(10**18 + 5 * 10**9, 10**18 + 5 * 10**9))
    elif event == "delete":
        os.unlink(P)
    elif event == "create":
        open(P, "wb").write(b"1")
    rc, n = build("new process, same database, description repaired, after %s of the discovered path" % event)
    if rc != 0:
        return ("aborted-then-repaired-build-fails", "the build of the repaired description fails (exit %d)" % rc, rp)
    if n != 2:
        return ("change-not-honoured-after-aborted-build",
                "the command reported reading %r in a build that ended unsuccessfully (%s); after the %s of that path a new process over the same database "
                "did not re-execute it (%d executions)" % (P, abort, {"modify": "modification", "delete": "deletion", "create": "creation"}[event], n), rp)
    rc, n = build("new process, nothing changed")
    if rc != 0 or n != 2:
        return ("spurious-reexecution", "the command re-executed (or the build failed) although nothing changed since the previous build (exit %d, %d executions)" % (rc, n), rp)
    return (None, "", rp)

def aborted_part(chk):
    base = os.path.join(sandbox(), "aborted")
    shutil.rmtree(base, ignore_errors=True)
    os.makedirs(base)
    llb = private_llbuild(base)
    names = [b"hdr.h", b"h d", b"a:b c", b'"config"', b"./h"]
    hist = []
    i = 0
    if chk.quick():
        for style in STYLES:
            for abort in ("cycle", "failure"):
                for event in EVENTS[:3] if abort == "cycle" else EVENTS[:1]:
                    hist.append((style, names[i % len(names)], ["relative", "relative-wd", "absolute"][i % 3], abort, event, i))
                    i += 1
    else:
        for style in ALL_STYLES:
            for abort in ("cycle", "failure"):
                for mode in ("relative", "relative-wd", "absolute", "symlink-wd"):
                    for event in EVENTS[:3]:
                        hist.append((style, names[i % len(names)] if mode != "symlink-wd" else DOT_NAMES[i % 4], mode, abort, event, i))
                        i += 1
    builds = ok = skipped = 0
    for k, (style, name, mode, abort, event, variant) in enumerate(hist):
        S = os.path.join(base, "a%d" % k)
        key, what, rp = cli_aborted_history(chk, llb, S, style, name, mode, abort, event, variant)
        builds += len(rp["builds"])
        if key == "setup":
            skipped += 1
            chk.notes.setdefault("aborted_histories_not_applicable", []).append(dict(history=rp["aborted"], why=what, builds=rp["builds"]))
            continue
        chk.count(("aborted", style, name, mode, abort, event))
        if k == 0:
            chk.cov["aborted_sample"] = dict(history=rp["aborted"], builds=[(b["step"], b["exit"], b["executions_so_far"]) for b in rp["builds"]])
        if key:
            chk.violation(key, what, rp, found_input=True, broken="c11 oracle (a change of a discovered path re-executes the command) after a build that ended unsuccessfully, new process, same database")
        else:
            ok += len(rp["builds"])
            shutil.rmtree(S, ignore_errors=True)
    chk.cov["aborted_histories"] = len(hist)
    chk.cov["aborted_histories_not_applicable"] = skipped
    chk.cov["aborted_builds"] = builds
    chk.cov["traces_validated_against_impl"] = chk.cov.get("traces_validated_against_impl", 0) + ok
    if skipped * 2 > len(hist):
        chk.violation("aborted-histories-setup", "most histories with an unsuccessful build could not be set up (the build did not fail after running the command once)",
                      dict(examples=chk.notes.get("aborted_histories_not_applicable", [])[:3]), found_input=False, broken="harness: aborted-build histories")

# ------------------------------------------------------------------ C11: commands with SEVERAL dependency files

MULTI_TMPL = """client:
  name: basic

targets:
  "": ["<all>"]

commands:
  C1:
    tool: shell
    outputs: ["<c1>"]
    description: CC
    args: "%s echo x >> counter"
%s    deps: [%s]
    deps-style: %s
  D:
    tool: shell
    inputs: ["<c1>"]
    outputs: ["<all>"]
    description: DEPENDENT
    args: "echo y >> dependent"
"""
MALFORMED_FILE = {"makefile": b"out hdr\n", "makefile-ignoring-subsequent-outputs": b"out hdr\n", "dependency-info": b"\0v\0\x10hdr"}
STYLE_CODE = {"makefile": 1, "dependency-info": 2, "makefile-ignoring-subsequent-outputs": 3}

def multi_setup(chk, S, style, mode, name, nfiles, pos, kind, variant, start_missing=False):
    """A command with `nfiles` dependency files.  kind "path": the path is named ONLY in file number `pos`; kind "malformed"
    / "missing": file number `pos` is malformed / is not written at all (the others are fine)."""
    shutil.rmtree(S, ignore_errors=True)
    wd, cmdwd, P, spelled = layout(S, mode, name)
    files, script = [], ""
    for i in range(nfiles):
        other = os.path.join(cmdwd.encode(), b"other%d" % i)
        open(other, "wb").write(b"o")
        if kind == "path" and i == pos:
            data = deps_file(style, spelled, variant)
        elif kind == "malformed" and i == pos:
            data = MALFORMED_FILE[style]
        elif kind == "missing" and i == pos:
            data = None
        else:
            data = deps_file(style, b"other%d" % i, variant + i)
        files.append(data)
        if data is not None:
            open(os.path.join(cmdwd, "deps%d.src" % i), "wb").write(data)
            script += "cp deps%d.src f%d.d && " % (i, i)
    if kind == "path" and not start_missing:
        open(P, "wb").write(b"1")
        os.utime(P, ns=(10**18, 10**18))
    bf = os.path.join(S, "build.llbuild")
    open(bf, "w").write(MULTI_TMPL % (script, ('    working-directory: "%s"\n' % wd) if wd else "", ", ".join('"f%d.d"' % i for i in range(nfiles)), style))
    mwd = os.path.join(S, wd).encode() if wd else b""
    rcm, mo, me = vlib.run_lines(sides(chk).model, ["processn %d %s %s %s" % (STYLE_CODE[style], hx(S.encode()), hx(mwd), ",".join("!" if f is None else hx(f) for f in files))])
    mok, mkeys = mo[0].split(" ")[0] == "1", [unhx(x) for x in mo[0].split(" ")[1].split(",")] if mo[0].split(" ")[1] != "." else []
    norm = lambda k: os.path.normpath(phys(os.path.join(S.encode(), k)))
    rp = dict(multi=dict(style=style, name=repr(name), name_hex=hx(name), mode=mode, files=nfiles, position=pos, kind=kind, variant=variant, start_missing=start_missing),
              path=repr(P), deps_files=[repr(f) for f in files], working_directory=wd, sandbox=S,
              model=dict(succeeds=mok, keys=[repr(k) for k in mkeys], tracks_the_path=norm(P) in [norm(k) for k in mkeys]))
    return rp, bf, cmdwd, P

def count_lines(path):
    return len(open(path).read().split()) if os.path.exists(path) else 0

def cli_multi_history(chk, llb, S, style, mode, name, nfiles, pos, kind, event, variant):
    rp, bf, cmdwd, P = multi_setup(chk, S, style, mode, name, nfiles, pos, kind, variant, start_missing=(event == "create"))
    log = rp["builds"] = []
    where = "%s of %d" % (["first", "second", "third"][pos], nfiles)
    def build(label):
        rc, out, err = vlib.sh([llb, "buildsystem", "build", "--serial", "--chdir", S, "-f", bf], timeout=60)
        n, d = count_lines(os.path.join(cmdwd, "counter")), count_lines(os.path.join(S, "dependent"))
        log.append(dict(step=label, exit=rc, executions_so_far=n, dependent_executions=d, output=(out + err)[-400:]))
        return rc, n, d
    rp["oracle"] = "executions of the command and of its dependent counted through side-effect files, judged by the harness without the model"
    if kind != "path":
        rc, n, d = build("build: the %s dependency file is %s" % (where, kind))
        if rc == 0 or d != 0:
            return ("multi-deps-bad-file-accepted", "a command with %d dependency files whose %s file is %s: the build %s%s" % (
                nfiles, ["first", "second", "third"][pos], kind, "succeeds" if rc == 0 else "fails", " and the dependent command ran" if d else ""), rp)
        if n != 1:
            return ("setup", "the command did not run once (%d)" % n, rp)
        rc, n, d = build("next build, nothing changed")
        if rc == 0 or n != 2 or d != 0:
            return ("multi-deps-bad-file-accepted", "a command whose %s dependency file is %s is not retried by the next build (exit %d, %d executions, dependent ran %d times)" % (
                ["first", "second", "third"][pos], kind, rc, n, d), rp)
        return (None, "", rp)
    rc, n, d = build("first build")
    if rc != 0 or n != 1:
        return ("setup", "first build: exit %d, %d executions" % (rc, n), rp)
    rc, n, d = build("second build, nothing changed")
    if rc != 0 or n != 1:
        return ("spurious-reexecution", "the command re-executed (or the build failed) although nothing changed (exit %d, %d executions)" % (rc, n), rp)
    if event == "modify":
        open(P, "wb").write(b"22"); os.utime(P, ns=(10**18 + 5 * 10**9, 10**18 + 5 * 10**9))
    elif event == "delete":
        os.unlink(P)
    else:
        open(P, "wb").write(b"1")
    rc, n, d = build("build after %s of the path named only in the %s dependency file" % (event, where))
    if n != 2:
        return ("multi-deps-change-not-honoured", "the command has %d dependency files and reported reading %r only in the %s one; it did not re-execute after the %s of that path" % (
            nfiles, P, ["first", "second", "third"][pos], {"modify": "modification", "delete": "deletion", "create": "creation"}[event]), rp)
    rc, n, d = build("last build, nothing changed")
    if n != 2:
        return ("spurious-reexecution", "the command re-executed although nothing changed since the previous build", rp)
    return (None, "", rp)

def inprocess_multi_history(chk, S, style, mode, name, nfiles, pos, variant, use_db):
    """the same through ONE BuildSystemFrontend: the path named only in file `pos` changes several times"""
    rp, bf, cmdwd, P = multi_setup(chk, S, style, mode, name, nfiles, pos, "path", variant)
    log = rp["builds"] = []
    rp["inprocess_multi"] = dict(rp["multi"], use_db=use_db)
    it = vlib.Interactive(sides(chk).deps)
    try:
        a = it.ask("open %s %s %s 0" % (hx(S.encode()), hx(bf.encode()), hx(os.path.join(S, "build.db").encode()) if use_db else "-"))
        want, size, stamp = 0, 1, 10**18
        for i, ev in enumerate(["initial", "none", "modify", "modify", "delete", "create", "none"]):
            if ev in ("modify", "create"):
                size += 1; stamp += 5 * 10**9
                open(P, "wb").write(b"x" * size); os.utime(P, ns=(stamp, stamp))
            elif ev == "delete":
                os.unlink(P)
            if ev != "none":
                want += 1
            f = dict(x.split("=", 1) for x in it.ask("build -").split(" "))
            n = count_lines(os.path.join(cmdwd, "counter"))
            log.append(dict(build=i + 1, before=ev, ok=f.get("ok"), commands_started=f.get("ran"), executions_so_far=n, expected=want))
            if f.get("ok") != "1":
                return ("inprocess-build-failed", "build %d of a sequence through one build system failed" % (i + 1), rp)
            if n < want:
                return ("multi-deps-change-not-honoured", "one build system, several builds: the command has %d dependency files and reported reading %r only in the %s one; "
                        "it did not re-execute after the %s of that path (build %d)" % (nfiles, P, ["first", "second", "third"][pos], ev, i + 1), rp)
            if n > want:
                return ("inprocess-spurious-reexecution", "one build system, several builds: the command re-executed although nothing changed (build %d)" % (i + 1), rp)
    except RuntimeError as e:
        rp["driver_error"] = str(e)[-1500:]
        return ("inprocess-crash", "the in-process build driver died during a sequence of builds", rp)
    finally:
        it.close()
    return (None, "", rp)

def multi_part(chk):
    base = os.path.join(sandbox(), "multi")
    shutil.rmtree(base, ignore_errors=True)
    os.makedirs(base)
    llb = private_llbuild(base)
    names = [b"hdr.h", b"h d", b"a:b c", b"./h", b'"config"']
    modes = ["relative", "relative-wd", "absolute"]
    hist = []     # (how, style, mode, name, nfiles, pos, kind, event)
    i = 0
    if chk.quick():
        for style in STYLES:
            for (nf, pos) in ((2, 1), (3, 2), (3, 1)):
                hist.append(("cli", style, modes[i % 3], names[i % 5], nf, pos, "path", EVENTS[i % 3])); i += 1
            for kind in ("malformed", "missing"):
                for (nf, pos) in ((3, 0), (3, 1), (3, 2), (2, 0)):
                    hist.append(("cli", style, modes[i % 3], b"hdr.h", nf, pos, kind, "none")); i += 1
            hist.append(("inproc", style, modes[i % 3], names[i % 5], 3, 2, "path", "none")); i += 1
        hist.append(("cli", "makefile-ignoring-subsequent-outputs", "relative", b"hdr.h", 2, 1, "path", "modify"))
        hist.append(("cli", "makefile-ignoring-subsequent-outputs", "relative", b"hdr.h", 3, 0, "malformed", "none"))
    else:
        for style in ALL_STYLES:
            for nf in (2, 3):
                for pos in range(nf):
                    for event in EVENTS[:3]:
                        hist.append(("cli", style, modes[i % 3], names[i % 5], nf, pos, "path", event)); i += 1
                    for kind in ("malformed", "missing"):
                        hist.append(("cli", style, modes[i % 3], b"hdr.h", nf, pos, kind, "none")); i += 1
                    for use_db in (True, False):
                        hist.append(("inproc" if use_db else "inproc-nodb", style, modes[i % 3], names[i % 5], nf, pos, "path", "none")); i += 1
    builds = ok = skipped = 0
    mism = []
    for k, (how, style, mode, name, nf, pos, kind, event) in enumerate(hist):
        S = os.path.join(base, "m%d" % k)
        if how == "cli":
            key, what, rp = cli_multi_history(chk, llb, S, style, mode, name, nf, pos, kind, event, k)
        else:
            key, what, rp = inprocess_multi_history(chk, S, style, mode, name, nf, pos, k, how == "inproc")
        builds += len(rp["builds"])
        if key == "setup":
            skipped += 1
            chk.notes.setdefault("multi_histories_not_applicable", []).append(dict(history=rp["multi"], why=what))
            continue
        chk.count(("multi", how, style, mode, name, nf, pos, kind, event))
        if k == 1:
            chk.cov["multi_deps_sample"] = dict(history=rp["multi"], deps_files=rp["deps_files"], builds=[(b.get("step", b.get("before")), b.get("exit", b.get("ok")), b["executions_so_far"]) for b in rp["builds"]])
        # the glue model's prediction for the list of files
        if kind == "path" and (key in (None, "multi-deps-change-not-honoured")) and (key is None) != rp["model"]["tracks_the_path"]:
            mism.append(dict(history=rp["multi"], model=rp["model"], implementation_reexecutes=(key is None)))
        if kind != "path" and (key is None) != (not rp["model"]["succeeds"]):
            mism.append(dict(history=rp["multi"], model=rp["model"], implementation_build_fails=(key is None)))
        if key:
            chk.violation(key, what, rp, found_input=True, broken="c11 oracle (every dependency file of a command counts) on llbuild")
        else:
            ok += len(rp["builds"])
            shutil.rmtree(S, ignore_errors=True)
    chk.cov["multi_deps_histories"] = len(hist)
    chk.cov["multi_deps_not_applicable"] = skipped
    chk.cov["multi_deps_builds"] = builds
    chk.cov["traces_validated_against_impl"] = chk.cov.get("traces_validated_against_impl", 0) + ok
    if mism and not any(v["found"] for v in chk.violations):
        chk.violation("glue-correspondence-multi", "the glue model (Parse/DepsGlue.v: process_discovered over several dependency files) and llbuild disagree on %d histories" % len(mism),
                      dict(broken="correspondence: Parse.DepsGlue.process_files vs ShellCommand::processDiscoveredDependencies", examples=mism[:4]),
                      found_input=False, broken="correspondence: Parse.DepsGlue.process_files")
    if skipped * 2 > len(hist):
        chk.violation("multi-histories-setup", "most histories with several dependency files could not be set up", dict(examples=chk.notes.get("multi_histories_not_applicable", [])[:3]),
                      found_input=False, broken="harness: multi-deps histories")

# ------------------------------------------------------------------ C11: a declared input whose NAME equals the relative spelling of a discovered path

DECLARED_TMPL = """client:
  name: basic

targets:
  "": ["<all>"]

commands:
  C1:
    tool: shell
    inputs: ["%s"]
    outputs: ["<all>"]
    description: CC
    args: "cp deps.src out.d && echo x >> counter"
    working-directory: "sub dir"
    deps: out.d
    deps-style: %s
"""

def declared_history(chk, llb, S, style, name, order, inproc, variant):
    """Declared input `name` (relative to the build root) and a dependency file that lists the same spelling, meaning
    <working-directory>/name: two different files.  Each is edited separately; each edit must re-execute the command."""
    shutil.rmtree(S, ignore_errors=True)
    cmdwd = os.path.join(S, "sub dir")
    os.makedirs(cmdwd)
    root_file, wd_file = os.path.join(S.encode(), name), os.path.join(cmdwd.encode(), name)
    stamp = [10**18]
    def write(path, content):
        open(path, "wb").write(content); stamp[0] += 5 * 10**9; os.utime(path, ns=(stamp[0], stamp[0]))
    write(root_file, b"r"); write(wd_file, b"w")
    data = deps_file(style, name, variant)
    open(os.path.join(cmdwd, "deps.src"), "wb").write(data)
    bf = os.path.join(S, "build.llbuild")
    open(bf, "w").write(DECLARED_TMPL % (name.decode(), style))
    counter = os.path.join(cmdwd, "counter")
    steps = ["initial", "none"] + order + ["none"]
    log = []
    rp = dict(declared=dict(style=style, name=repr(name), name_hex=hx(name), order=order, inprocess=inproc, variant=variant),
              declared_input=repr(root_file), discovered_path=repr(wd_file), deps_file_repr=repr(data), working_directory="sub dir", sandbox=S, steps=steps, builds=log,
              oracle="executions of the command counted through its side-effect file; every edit of the declared input AND every edit of the discovered file must re-execute it")
    it = vlib.Interactive(sides(chk).deps) if inproc else None
    try:
        if it:
            it.ask("open %s %s %s 0" % (hx(S.encode()), hx(bf.encode()), hx(os.path.join(S, "build.db").encode())))
        want, size = 0, 1
        for i, ev in enumerate(steps):
            if ev in ("wd", "root"):
                size += 1
                write(wd_file if ev == "wd" else root_file, b"x" * size)
            if ev != "none":
                want += 1
            if it:
                f = dict(x.split("=", 1) for x in it.ask("build -").split(" "))
                okb = f.get("ok") == "1"
            else:
                rc, out, err = vlib.sh([llb, "buildsystem", "build", "--serial", "--chdir", S, "-f", bf], timeout=60)
                okb = rc == 0
            n = count_lines(counter)
            log.append(dict(build=i + 1, before={"wd": "edit of <working-directory>/" + name.decode("latin-1"), "root": "edit of the declared input " + name.decode("latin-1")}.get(ev, ev),
                            ok=okb, executions_so_far=n, expected=want))
            if not okb:
                return ("declared-build-failed", "build %d failed" % (i + 1), rp)
            if n < want:
                if ev == "wd":
                    return ("discovered-path-named-like-declared-input", "the command (working-directory 'sub dir', %s style) declares the input %r and reported reading %r through its dependency file "
                            "(same spelling, a different file); after the edit of %r it did not re-execute" % (style, root_file, wd_file, wd_file), rp)
                return ("declared-input-change-not-honoured", "the command did not re-execute after the edit of its declared input %r" % (root_file,), rp)
            if n > want:
                return ("spurious-reexecution", "the command re-executed although nothing changed (build %d)" % (i + 1), rp)
    except RuntimeError as e:
        rp["driver_error"] = str(e)[-1500:]
        return ("inprocess-crash", "the in-process build driver died during a sequence of builds", rp)
    finally:
        if it:
            it.close()
    return (None, "", rp)

def declared_part(chk):
    base = os.path.join(sandbox(), "declared")
    shutil.rmtree(base, ignore_errors=True)
    os.makedirs(base)
    llb = private_llbuild(base)
    hist = []
    orders = [["wd", "root", "wd"], ["root", "wd"], ["wd", "wd", "root"]]
    i = 0
    for style in (STYLES if chk.quick() else ALL_STYLES):
        for name in ([b"config.h"] if chk.quick() else [b"config.h", b"h d", b"inc.h"]):
            for inproc in (False, True):
                for order in (orders[:1] if chk.quick() else orders):
                    hist.append((style, name, order, inproc, i)); i += 1
    builds = ok = 0
    for k, (style, name, order, inproc, variant) in enumerate(hist):
        S = os.path.join(base, "d%d" % k)
        key, what, rp = declared_history(chk, llb, S, style, name, order, inproc, variant)
        builds += len(rp["builds"])
        chk.count(("declared", style, name, tuple(order), inproc))
        if k == 0:
            chk.cov["declared_input_sample"] = dict(history=rp["declared"], builds=[(b["before"], b["executions_so_far"]) for b in rp["builds"]])
        if key:
            chk.violation(key, what, rp, found_input=True, broken="c11 oracle (a change of a discovered path re-executes the command) with a declared input of the same spelling")
        else:
            ok += len(rp["builds"])
            shutil.rmtree(S, ignore_errors=True)
    chk.cov["declared_input_histories"] = len(hist)
    chk.cov["declared_input_builds"] = builds
    chk.cov["traces_validated_against_impl"] = chk.cov.get("traces_validated_against_impl", 0) + ok

def private_llbuild(base):
    """a private copy of the freshly built llbuild: other checks may relink _work/b-hooks/bin/llbuild while the
    histories below run (the copy is taken under the lock that guards that build directory)"""
    llb = vlib.llbuild_bin()
    dst = os.path.join(base, "llbuild")
    with vlib.Lock("build-hooks"):
        shutil.copy2(llb, dst)
    return dst

def sandbox():
    """a sandbox private to this run: concurrent runs of the check cannot collide"""
    return os.path.join(vlib.WORK, "tmp", "c11", str(os.getpid()))

# histories that once failed; always run first, in both tiers.  (style, name, mode, event, variant)
CORPUS_CLI = [
    # fixed by /repo ba34c0a: dependency-info inputs were keyed verbatim, not resolved against the working-directory
    ("dependency-info", b"h d", "relative-wd", "modify", 18),
    ("dependency-info", b"h", "relative-wd", "delete", 0),
    ("dependency-info", b"./h", "relative-wd", "create", 1),
]

def cli_part(chk):
    base = sandbox()
    shutil.rmtree(base, ignore_errors=True)
    os.makedirs(base)
    llb = private_llbuild(base)
    rng = chk.rng
    scen = list(CORPUS_CLI)
    if chk.quick():
        # every style x mode x event once, names and file variants cycling; plus extra names
        i = 0
        for style in STYLES:
            for mode in MODES:
                for event in EVENTS[:3]:
                    scen.append((style, NAMES[i % len(NAMES)], mode, event, i))
                    i += 1
        scen.append(("makefile", NAMES[13], "relative", "none", 1))
        for j, nm in enumerate(COLON_ESCAPE_PATHS[:4]):
            scen.append(("makefile", nm, MODES[j % 4], EVENTS[j % 3], j))
        for j, nm in enumerate(QUOTE_PATHS[:4]):
            scen.append(("makefile", nm, MODES[(j + 1) % 4], EVENTS[j % 3], j + 1))
        for j, nm in enumerate(DOT_NAMES[:4]):
            scen.append((STYLES[j % 2], nm, "symlink-wd", EVENTS[j % 3], j))
            scen.append((STYLES[(j + 1) % 2], nm, "symlink-wd", EVENTS[(j + 1) % 3], j + 1))
        scen.append(("makefile-ignoring-subsequent-outputs", NAMES[13], "relative-wd", "modify", 4))
        scen.append(("makefile-ignoring-subsequent-outputs", NAMES[4], "absolute", "create", 3))
        scen.append(("dependency-info", NAMES[13], "absolute-wd", "none", 0))
    else:
        i = 0
        for style in ALL_STYLES:
            for name in NAMES:
                for mode in MODES:
                    for event in EVENTS:
                        scen.append((style, name, mode, event, i))
                        i += 1
            for name in DOT_NAMES:
                for event in EVENTS:
                    scen.append((style, name, "symlink-wd", event, i))
                    i += 1
    builds = ok = 0
    mism = []
    for k, (style, name, mode, event, variant) in enumerate(scen):
        if style.startswith("makefile") and name.startswith(b":"):
            continue
        S = os.path.join(base, "s%d" % k)
        key, what, rp = cli_scenario(chk, llb, S, style, name, mode, event, variant)
        builds += len(rp["builds"])
        chk.count(("cli", style, name, mode, event, variant % 4) if event != "none" else None)
        if k == 0:
            chk.cov["corpus_history"] = dict(scenario=rp["scenario"], executions=[b["executions_so_far"] for b in rp["builds"]], model=rp["model"],
                                             model_before_ba34c0a=rp.get("model_before_ba34c0a"))
        if k == 5:
            chk.sample(dict(kind="cli-history", scenario=rp["scenario"], deps_file_repr=rp["deps_file_repr"], builds=[(b["step"], b["exit"], b["executions_so_far"]) for b in rp["builds"]]))
        observed = None if event == "none" or key in ("cli-first-build", "spurious-reexecution") else (key is None)
        if observed is not None and observed != rp["model"]["tracks_the_path"]:
            mism.append(dict(scenario=rp["scenario"], model=rp["model"], implementation_reexecutes=observed, deps_file_repr=rp["deps_file_repr"]))
        if key:
            # regression of /repo ba34c0a (dependency-info inputs not resolved against the working directory): one finding, one key
            if key == "change-not-honoured" and style == "dependency-info" and mode == "relative-wd":
                key = "depinfo-relative-path-not-resolved"
                what = ("dependency-info style: a RELATIVE input path reported by a command that runs in a working-directory is keyed relative to the "
                        "current directory of llbuild, not to the command's working directory, so a change to the file the command read does not re-execute it. " + what)
            if key == "change-not-honoured" and mode == "symlink-wd":
                key = "change-not-honoured-through-symlink"
            chk.violation(key, what, rp, found_input=True, broken="c11 oracle (discovered path change re-executes the command) on llbuild buildsystem build")
        else:
            ok += len(rp["builds"])
            shutil.rmtree(S, ignore_errors=True)
    # malformed dependency files must fail the build
    mal = [("makefile", b"out hdr\n"), ("makefile", b"out: $x\n"), ("makefile", b"out: :x\n"), ("makefile", b": x\n"), ("makefile", b"out: a\0b\n"),
           ("dependency-info", b"\0v\0\x10hdr"), ("dependency-info", b"\x10hdr\0"), ("dependency-info", b"\0v\0\x10\0"), ("dependency-info", b"\0v\0\x07hdr\0"),
           ("dependency-info", b"\0"), ("dependency-info", b"")]
    for k, (style, data) in enumerate(mal if not chk.quick() else mal[:2] + mal[5:8]):
        S = os.path.join(base, "m%d" % k)
        key, what, rp = cli_scenario(chk, llb, S, style, b"hdr", "relative", "none", 0, malformed=data)
        builds += len(rp["builds"])
        chk.count(("cli-malformed", style, data))
        if (key is None) != (not rp["model"]["succeeds"]) and key != "malformed-not-run":
            mism.append(dict(scenario=rp["scenario"], model=rp["model"], implementation_build_fails=(key is None)))
        if key:
            chk.violation(key, what, rp, found_input=True, broken="c11 oracle (a malformed dependency file fails the command) on llbuild buildsystem build")
        else:
            ok += len(rp["builds"])
            shutil.rmtree(S, ignore_errors=True)
    chk.cov["cli_model_mismatches"] = len(mism)
    if mism and not any(v["found"] for v in chk.violations):
        # the implementation does what the property asks (or fails it in another way) where the glue model says otherwise
        chk.violation("glue-correspondence-cli", "the glue model (Parse/DepsGlue.v: keys / success flag of a dependency file) and llbuild disagree on %d histories: "
                      "the model is out of date with lib/BuildSystem/ShellCommand.cpp" % len(mism),
                      dict(broken="correspondence: Parse.DepsGlue.process_discovered vs ShellCommand::processDiscoveredDependencies", examples=mism[:4]),
                      found_input=False, broken="correspondence: Parse.DepsGlue.process_discovered")
    chk.cov["cli_scenarios"] = len(scen) + len(mal)
    chk.cov["cli_builds"] = builds
    chk.cov["traces_validated_against_impl"] = ok


# ------------------------------------------------------------------ C11: several builds through ONE in-process build system

def inprocess_history(chk, S, style, name, mode, variant, use_db, start_missing):
    """One loaded description, one BuildSystemFrontend (harness/cpp/deps_driver.cpp), a sequence of builds with changes
    of the discovered path in between.  Returns (key or None, what, replay dict)."""
    shutil.rmtree(S, ignore_errors=True)
    wd, cmdwd, P, spelled = layout(S, mode, name)
    data = deps_file(style, spelled, variant)
    open(os.path.join(cmdwd, "deps.src"), "wb").write(data)
    stamp = [10**18]
    def write(content):
        open(P, "wb").write(content)
        stamp[0] += 5 * 10**9
        os.utime(P, ns=(stamp[0], stamp[0]))
    if not start_missing:
        write(b"1")
    bf = os.path.join(S, "build.llbuild")
    open(bf, "w").write(BUILD_TMPL % (('    working-directory: "%s"\n' % wd) if wd else "", style))
    counter = os.path.join(cmdwd, "counter")
    steps = (["none", "create", "modify", "none", "delete", "create", "modify"] if start_missing
             else ["none", "modify", "modify", "none", "delete", "create", "modify", "modify"])
    log = []
    rp = dict(inprocess=dict(style=style, name=repr(name), name_hex=hx(name), mode=mode, variant=variant, use_db=use_db, start_missing=start_missing),
              path=repr(P), spelled_in_deps_file=repr(spelled), deps_file_repr=repr(data), working_directory=wd, sandbox=S, steps=["initial"] + steps, builds=log,
              oracle="one BuildSystemFrontend used for all builds; executions counted through the command's side-effect file and the commandStarted callback; "
                     "the command must run after EVERY observable change of the discovered path and must not run otherwise")
    it = vlib.Interactive(sides(chk).deps)
    try:
        a = it.ask("open %s %s %s 0" % (hx(S.encode()), hx(bf.encode()), hx(os.path.join(S, "build.db").encode()) if use_db else "-"))
        if a != "ok":
            return ("inprocess-driver", "deps_driver: %s" % a, rp)
        want = 0
        size = 1
        for i, ev in enumerate(["initial"] + steps):
            if ev == "modify":
                size += 1
                write(b"x" * size)
            elif ev == "create":
                size += 1
                write(b"y" * size)
            elif ev == "delete":
                os.unlink(P)
            if ev != "none":
                want += 1
            a = it.ask("build -")
            f = dict(x.split("=", 1) for x in a.split(" "))
            n = len(open(counter).read().split()) if os.path.exists(counter) else 0
            ran = f.get("ran", ".") != "."
            log.append(dict(build=i + 1, before=ev, ok=f.get("ok"), commands_started=f.get("ran"), executions_so_far=n, expected=want,
                            messages=unhx(f.get("msgs", "-")).decode("utf-8", "replace")[-300:]))
            if f.get("ok") != "1":
                return ("inprocess-build-failed", "build %d of a sequence through one build system failed: %s" % (i + 1, log[-1]["messages"]), rp)
            if n < want or (ev != "none" and not ran):
                nth = sum(1 for e in (["initial"] + steps)[1:i + 1] if e != "none")
                return ("inprocess-change-not-honoured",
                        "one build system, several builds (%s style): the command reported reading %r but did not re-execute after the %s of it "
                        "(change number %d of the sequence; build %d)" % (style, P, {"modify": "modification", "delete": "deletion", "create": "creation"}[ev], nth, i + 1), rp)
            if n > want or (ev == "none" and ran):
                return ("inprocess-spurious-reexecution", "one build system, several builds: the command re-executed although nothing changed (build %d)" % (i + 1), rp)
    except RuntimeError as e:
        rp["driver_error"] = str(e)[-1500:]
        return ("inprocess-crash", "the in-process build driver died during a sequence of builds", rp)
    finally:
        it.close()
    return (None, "", rp)

def inprocess_part(chk):
    base = os.path.join(sandbox(), "inproc")
    shutil.rmtree(base, ignore_errors=True)
    os.makedirs(base)
    names = [b"hdr.h", b"h d", b"a:b c", b"h$d#e\\f", b"x:y#z", b"\x80\xff", b"./h", b"m:n$o"]
    names += [b'"config"', b"'q r'"]
    hist = []
    if chk.quick():
        i = 0
        for style in ALL_STYLES:
            for mode in MODES:
                hist.append((style, names[i % len(names)], mode, i % 3, i % 4 != 3, i % 5 == 4))
                i += 1
        hist.append(("makefile", b'"config"', "relative", 0, True, False))
        hist.append(("makefile", b"../x", "symlink-wd", 1, True, False))
        hist.append(("dependency-info", b"a/../x", "symlink-wd", 0, True, True))
        hist.append(("dependency-info", b"../x", "symlink-wd", 1, False, False))
    else:
        for j, style in enumerate(ALL_STYLES):
            for dn in DOT_NAMES:
                for use_db in (True, False):
                    hist.append((style, dn, "symlink-wd", j % 3, use_db, (j + len(dn)) % 3 == 0))
        i = 0
        for style in ALL_STYLES:
            for name in names:
                for mode in MODES:
                    for use_db in (True, False):
                        hist.append((style, name, mode, i % 3, use_db, i % 3 == 2))
                        i += 1
    builds = ok = 0
    for k, (style, name, mode, variant, use_db, start_missing) in enumerate(hist):
        S = os.path.join(base, "p%d" % k)
        key, what, rp = inprocess_history(chk, S, style, name, mode, variant, use_db, start_missing)
        builds += len(rp["builds"])
        chk.count(("inproc", style, name, mode, variant, use_db, start_missing))
        if k == 0:
            chk.cov["inprocess_sample"] = dict(history=rp["inprocess"], builds=[(b["before"], b["commands_started"], b["executions_so_far"]) for b in rp["builds"]])
        if key:
            chk.violation(key, what, rp, found_input=True, broken="c11 oracle (every change of a discovered path re-executes the command) on one in-process BuildSystemFrontend")
        else:
            ok += len(rp["builds"])
            shutil.rmtree(S, ignore_errors=True)
    chk.cov["inprocess_histories"] = len(hist)
    chk.cov["inprocess_builds"] = builds
    chk.cov["traces_validated_against_impl"] = chk.cov.get("traces_validated_against_impl", 0) + ok


# ------------------------------------------------------------------ entry points

def guarded(chk, phase, fn, *args, **kw):
    """A phase must end in a verdict, never in an exception: output of the implementation (or of the model) that the
    judging code cannot digest is itself reported, with what is known about the input."""
    import traceback
    try:
        return fn(chk, *args, **kw)
    except vlib.BuildError:
        raise
    except Exception as e:
        tb = traceback.format_exc()
        chk.violation("unexpected-output-" + phase, "phase %s of the check could not interpret what the implementation (or the model) answered: %r" % (phase, e),
                      dict(broken="correspondence: answer format of the drivers / model in phase %s" % phase, traceback=tb[-3000:],
                           last_disagreements={k: v[:2] for k, v in chk.notes.items() if k.startswith("disagreements_")}),
                      found_input=False, broken="correspondence: unexpected driver output (%s)" % phase)
        return None

def run(chk):
    sides(chk)
    chk.proof_gate()
    # the property's own oracles on the implementation first; model/implementation disagreements are reported last and
    # only when no oracle produced a failing input
    guarded(chk, "writer", writer_part)
    guarded(chk, "cli", cli_part)
    guarded(chk, "aborted", aborted_part)
    guarded(chk, "multi-deps", multi_part)
    guarded(chk, "declared-input", declared_part)
    guarded(chk, "inprocess", inprocess_part)
    guarded(chk, "byte-strings", deps_part, report=False)
    report_disagreements(chk, "parsers")
    guarded(chk, "glue", glue_part)
    if not chk.violations:
        shutil.rmtree(sandbox(), ignore_errors=True)       # failing sandboxes are kept for inspection
    shutil.rmtree(sides(chk).bindir, ignore_errors=True)
    chk.assumptions = ["POSIX branch of lexWord and of llvm::sys::path (the Windows drive-letter branch is not modelled)",
                       "the parser models are tied to the code by differential execution (exhaustive over small alphabets, sampled beyond)",
                       "the glue of ShellCommand.cpp (DepsActions) is a local class: its path statements are replayed in parse_driver.cpp, its effect on rebuilds is observed through the llbuild CLI",
                       "c11_rebuild_link (a discovered key is re-checked on later builds) is not proved here; it is observed at the CLI and belongs to the engine properties C01/C02"]
    return chk.finish(level="proof",
                      rule="parsers: corpus, all strings over 7-8 (makefile) / 4-6 (dependency-info) special bytes up to length 5-7, every truncation of valid files, grammar mutations, random bytes, "
                           "writer outputs for path lists over an alphabet with every special byte (3 separators, 1-3 rules), malformed families; each through the normal build, the ASan build and the model. "
                           "glue: words over '/.a' up to length 4 x 11 working directories. cli: style x path spelling x (relative|absolute) x (with|without working-directory) x (modify|delete|create|none). "
                           "declared: a working-directory command whose declared input has the same spelling as a discovered relative path (two files), each edited separately (cli and in-process). multi: commands with 2-3 dependency files - the path named only in the 1st/2nd/3rd file changes (cli and in-process); a malformed / missing file in each position must fail the build, keep the dependent from running and be retried. aborted: a build that ends unsuccessfully (cycle elsewhere / unrelated failing command) after the command recorded the path, then repair + change + new process over the same database. in-process: one BuildSystemFrontend (deps_driver.cpp) used for 7-9 builds with modify / delete / create of the discovered path in between, 3 styles x spellings x modes x with/without database. "
                           "non-trivial = the implementation emits at least one event (parsers), relative word (glue), history with a change (cli, in-process); distinct by request / scenario",
                      trusted=["hand-written models coq/Parse/MakeDeps.v, DepInfo.v, DepsGlue.v tied by correspondence", "harness/cpp/parse_driver.cpp", "harness/cpp/deps_driver.cpp",
                               "extraction (ExtrOcamlBasic) + ocaml/vmodel_parse.ml", "clang-14 AddressSanitizer/UBSan as the observer of reads outside the buffer"])

def replay(chk, rp):
    print(json.dumps({k: v for k, v in rp.items() if k not in ("stderr", "coq_log_tail")}, indent=1))
    s = sides(chk)
    if rp.get("request"):
        for (label, binary, env) in (("implementation", s.drv, None), ("implementation (ASan build)", s.asan, ASAN_ENV), ("model", s.model, None)):
            rc, out, err = vlib.sh([binary], input=rp["request"] + "\n", timeout=120, env=env)
            print("%-28s exit=%d answer=%s" % (label, rc, out.strip()))
            if err.strip():
                print(err[-3000:])
    sc = rp.get("scenario")
    if sc:
        S = os.path.join(sandbox() + "-replay", "replay")
        os.makedirs(os.path.dirname(S), exist_ok=True)
        key, what, r2 = cli_scenario(chk, private_llbuild(os.path.dirname(S)), S, sc["style"], unhx(sc["name_hex"]), sc["mode"], sc["event"], sc["variant"],
                                     malformed=unhx(sc["malformed_hex"]) if sc.get("malformed_hex") else None)
        print("scenario replayed: %s" % (("FAILS: " + key + " - " + what) if key else "passes"))
        for b in r2["builds"]:
            print("  ", b["step"], "exit", b["exit"], "executions", b["executions_so_far"])
    de = rp.get("declared")
    if de:
        base = sandbox() + "-replay"
        os.makedirs(base, exist_ok=True)
        key, what, r2 = declared_history(chk, private_llbuild(base), os.path.join(base, "declared"), de["style"], unhx(de["name_hex"]), de["order"], de["inprocess"], de["variant"])
        print("declared-input history replayed: %s" % (("FAILS: " + key + " - " + what) if key else "passes"))
        for b in r2["builds"]:
            print("  ", b)
    mu = rp.get("multi")
    if mu:
        base = sandbox() + "-replay"
        os.makedirs(base, exist_ok=True)
        S = os.path.join(base, "multi")
        if rp.get("inprocess_multi"):
            key, what, r2 = inprocess_multi_history(chk, S, mu["style"], mu["mode"], unhx(mu["name_hex"]), mu["files"], mu["position"], mu["variant"], rp["inprocess_multi"]["use_db"])
        else:
            ev = "create" if mu.get("start_missing") else "modify"
            key, what, r2 = cli_multi_history(chk, private_llbuild(base), S, mu["style"], mu["mode"], unhx(mu["name_hex"]), mu["files"], mu["position"], mu["kind"], ev, mu["variant"])
        print("multi-deps history replayed: %s" % (("FAILS: " + key + " - " + what) if key else "passes"))
        for b in r2["builds"]:
            print("  ", b)
    ab = rp.get("aborted")
    if ab:
        base = sandbox() + "-replay"
        os.makedirs(base, exist_ok=True)
        key, what, r2 = cli_aborted_history(chk, private_llbuild(base), os.path.join(base, "aborted"), ab["style"], unhx(ab["name_hex"]), ab["mode"], ab["abort"], ab["event"], ab["variant"])
        print("aborted-build history replayed: %s" % (("FAILS: " + key + " - " + what) if key else "passes"))
        for b in r2["builds"]:
            print("  ", b["step"], "exit", b["exit"], "executions", b["executions_so_far"])
    ip = rp.get("inprocess")
    if ip:
        S = os.path.join(sandbox() + "-replay", "inproc")
        os.makedirs(os.path.dirname(S), exist_ok=True)
        key, what, r2 = inprocess_history(chk, S, ip["style"], unhx(ip["name_hex"]), ip["mode"], ip["variant"], ip["use_db"], ip["start_missing"])
        print("in-process history replayed: %s" % (("FAILS: " + key + " - " + what) if key else "passes"))
        for b in r2["builds"]:
            print("  build", b["build"], "after", b["before"], "started:", b["commands_started"], "executions", b["executions_so_far"], "expected", b["expected"])
    return run(chk)
