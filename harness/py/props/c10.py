# C10 - a failed or cancelled command never feeds dependents and is always retried
#
# (a) proof gate (coq/Props/Properties_C10.v over coq/BSys/Failure.v)
# (b) exhaustive table tie: the REAL getResultForOutput / isResultValid / provideValue+execute of real command
#     instances (harness/cpp/bsys_driver.cpp `probe`) against the extracted model, plus the property's own oracle
#     on those tables
# (c) histories of builds with injected failures through `llbuild buildsystem build` (cancels at the first
#     failure) and through the driver (real BuildSystemFrontend, keep-going or cancelling delegate), serial and
#     parallel, judged by oracles computed from the description graph alone; keep-going fresh builds are also
#     compared with the model's prediction (D-tie).
import os, json, shutil, re, time
from concurrent.futures import ThreadPoolExecutor
import vlib

BASE = os.path.join(vlib.WORK, "tmp", "c10")
hx = lambda s: s.encode().hex() if s else "-"

TOOLS = {"shell": 0, "phony": 1, "mkdir": 2, "symlink": 3, "stale-file-removal": 4}
FAILING = (11, 12, 13)          # FailedCommand, PropagatedFailureCommand, CancelledCommand
KNAME = {0: "Invalid", 1: "VirtualInput", 2: "ExistingInput", 3: "MissingInput", 5: "DirectoryTreeSignature",
         6: "DirectoryTreeStructureSignature", 7: "StaleFileRemoval", 8: "MissingOutput", 9: "FailedInput",
         10: "SuccessfulCommand", 11: "FailedCommand", 12: "PropagatedFailureCommand", 13: "CancelledCommand",
         14: "SkippedCommand", 17: "SuccessfulCommandWithOutputSignature"}

def robust(fn, *a, **kw):
    """Other checks may relink the shared binaries under _work while this one runs (exec then fails with EACCES /
    ETXTBSY, or the binary is briefly absent): wait for the build lock and retry."""
    for attempt in range(6):
        try:
            return fn(*a, **kw)
        except (OSError, RuntimeError) as e:
            if attempt == 5:
                raise
            time.sleep(1.0 + attempt)
            try:
                vlib.llbuild_bin()
            except vlib.BuildError:
                pass


# ------------------------------------------------------------------------------------------------ (b) tables

PROBE_DESC = """client:
  name: basic

targets:
  "": ["<all>"]

nodes:
  "<p_shts>": {is-command-timestamp: true}
  "<p_phts>": {is-command-timestamp: true}
  "<p_mkts>": {is-command-timestamp: true}
  "<p_syts>": {is-command-timestamp: true}
  "<st-ts>": {is-command-timestamp: true}
  "p_shs/": {is-directory-structure: true}
  "p_phs/": {is-directory-structure: true}
  "p_mks/": {is-directory-structure: true}
  "p_sys/": {is-directory-structure: true}

commands:
  sh-plain:
    tool: shell
    outputs: ["p_sh.out", "p_sh2.out"]
    args: echo x > p_sh.out; echo y > p_sh2.out
  sh-kinds:
    tool: shell
    outputs: ["<p_shv>", "<p_shts>", "p_shd/", "p_shs/"]
    args: mkdir -p p_shd p_shs
  sh-aood:
    tool: shell
    outputs: ["p_sha.out"]
    always-out-of-date: "true"
    args: echo x > p_sha.out
  ph-kinds:
    tool: phony
    outputs: ["<p_phv>", "<p_phts>", "p_ph.out", "p_phd/", "p_phs/"]
  mk-plain:
    tool: mkdir
    outputs: ["p_mk", "<p_mkv>", "<p_mkts>"]
  mk-dir:
    tool: mkdir
    outputs: ["p_mkd/"]
  mk-str:
    tool: mkdir
    outputs: ["p_mks/"]
  sy-plain:
    tool: symlink
    outputs: ["p_sy.lnk"]
    contents: "p_sh.out"
  sy-virtual:
    tool: symlink
    outputs: ["<p_syv>"]
    link-output-path: "p_syv.lnk"
    contents: "p_sh.out"
  sy-ts:
    tool: symlink
    outputs: ["<p_syts>"]
    link-output-path: "p_syts.lnk"
    contents: "p_sh.out"
  sy-dir:
    tool: symlink
    outputs: ["p_syd/"]
    link-output-path: "p_syd.lnk"
    contents: "p_sh.out"
  sy-str:
    tool: symlink
    outputs: ["p_sys/"]
    link-output-path: "p_sys.lnk"
    contents: "p_sh.out"
  st-rm:
    tool: stale-file-removal
    expectedOutputs: ["p_st.x"]
    outputs: ["<st-rm>"]
  st-ts:
    tool: stale-file-removal
    expectedOutputs: ["p_st.y"]
    outputs: ["<st-ts>"]
  probe-in-ph:
    tool: phony
    outputs: ["<probe-in-ph>"]
  probe-in-pha:
    tool: phony
    outputs: ["<probe-in-pha>"]
    allow-missing-inputs: "true"
  probe-in-mk:
    tool: mkdir
    outputs: ["p_inmk"]
  probe-in-mka:
    tool: mkdir
    outputs: ["p_inmka"]
    allow-missing-inputs: "true"
  probe-pr-mkm:
    tool: mkdir
    outputs: ["p_prmkm"]
    allow-modified-outputs: "true"
  probe-pr-mk:
    tool: mkdir
    outputs: ["p_prmk"]
  probe-pr-phm:
    tool: phony
    outputs: ["<probe-pr-phm>"]
    allow-modified-outputs: "true"
  all:
    tool: phony
    inputs: ["p_prmkm", "p_prmk", "<probe-pr-phm>", "p_sh.out", "p_sh2.out", "<p_shv>", "<p_shts>", "p_shd/", "p_shs/", "p_sha.out", "<p_phv>", "<p_phts>", "p_ph.out",
             "p_phd/", "p_phs/", "p_mk", "<p_mkv>", "<p_mkts>", "p_mkd/", "p_mks/", "p_sy.lnk", "<p_syv>", "<p_syts>", "p_syd/",
             "p_sys/", "<st-rm>", "<st-ts>", "<probe-in-ph>", "<probe-in-pha>", "p_inmk", "p_inmka"]
    outputs: ["<all>"]
"""

def probe_tool(name):
    p = name.split("-")[0]
    if name.startswith("probe-in-ph") or name.startswith("probe-pr-ph") or name == "all": return 1
    if name.startswith("probe-in-mk") or name.startswith("probe-pr-mk"): return 2
    return {"sh": 0, "ph": 1, "mk": 2, "sy": 3, "st": 4}[p]

IN_CONTRACT = {0: (10, 17, 11, 12, 13, 14), 1: (10, 17, 11, 12, 13, 14), 2: (10, 17, 11, 12, 13, 14),
               3: (10, 17, 11, 12, 13, 14), 4: (7, 11, 12, 13, 14)}
# commands of the probe description all of whose outputs are virtual, or whose validity does not read the recorded
# infos (mkdir looks at the directory only): the "perturbed infos" variant is then still fs_ok
VALID_FS_ALWAYS_OK = ("mk-plain", "mk-dir", "mk-str", "probe-in-ph", "probe-in-pha", "probe-in-mk", "probe-in-mka", "all",
                      "probe-pr-mkm", "probe-pr-mk", "probe-pr-phm")
# (allow-modified-outputs, all outputs exist after the probe build) of the commands probed with a prior value
PRIOR_FLAGS = {"probe-pr-mkm": (1, 1), "probe-pr-mk": (0, 1), "probe-pr-phm": (1, 0)}
# symlink commands whose link lives at link-output-path: the driver cannot construct the matching link info
VALID_FS_NEVER_OK = ("sy-virtual", "sy-ts", "sy-dir", "sy-str")

def run_tables(chk, drv, model):
    P = os.path.join(BASE, "probe")
    shutil.rmtree(P, ignore_errors=True)
    os.makedirs(P)
    open(os.path.join(P, "build.llbuild"), "w").write(PROBE_DESC)
    rc, out, err = robust(vlib.run_lines, drv, ["probe %s %s" % (hx(P), hx("build.llbuild"))], timeout=300)
    if rc != 0 or not out or not out[0].startswith("rfo"):
        chk.violation("probe-failed", "the probe of the real command instances did not complete (driver rc=%s): %s" % (rc, (out[0] if out else "")[:300]),
                      dict(stderr=err[-1500:], description=PROBE_DESC), found_input=False, broken="harness/cpp/bsys_driver.cpp probe")
        return
    parts = out[0].split(" | ")
    rfo = [e.split(":") for e in parts[0].split()[1:]]
    valid = [e.split(":") for e in parts[1].split()[1:]]
    inp = [e.split(":") for e in parts[2].split()[1:]]
    prior = [e.split(":") for e in parts[3].split()[1:]] if len(parts) > 3 else []
    reqs, meta = [], []
    # ---- getResultForOutput
    seen_combo = set()
    for name, idx, nk, vk, miss, res in rfo:
        t = probe_tool(name)
        if int(vk) not in IN_CONTRACT[t]:
            continue
        reqs.append("rfo %d %s %s %s" % (t, nk, vk, miss)); meta.append(("rfo", name, idx, t, int(nk), int(vk), int(miss), int(res)))
        seen_combo.add((t, int(nk)))
    # ---- isResultValid
    for name, vk, match, ok in valid:
        t = probe_tool(name)
        if int(vk) not in IN_CONTRACT[t]:
            continue
        aood = 1 if name == "sh-aood" else 0
        fs_ok = 0 if name in VALID_FS_NEVER_OK else 1 if (name in VALID_FS_ALWAYS_OK or match == "1") else 0
        reqs.append("valid %d %d %s %d" % (t, aood, vk, fs_ok)); meta.append(("valid", name, t, int(vk), int(match), int(ok)))
    # ---- provideValue / execute
    for name, seq, started, rk, fails, missing in inp:
        t = probe_tool(name)
        allow = 1 if name.endswith("a") else 0
        reqs.append("run %d %d 0 1 0 %s 0" % (t, allow, seq)); meta.append(("inp", name, t, allow, seq, "%s %s %s" % (rk, started, fails), int(missing)))
        reqs.append("state %d %s" % (allow, seq)); meta.append(("inpstate", name, t, allow, seq, int(missing)))
    # ---- providePriorValue / execute (the update-if-newer shortcut)
    for name, pk, started, rk in prior:
        am, oe = PRIOR_FLAGS[name]
        if "+" in pk:      # "<prior>+<input kinds>"
            pr, ins = pk.split("+")
            reqs.append("runp %d 0 1 %d %d %s %s 0" % (probe_tool(name), am, oe, pr, ins)); meta.append(("prior", name, pk, "%s %s" % (rk, started)))
        else:
            reqs.append("runp %d 0 1 %d %d %s - 0" % (probe_tool(name), am, oe, pk)); meta.append(("prior", name, pk, "%s %s" % (rk, started)))
    rc2, mo, e2 = vlib.run_lines(model, reqs, timeout=600)
    assert rc2 == 0 and len(mo) == len(reqs), (rc2, e2[-500:])
    ndis = 0
    for m, a in zip(meta, mo):
        chk.count()
        if m[0] == "rfo":
            _, name, idx, t, nk, vk, miss, res = m
            chk.distinct.add(("rfo", t, nk, vk, miss))
            # O: the property's own reading - a failing producer value must reach every consumer as FailedInput
            if vk in FAILING and res != 9:
                if t == 1 and nk == 1:
                    key, why = "launder-phony-virtual-table", "deliberate special case in PhonyCommand::getResultForOutput"
                else:
                    key, why = "rfo-failing-not-failed-input-t%d-n%d" % (t, nk), "no such case exists in the unchanged code"
                chk.violation(key, "getResultForOutput of the real %s command maps a %s value to %s (not FailedInput) for an output node of kind %d: consumers proceed (%s)"
                              % (name, KNAME[vk], KNAME.get(res, res), nk, why),
                              dict(command=name, output_index=idx, node_kind=nk, command_value=KNAME[vk], output_missing=miss, implementation=KNAME.get(res, res),
                                   model=KNAME.get(int(a), a), description=PROBE_DESC), found_input=True, broken="c10 oracle on the real getResultForOutput")
            if int(a) != res:
                ndis += 1
                chk.notes.setdefault("rfo_disagreements", []).append(dict(command=name, node_kind=nk, value=vk, missing=miss, implementation=res, model=int(a)))
        elif m[0] == "valid":
            _, name, t, vk, match, ok = m
            chk.distinct.add(("valid", name, vk, match))
            if vk not in (10, 17) and ok == 1:
                chk.violation("failed-value-valid-t%d-v%d" % (t, vk), "isResultValid of the real %s command accepts a recorded %s value as up to date: the command is not attempted again" % (name, KNAME[vk]),
                              dict(command=name, value=KNAME[vk], implementation=ok, model=a, description=PROBE_DESC), found_input=True, broken="c10 oracle on the real isResultValid")
            if int(a) != ok:
                ndis += 1
                chk.notes.setdefault("valid_disagreements", []).append(dict(command=name, value=vk, match=match, implementation=ok, model=int(a)))
        elif m[0] == "prior":
            _, name, pk, impl = m
            chk.distinct.add(("prior", name, pk))
            rk, started = impl.split(" ")
            if "+" in pk:
                if int(rk) not in FAILING:
                    chk.violation("failed-input-shortcut", "the real %s command with a successful prior result, given a FailedInput, completes with %s (%s): the update-if-newer shortcut overrides the skip decision and the failure stops propagating"
                                  % (name, KNAME.get(int(rk), rk), "launched" if started == "1" else "not launched"),
                                  dict(command=name, prior_and_inputs=pk, implementation=impl, model=a, description=PROBE_DESC), found_input=True, broken="c10 oracle on the real providePriorValue/provideValue/execute")
            elif pk not in ("10", "17") and started == "0":
                chk.violation("failed-prior-shortcut", "the real %s command, given the recorded prior value %s, completes with %s WITHOUT being launched (update-if-newer shortcut on a result that is not a success): a failed command is not attempted again"
                              % (name, "none" if pk == "none" else KNAME.get(int(pk), pk) if pk.isdigit() else pk, KNAME.get(int(rk), rk)),
                              dict(command=name, prior=pk, implementation=impl, model=a, description=PROBE_DESC), found_input=True, broken="c10 oracle on the real providePriorValue/execute")
            if " ".join(a.split(" ")[:2]) != impl:
                ndis += 1
                chk.notes.setdefault("prior_disagreements", []).append(dict(command=name, prior=pk, implementation=impl, model=a))
        elif m[0] == "inp":
            _, name, t, allow, seq, impl, missing = m
            ks = [] if seq == "-" else [int(x) for x in seq.split(".")]
            chk.distinct.add(("inp", t, allow, seq))
            rk, started, fails = impl.split(" ")
            if 9 in ks and (started == "1" or int(rk) not in FAILING):
                chk.violation("input-failed-but-started", "the real %s command given the input values %s (one of them FailedInput) %s and completes with %s" % (
                              name, [KNAME[k] for k in ks], "is launched" if started == "1" else "is not launched", KNAME.get(int(rk), rk)),
                              dict(command=name, allow_missing_inputs=allow, input_values=[KNAME[k] for k in ks], implementation=impl, model=a, description=PROBE_DESC),
                              found_input=True, broken="c10 oracle on the real provideValue/execute")
            if a != impl:
                ndis += 1
                chk.notes.setdefault("inp_disagreements", []).append(dict(command=name, allow=allow, inputs=seq, implementation=impl, model=a))
        else:
            _, name, t, allow, seq, missing = m
            if int(a.split(" ")[1]) != missing:
                ndis += 1
                chk.notes.setdefault("inp_disagreements", []).append(dict(command=name, allow=allow, inputs=seq, implementation_missing=missing, model=a))
    chk.cov["table_entries"] = len(meta)
    chk.cov["table_disagreements"] = ndis
    chk.cov["exhaustive_tables"] = ("getResultForOutput: %d entries over (tool x node kind) combos %s x in-contract command value kinds x output missing/present; "
                                    "isResultValid: every probed command x value kind x recorded-infos match/mismatch; "
                                    "provideValue+execute: every sequence of <= 3 input value kinds (13 kinds) on phony and mkdir instances with and without allow-missing-inputs; "
                                    "providePriorValue+execute: every recorded prior kind on instances with / without allow-modified-outputs and existing / missing outputs"
                                    % (len(rfo), sorted(seen_combo)))
    chk.sample(dict(kind="table", entry="rfo phony virtual FailedCommand", implementation=[r[5] for r in rfo if r[0] == "ph-kinds" and r[2] == "1" and r[3] == "11"][:1]))
    if ndis and not chk.violations:
        ex = {k: v[:3] for k, v in chk.notes.items() if k.endswith("_disagreements")}
        chk.violation("table-correspondence", "model (BSys/Failure.v) and the real command instances disagree on %d table entries; the property oracle found no failing entry" % ndis,
                      dict(broken="correspondence: BSys.Failure vs ExternalCommand.cpp / BuildSystem.cpp", examples=ex), found_input=False, broken="correspondence: BSys.Failure tables")

# ------------------------------------------------------------------------------------------------ (c) histories

def node_kind(n, structs):
    if n.startswith("<t"): return 2
    if n.startswith("<"): return 1
    if n.endswith("/"): return 4 if n in structs else 3
    return 0

def yq(s):
    return '"' + s.replace("\\", "\\\\").replace('"', '\\"') + '"'

def gen_history(rng, idx, modes):
    ncmd = rng.randint(4, 10)
    sources = ["src%d.txt" % i for i in range(rng.randint(1, 3))]
    avail = list(sources)
    leaf_virtual = rng.random() < 0.3
    if leaf_virtual:
        avail.append("<vin>")
    cmds, structs = [], set()
    nshell = 0
    for i in range(ncmd):
        name = "c%d" % i
        r = rng.random()
        tool = "shell" if (r < 0.58 or i == 0 or (i == ncmd - 1 and nshell < 2)) else "phony" if r < 0.78 else "mkdir" if r < 0.88 else "symlink"
        k = min(len(avail), rng.choice([0, 1, 1, 2, 2, 3]))
        ins = rng.sample(avail, k)
        if i > 0 and rng.random() < 0.75:
            last = cmds[-1]["outputs"][-1 if rng.random() < 0.5 else 0]
            if last not in ins:
                ins.append(last)
        c = dict(name=name, tool=tool, inputs=ins, outputs=[], need=None, blocked=None, contents=None)
        if tool == "shell":
            nshell += 1
            # flags that change the path through ExternalCommand::execute / isResultValid / the deps handling
            c["allow_modified"] = rng.random() < 0.25
            c["aood"] = rng.random() < 0.1
            c["deps"] = rng.choice([1, 2, 2, 3, 3]) if rng.random() < 0.15 else 0      # number of dependency files
            c["allow_missing"] = rng.random() < 0.12
            for j in range(rng.choice([1, 1, 2])):
                kind = rng.choice(["plain", "plain", "plain", "virtual", "timestamp", "directory", "structure", "blocked"])
                if kind == "blocked" and c["blocked"]:
                    kind = "plain"
                if kind == "plain": o = "o_%s_%d.out" % (name, j)
                elif kind == "virtual": o = "<v_%s_%d>" % (name, j)
                elif kind == "timestamp": o = "<t_%s_%d>" % (name, j)
                elif kind == "directory": o = "d_%s_%d/" % (name, j)
                elif kind == "structure":
                    o = "s_%s_%d/" % (name, j); structs.add(o)
                else:
                    o = "blk_%s/o.out" % name; c["blocked"] = "blk_%s" % name
                c["outputs"].append(o)
        elif tool == "phony":
            kind = rng.choice(["virtual", "virtual", "virtual", "timestamp", "plain"])
            c["outputs"].append("<v_%s>" % name if kind == "virtual" else "<t_%s>" % name if kind == "timestamp" else "ghost_%s.out" % name)
            if rng.random() < 0.2:
                c["outputs"].append("<v_%s_b>" % name)
        elif tool == "mkdir":
            kind = rng.choice(["plain", "dirnode", "blocked"])
            if kind == "plain": c["outputs"].append("mk_%s" % name)
            elif kind == "dirnode": c["outputs"].append("mk_%s/" % name)
            else:
                c["outputs"].append("mblk_%s/sub" % name); c["blocked"] = "mblk_%s" % name
        else:
            files = [n for n in avail if node_kind(n, structs) == 0]
            c["outputs"].append("lnk_%s" % name)
            c["contents"] = rng.choice(files)
        if tool != "symlink" and not c.get("allow_missing") and rng.random() < 0.2:
            c["need"] = "need_%s.txt" % name
            c["inputs"].append(c["need"])
        cmds.append(c)
        avail += c["outputs"]
    allouts = [o for c in cmds for o in c["outputs"]]
    cmds.append(dict(name="all", tool="phony", inputs=allouts, outputs=["<all>"], need=None, blocked=None, contents=None))
    # failure kinds each command can show
    def kinds(c):
        ks = []
        if c["tool"] == "shell":
            ks += ["exit", "segv", "undeclared", "after-exit"]
            if c.get("allow_modified"): ks += ["after-exit", "after-exit"]
            if c.get("deps"): ks += ["bad-deps", "bad-deps"]
            if c["blocked"]: ks += ["unwritable", "unwritable"]
        if c["tool"] == "mkdir" and c["blocked"]: ks += ["mkdir-blocked"]
        if c["need"]: ks += ["missing-declared"]
        return ks
    cands = [c for c in cmds if kinds(c)]
    def pick(n):
        fs = {}
        for c in rng.sample(cands, min(n, len(cands))):
            k = rng.choice(kinds(c))
            fs[c["name"]] = (k, rng.choice([1, 2, 7, 127, 255]) if k == "exit" else rng.randrange(2 * int(c.get("deps") or 1)) if k == "bad-deps" else 0)
        return fs
    F = pick(rng.choice([1, 1, 2, 3]))
    pattern = rng.choice("AABCD")
    if pattern == "A":
        builds = [dict(fail=F, edit=None), dict(fail=F, edit=None), dict(fail={}, edit=None)]
    elif pattern == "B":
        builds = [dict(fail={}, edit=None), dict(fail=F, edit=rng.choice(sources)), dict(fail=F, edit=None), dict(fail={}, edit=None)]
    elif pattern == "C":
        F2 = dict(pick(2)); F2.update(F)
        builds = [dict(fail=F, edit=None), dict(fail=F2, edit=rng.choice(sources)), dict(fail={}, edit=rng.choice([None] + sources))]
    else:
        keep = dict(list(F.items())[:1])
        builds = [dict(fail=F, edit=None), dict(fail=keep, edit=None), dict(fail=keep, edit=None), dict(fail={}, edit=None)]
    return dict(idx=idx, cmds=cmds, structs=sorted(structs), sources=sources, leaf_virtual=leaf_virtual, builds=builds, mode=modes[idx % len(modes)], pattern=pattern)

def script_of(c, structs, links=()):
    name = c["name"]
    files = [n for n in c["inputs"] if node_kind(n, structs) == 0 and n not in links]
    lk = [n for n in c["inputs"] if n in links]
    dirs = [n for n in c["inputs"] if node_kind(n, structs) in (3, 4)]
    s = "echo %s >> run.log; %sif [ -f fail.%s ]; then . ./fail.%s; fi; " % (name, "sleep %s; " % c["slow"] if c.get("slow") else "", name, name)
    # declared file inputs by content, directories by listing, symbolic links by their text (never through the link)
    s += "h=`(echo %s; cat %s; ls %s; %s) 2>/dev/null | cksum`; " % (name, " ".join(files) if files else "/dev/null", " ".join(dirs) if dirs else "/dev/null",
                                                                     "; ".join("readlink %s" % l for l in lk) if lk else "true")
    if c.get("allow_modified"):
        # with allow-modified-outputs the code deliberately does not rerun a command whose outputs exist: its content
        # must not depend on its inputs, or an incremental build would legitimately differ from a clean one
        s += "h=%s; " % name
    for o in c["outputs"]:
        k = node_kind(o, structs)
        if k == 0:
            s += "echo \"$h\" > %s || exit 1; " % o
        elif k in (3, 4):
            s += "mkdir -p %s && echo \"$h\" > %sf || exit 1; " % (o, o)
    for i in range(int(c.get("deps") or 0)):
        s += "echo 'o: src0.txt' > dep_%s_%d.d; " % (name, i)
    # a failure AFTER every output was written
    s += "if [ -f failafter.%s ]; then . ./failafter.%s; fi; " % (name, name)
    return s + "true"

def description(h):
    structs = set(h["structs"])
    links = set(o for c in h["cmds"] if c["tool"] == "symlink" for o in c["outputs"])
    L = ["client:", "  name: basic", "", "targets:", '  "": ["<all>"]', ""]
    ts = [o for c in h["cmds"] for o in c["outputs"] if o.startswith("<t")]
    if ts or structs:
        L.append("nodes:")
        for o in ts: L.append("  %s: {is-command-timestamp: true}" % yq(o))
        for o in sorted(structs): L.append("  %s: {is-directory-structure: true}" % yq(o))
        L.append("")
    L.append("commands:")
    for c in h["cmds"]:
        L.append("  %s:" % c["name"])
        L.append("    tool: %s" % c["tool"])
        if c["inputs"]: L.append("    inputs: [%s]" % ", ".join(yq(x) for x in c["inputs"]))
        L.append("    outputs: [%s]" % ", ".join(yq(x) for x in c["outputs"]))
        if c["tool"] != "phony": L.append("    description: RUN-%s" % c["name"])
        if c["tool"] == "shell": L.append("    args: %s" % yq(script_of(c, structs, links)))
        if c.get("allow_modified"): L.append('    allow-modified-outputs: "true"')
        if c.get("aood"): L.append('    always-out-of-date: "true"')
        if c.get("allow_missing"): L.append('    allow-missing-inputs: "true"')
        nd = int(c.get("deps") or 0)
        if nd == 1: L += ["    deps: dep_%s_0.d" % c["name"], "    deps-style: makefile"]
        elif nd > 1: L += ["    deps: [%s]" % ", ".join(yq("dep_%s_%d.d" % (c["name"], i)) for i in range(nd)), "    deps-style: makefile"]
        if c["tool"] == "symlink": L.append("    contents: %s" % yq(c["contents"]))
    return "\n".join(L) + "\n"

class Graph:
    def __init__(self, h):
        self.h = h
        self.skip = set()
        self.structs = set(h["structs"])
        self.cmds = {c["name"]: c for c in h["cmds"]}
        self.order = [c["name"] for c in h["cmds"]]
        self.producer = {o: c["name"] for c in h["cmds"] for o in c["outputs"]}
        self.consumers = {}
        for c in h["cmds"]:
            for i in c["inputs"]:
                self.consumers.setdefault(i, []).append(c["name"])
    def edges(self, p):
        """(node, consumer, types) for every consumption edge out of command p"""
        out = []
        for o in self.cmds[p]["outputs"]:
            for c in self.consumers.get(o, []):
                ty = set()
                if self.cmds[p]["tool"] == "phony" and node_kind(o, self.structs) == 1: ty.add("PV")
                if self.cmds[c]["tool"] == "symlink": ty.add("SY")
                if p in self.skip: ty.add("SK")
                out.append((o, c, ty))
        return out
    def reach(self, f, allowed):
        seen, todo = set(), [f]
        while todo:
            p = todo.pop()
            for (o, c, ty) in self.edges(p):
                if ty <= allowed and c not in seen:
                    seen.add(c); todo.append(c)
        return seen
    def downstream(self, f):
        return self.reach(f, {"PV", "SY", "SK"})

def apply_state(S, h, b, first):
    """Bring the undeclared failure causes and the sources into the state of build b."""
    g = Graph(h)
    t0 = 1500000000
    if first:
        for i, s in enumerate(h["sources"]):
            p = os.path.join(S, s); open(p, "w").write("%s v0\n" % s); os.utime(p, (t0 + i, t0 + i))
    bd = h["builds"][b]
    if bd["edit"] and not first:
        p = os.path.join(S, bd["edit"]); open(p, "w").write("%s v%d\n" % (bd["edit"], b + 1)); os.utime(p, (t0 + 100 * (b + 1), t0 + 100 * (b + 1)))
    for c in h["cmds"]:
        name = c["name"]
        kind = bd["fail"].get(name, (None, 0))
        ff = os.path.join(S, "fail." + name)
        und = os.path.join(S, "undeclared_%s.h" % name)
        if os.path.exists(ff): os.unlink(ff)
        fa = os.path.join(S, "failafter." + name)
        if os.path.exists(fa): os.unlink(fa)
        if kind[0] == "after-exit": open(fa, "w").write("exit 9\n")
        elif kind[0] == "bad-deps":
            # argument = 2 * position + (1: malformed content, 0: file removed); every other dependency file stays good
            pos, garbage = (kind[1] // 2) % max(1, int(c.get("deps") or 1)), kind[1] % 2
            open(fa, "w").write(("echo 'no colon here' > dep_%s_%d.d\n" if garbage else "rm -f dep_%s_%d.d\n") % (name, pos))
        if kind[0] == "exit": open(ff, "w").write("exit %d\n" % kind[1])
        elif kind[0] == "segv": open(ff, "w").write("kill -SEGV $$\n")
        elif kind[0] == "undeclared":
            # the command reads a file it does not declare, and the file is not there
            open(ff, "w").write("cat undeclared_%s.h > /dev/null || exit 1\n" % name)
            if os.path.exists(und): os.unlink(und)
        elif any(bb["fail"].get(name, (None,))[0] == "undeclared" for bb in h["builds"][:b]):
            # repaired by creating the file (the command still reads it)
            open(ff, "w").write("cat undeclared_%s.h > /dev/null || exit 1\n" % name)
            open(und, "w").write("repaired\n")
        if c["blocked"]:
            bp = os.path.join(S, c["blocked"])
            if kind[0] in ("unwritable", "mkdir-blocked"):
                if os.path.isdir(bp): shutil.rmtree(bp)
                open(bp, "w").write("in the way\n")
            elif os.path.isfile(bp):
                os.unlink(bp)
        if c["need"]:
            np_ = os.path.join(S, c["need"])
            if kind[0] == "missing-declared":
                if os.path.exists(np_): os.unlink(np_)
            elif not os.path.exists(np_):
                open(np_, "w").write("needed\n"); os.utime(np_, (t0 + 50, t0 + 50))

def run_build(S, h, mode, drv, llb, skip=()):
    """-> dict(ok, executed (set of observable commands), observable (set), failures or None, status {cmd: process status}, raw)"""
    log = os.path.join(S, "run.log")
    if os.path.exists(log): os.unlink(log)
    g = Graph(h)
    if mode.startswith("cli"):
        args = [llb, "buildsystem", "build", "--chdir", S] + (["--serial"] if mode == "cli-serial" else ["-j", "4"])
        rc, out, err = robust(vlib.sh, args, timeout=120)
        ran = set(re.findall(r"^RUN-(\S+)$", out, re.M))
        logged = set(open(log).read().split()) if os.path.exists(log) else set()
        observable = set(n for n in g.order if g.cmds[n]["tool"] != "phony")
        return dict(ok=(rc == 0), rc=rc, executed=ran | logged, logged=logged, observable=observable, failures=None, status={}, raw=(out[-1500:], err[-800:]))
    _, lanes, cancel = mode.split("-")
    rc, out, err = robust(vlib.run_lines, drv, ["build %s %s %s %s %d - %s" % (hx(S), hx("build.llbuild"), hx("build.db"), lanes, 1 if cancel == "cancel" else 0, ",".join(skip) or ".")], timeout=120)
    if rc != 0 or not out or not out[0].startswith("ok="):
        return dict(crash=True, rc=rc, raw=(out, err[-1500:]))
    m = re.match(r"ok=(\d) failures=(\d+) errors=(\d+) events=(\S+)", out[0])
    ev = [] if m.group(4) == "." else m.group(4).split(",")
    started = set(e[2:] for e in ev if e.startswith("S:"))
    status = {}
    for e in ev:
        if e.startswith("F:"):
            _, n, st = e.split(":"); status[n] = int(st)
    logged = set(open(log).read().split()) if os.path.exists(log) else set()
    return dict(ok=(m.group(1) == "1"), rc=rc, executed=started | logged, logged=logged, observable=set(g.order), failures=int(m.group(2)),
                errors=int(m.group(3)), status=status, raw=(out[0][-2500:], err[-800:]))

def final_state(S, h):
    structs = set(h["structs"])
    st = {}
    for c in h["cmds"]:
        for o in c["outputs"]:
            p = os.path.join(S, o)
            k = node_kind(o, structs)
            if c["tool"] == "symlink":
                st[o] = ("link", os.readlink(p) if os.path.islink(p) else None)
            elif c["tool"] == "mkdir":
                st[o] = ("dir", os.path.isdir(p))
            elif c["tool"] == "shell" and k == 0:
                st[o] = ("file", open(p).read() if os.path.isfile(p) else None)
            elif c["tool"] == "shell" and k in (3, 4):
                st[o] = ("dirfile", open(os.path.join(p, "f")).read() if os.path.isfile(os.path.join(p, "f")) else None)
    return st

def predict(model, h, failset, S, skip=()):
    """Evaluate the description with the extracted model's decision functions (fresh keep-going build)."""
    g = Graph(h)
    nodeval, executed, failures = {}, set(), 0
    cmdval = {}
    for name in g.order:
        c = g.cmds[name]
        ins = []
        for i in c["inputs"]:
            if i in nodeval: ins.append(nodeval[i])
            else:
                k = node_kind(i, g.structs)
                ins.append(1 if k == 1 else (2 if os.path.exists(os.path.join(S, i)) else 3))
        kind = failset.get(name, (None, 0))[0]
        x = 1 if kind in LAUNCHABLE else 0
        a = model.ask("run %d %d 0 %d 0 %s %d" % (TOOLS[c["tool"]], 1 if c.get("allow_missing") else 0, 0 if name in skip else 1, ".".join(str(v) for v in ins) if ins else "-", x))
        v, ex, fl = a.split(" ")
        cmdval[name] = int(v)
        if ex == "1": executed.add(name)
        failures += int(fl)
        for o in c["outputs"]:
            k = node_kind(o, g.structs)
            missing = 1 if (c["tool"] == "phony" and k in (0, 3, 4)) else 0
            nodeval[o] = int(model.ask("pnv 1 %d %d %s %d" % (TOOLS[c["tool"]], k, v, missing)))
    ok = model.ask("build_ok 0 %d 0" % failures) == "1"
    return executed, failures, ok, cmdval

LAUNCHABLE = ("exit", "segv", "undeclared", "unwritable", "mkdir-blocked", "after-exit", "bad-deps")

def run_history(h, drv, llb, model_path):
    """Runs one history; returns (list of findings, stats). A finding = (key, what, replay dict, found_input, broken)."""
    S = os.path.join(BASE, "h%d" % h["idx"])
    shutil.rmtree(S, ignore_errors=True)
    os.makedirs(S)
    desc = description(h)
    open(os.path.join(S, "build.llbuild"), "w").write(desc)
    g = Graph(h)
    mode = h["mode"]
    keepgoing = mode.endswith("keepgoing")
    findings, stats = [], dict(builds=0, failing_builds=0, launder_pv=0, launder_sy=0, dtie=0, downstream_checked=0)
    launched, lastfailed = set(), {}
    prev = None
    trace = []
    def rp(extra):
        d = dict(mode=mode, pattern=h["pattern"], sandbox=S, description=desc, builds=[dict(fail=b["fail"], edit=b["edit"]) for b in h["builds"]], trace=trace)
        d.update(extra); return d
    model = vlib.Interactive(model_path) if keepgoing else None
    try:
        for b, bd in enumerate(h["builds"]):
            apply_state(S, h, b, b == 0)
            failset = bd["fail"]
            # a delegate that refuses to start some commands (only while something fails)
            g.skip = set(h.get("skip", [])) if failset else set()
            pred = predict(model, h, failset, S, g.skip) if (keepgoing and b == 0) else None
            r = run_build(S, h, mode, drv, llb, sorted(g.skip))
            stats["builds"] += 1
            if r.get("crash"):
                findings.append(("build-crash", "the build driver crashed or produced no answer in build %d" % b, rp(dict(build=b, raw=r["raw"])), True, "c10 driver"))
                return findings, stats
            X, V = r["executed"], r["observable"]
            trace.append(dict(build=b, fail=failset, ok=r["ok"], executed=sorted(X), failures=r["failures"], process_status=r["status"]))
            A = set(n for n, (k, _) in failset.items() if (k in LAUNCHABLE and n in X) or k == "missing-declared")
            if A: stats["failing_builds"] += 1
            # O1: nothing downstream of a failed command is executed in that build
            for f in sorted(A):
                down = g.downstream(f)
                stats["downstream_checked"] += len(down & V)
                for d in sorted(down & X):
                    if d in g.reach(f, set()): key = "downstream-executed"
                    elif d in g.reach(f, {"PV"}): key = "launder-phony-virtual"; stats["launder_pv"] += 1
                    elif d in g.reach(f, {"SY"}): key = "launder-symlink-mustfollow"; stats["launder_sy"] += 1
                    elif d in g.reach(f, {"SK"}): key = "launder-delegate-skip"
                    else: key = "launder-phony-virtual"; stats["launder_pv"] += 1
                    findings.append((key, "command %s was executed in build %d although it consumes (transitively) the outputs of %s, which failed in that build (%s, mode %s)" % (d, b, f, failset[f][0], mode),
                                     rp(dict(build=b, failed=f, executed_downstream=d, run_log=sorted(r["logged"]), executed=sorted(X))), True, "c10 oracle: no downstream execution"))
            # O2: the build reports failure exactly when something failed
            if A and r["ok"]:
                findings.append(("failure-not-reported", "build %d reports success although %s failed (mode %s)" % (b, sorted(A), mode), rp(dict(build=b, failed=sorted(A))), True, "c10 oracle: build reports failure"))
            if not A and not r["ok"]:
                findings.append(("spurious-failure", "build %d reports failure although no command failed (mode %s)" % (b, mode), rp(dict(build=b, raw=r["raw"])), True, "c10 oracle: convergence"))
            # O3: with the cause still present and nothing else changed, the failed command is attempted again
            if prev is not None and prev["A"] and bd["edit"] is None and failset == h["builds"][b - 1]["fail"]:
                launch = set(n for n in prev["A"] if failset[n][0] in LAUNCHABLE)
                if r["ok"]:
                    findings.append(("failed-result-treated-up-to-date", "build %d succeeds although the failure causes of %s are still present: recorded failing results were treated as up to date (mode %s)"
                                     % (b, sorted(prev["A"]), mode), rp(dict(build=b, failed_before=sorted(prev["A"]))), True, "c10 oracle: re-attempt"))
                elif keepgoing:
                    roots = set(f for f in launch if not any(f in g.downstream(o) for o in prev["A"] if o != f))
                    if not roots <= X:
                        findings.append(("failed-command-not-reattempted", "build %d does not run %s again although they failed in build %d and nothing changed (mode %s)"
                                         % (b, sorted(roots - X), b - 1, mode), rp(dict(build=b, not_reattempted=sorted(roots - X))), True, "c10 oracle: re-attempt"))
                elif launch and not (X & set(n for n in failset if failset[n][0] in LAUNCHABLE)) and not any(k == "missing-declared" for k, _ in failset.values()):
                    findings.append(("failed-command-not-reattempted", "build %d runs none of the failing commands %s again (mode %s)" % (b, sorted(launch), mode),
                                     rp(dict(build=b, failing=sorted(launch))), True, "c10 oracle: re-attempt"))
            # O5 + D-tie: fresh keep-going build
            if pred is not None:
                pe, pf, pok, pcv = pred
                stats["dtie"] += 1
                blocked = set()
                for f in A: blocked |= g.downstream(f)
                must = set(g.order) - blocked - set(n for n in failset if failset[n][0] == "missing-declared")
                if not must <= X:
                    findings.append(("independent-branch-not-built", "keep-going fresh build did not run %s, which are not downstream of any failed command" % sorted(must - X),
                                     rp(dict(build=b, missing=sorted(must - X))), True, "c10 oracle: independent branches"))
                if (pe != X or pf != r["failures"] or pok != r["ok"]):
                    findings.append(("history-correspondence", "model prediction and the real frontend disagree on a fresh keep-going build: executed model=%s impl=%s; failures model=%d impl=%s; ok model=%s impl=%s"
                                     % (sorted(pe), sorted(X), pf, r["failures"], pok, r["ok"]), rp(dict(build=b, model_values=pcv)), False, "correspondence: BSys.Failure.run_command/produced_node_value on whole descriptions"))
            # O4: the repair build runs everything whose last launch failed and everything never launched so far
            if b == len(h["builds"]) - 1:
                need = set(n for n in V if n not in launched or lastfailed.get(n))
                if not r["ok"]:
                    findings.append(("no-convergence-after-repair", "after every cause was removed the build still reports failure (mode %s)" % mode, rp(dict(build=b, raw=r["raw"])), True, "c10 oracle: convergence"))
                elif not need <= X:
                    findings.append(("not-rerun-after-repair", "after repair the build did not execute %s (failed last time, or never run before)" % sorted(need - X), rp(dict(build=b, missing=sorted(need - X))), True, "c10 oracle: retry after repair"))
            stats["cancelled_in_flight"] = stats.get("cancelled_in_flight", 0) + sum(1 for st in r["status"].values() if st == 2)
            for n in X & V:
                launched.add(n)
                st = r["status"].get(n)
                lastfailed[n] = (n in failset and failset[n][0] in LAUNCHABLE) or (st is not None and st != 0)
            prev = dict(A=A, X=X)
        # a further build with nothing changed runs nothing (except always-out-of-date commands and what they feed)
        if r["ok"] and not any(f[3] for f in findings if not f[0].startswith("launder")):
            rn = run_build(S, h, mode, drv, llb)
            stats["builds"] += 1
            if rn.get("crash"):
                findings.append(("build-crash", "the build driver crashed in the null build", rp(dict(raw=rn["raw"])), True, "c10 driver"))
            else:
                trace.append(dict(build="null", ok=rn["ok"], executed=sorted(rn["executed"])))
                allowed = set()
                for c in h["cmds"]:
                    if c.get("aood"): allowed |= {c["name"]} | g.downstream(c["name"])
                extra = rn["executed"] - allowed
                if not rn["ok"] or extra:
                    findings.append(("null-build-not-null", "after the repaired build succeeded, a further build with nothing changed %s" % (
                                     "executes %s" % sorted(extra) if extra else "reports failure"), rp(dict(executed=sorted(rn["executed"]))), True, "c10 oracle: convergence (null build)"))
        # clean build of the repaired description in a fresh directory
        C = S + ".clean"
        shutil.rmtree(C, ignore_errors=True)
        os.makedirs(C)
        open(os.path.join(C, "build.llbuild"), "w").write(desc)
        last = len(h["builds"]) - 1
        apply_state(C, h, last, True)
        for s in h["sources"]:     # same source contents and mtimes as the incremental directory
            shutil.copy2(os.path.join(S, s), os.path.join(C, s))
        rc, out, err = robust(vlib.sh, [llb, "buildsystem", "build", "--serial", "--chdir", C], timeout=120)
        stats["builds"] += 1
        fa, fb = final_state(S, h), final_state(C, h)
        if rc != 0:
            findings.append(("clean-build-failed", "the clean build of the repaired description fails", rp(dict(stdout=out[-800:], stderr=err[-800:])), False, "c10 harness: clean build"))
        elif fa != fb and not any(f[0].startswith("no-convergence") for f in findings):
            diff = {k: (fa.get(k), fb.get(k)) for k in fb if fa.get(k) != fb.get(k)}
            findings.append(("not-converged-to-clean-state", "after repair the outputs differ from a clean build of the same description: %s" % sorted(diff), rp(dict(differences=diff)), True, "c10 oracle: convergence to the clean-build state"))
        shutil.rmtree(C, ignore_errors=True)
    finally:
        if model: model.close()
    if not findings:
        shutil.rmtree(S, ignore_errors=True)
    return findings, stats

def run_histories(chk, drv, llb, model):
    os.makedirs(BASE, exist_ok=True)
    modes = ["cli-serial", "drv-0-keepgoing", "cli-j4", "drv-4-keepgoing", "drv-0-cancel", "drv-4-cancel", "drv-4-keepgoing", "drv-0-keepgoing"]
    n = chk.n(40, 400)
    hs = [gen_history(chk.rng, i, modes) for i in range(n)]
    # a fixed corpus first: the two laundering shapes and a second-failing-input shape
    total = dict(builds=0, failing_builds=0, launder_pv=0, launder_sy=0, dtie=0, downstream_checked=0)
    # in batches, so that the quick tier can stop on a loaded machine (budget: 80 s of wall time since the check began,
    # never fewer than one batch of every mode)
    results, batch = [], len(modes)
    with ThreadPoolExecutor(max_workers=4) as ex:
        for i in range(0, n, batch):
            if chk.quick() and i > 0 and time.time() - chk.t0 > 80:
                chk.notes["histories_cut_short_by_wall_time"] = "%d of %d" % (i, n)
                break
            results += list(ex.map(lambda h: run_history(h, drv, llb, model), hs[i:i + batch]))
    hs = hs[:len(results)]
    n = len(hs)
    bymode = {}
    for h, (findings, stats) in zip(hs, results):
        for k in total: total[k] += stats[k]
        bymode[h["mode"]] = bymode.get(h["mode"], 0) + 1
        fk = tuple(sorted((n, k[0]) for b in h["builds"] for n, k in b["fail"].items()))
        chk.count((h["mode"], h["pattern"], len(h["cmds"]), fk) if stats["failing_builds"] else None, n=stats["builds"])
        for (key, what, rp, found, broken) in findings:
            chk.violation(key, what, rp, found_input=found, broken=broken)
    chk.sample(dict(kind="history", mode=hs[0]["mode"], pattern=hs[0]["pattern"], commands=[(c["name"], c["tool"], c["inputs"], c["outputs"]) for c in hs[0]["cmds"]][:4],
                    builds=[b["fail"] for b in hs[0]["builds"]]))
    chk.cov["histories"] = n
    chk.cov["history_builds"] = total["builds"]
    chk.cov["builds_with_a_failed_command"] = total["failing_builds"]
    chk.cov["downstream_commands_judged"] = total["downstream_checked"]
    chk.cov["fresh_keepgoing_builds_compared_with_model"] = total["dtie"]
    chk.cov["traces_validated_against_impl"] = total["dtie"]
    chk.cov["laundering_observations"] = dict(phony_virtual=total["launder_pv"], symlink_mustfollow=total["launder_sy"])
    chk.cov["histories_by_mode"] = bymode

CORPUS = [
    # F fails; P phony -> virtual; D behind it; S symlink with F's output as input; E behind the link; G direct consumer
    dict(cmds=[dict(name="c0", tool="shell", inputs=["src0.txt"], outputs=["o_c0_0.out"], need=None, blocked=None, contents=None),
               dict(name="c1", tool="phony", inputs=["o_c0_0.out"], outputs=["<v_c1>"], need=None, blocked=None, contents=None),
               dict(name="c2", tool="shell", inputs=["<v_c1>"], outputs=["o_c2_0.out"], need=None, blocked=None, contents=None),
               dict(name="c3", tool="symlink", inputs=["o_c0_0.out"], outputs=["lnk_c3"], need=None, blocked=None, contents="src0.txt"),
               dict(name="c4", tool="shell", inputs=["lnk_c3"], outputs=["o_c4_0.out"], need=None, blocked=None, contents=None),
               dict(name="c5", tool="shell", inputs=["o_c0_0.out"], outputs=["o_c5_0.out"], need=None, blocked=None, contents=None),
               dict(name="c6", tool="phony", inputs=["o_c0_0.out"], outputs=["<t_c6>"], need=None, blocked=None, contents=None),
               dict(name="c7", tool="shell", inputs=["<t_c6>"], outputs=["o_c7_0.out"], need=None, blocked=None, contents=None)],
         fail={"c0": ("exit", 1)}),
    # second failing input: c2 consumes the failed c0 first and the good c1 second (and the other way round in c3)
    dict(cmds=[dict(name="c0", tool="shell", inputs=["src0.txt"], outputs=["o_c0_0.out"], need=None, blocked=None, contents=None),
               dict(name="c1", tool="shell", inputs=["src0.txt"], outputs=["o_c1_0.out", "<v_c1_1>"], need=None, blocked=None, contents=None),
               dict(name="c2", tool="shell", inputs=["o_c0_0.out", "o_c1_0.out", "<v_c1_1>"], outputs=["o_c2_0.out"], need=None, blocked=None, contents=None),
               dict(name="c3", tool="shell", inputs=["<v_c1_1>", "o_c1_0.out", "o_c0_0.out"], outputs=["d_c3_0/"], need=None, blocked=None, contents=None),
               dict(name="c4", tool="mkdir", inputs=["d_c3_0/"], outputs=["mk_c4"], need=None, blocked=None, contents=None),
               dict(name="c5", tool="shell", inputs=["o_c1_0.out"], outputs=["o_c5_0.out"], need=None, blocked=None, contents=None)],
         fail={"c0": ("segv", 0)}),
]

def corpus_history(idx, cmds, fail, mode, pattern, skip=()):
    cmds = [dict(x) for x in cmds]
    allouts = [o for x in cmds for o in x["outputs"]]
    cmds.append(dict(name="all", tool="phony", inputs=allouts, outputs=["<all>"], need=None, blocked=None, contents=None))
    return dict(idx=idx, cmds=cmds, structs=[], sources=["src0.txt"], leaf_virtual=False, mode=mode, pattern=pattern, skip=list(skip),
                builds=[dict(fail=fail, edit=None), dict(fail=fail, edit=None), dict(fail={}, edit=None)])

def S_(name, inputs, outputs, **kw):
    d = dict(name=name, tool="shell", inputs=inputs, outputs=outputs, need=None, blocked=None, contents=None); d.update(kw); return d

# c0 fails after a moment while the independent, slow c1 is still running (4 lanes): under a cancelling delegate c1 is
# cancelled in flight (CancelledCommand); c2 consumes c1
CANCEL_IN_FLIGHT = [S_("c0", ["src0.txt"], ["o_c0_0.out"], slow="0.3"), S_("c1", ["src0.txt"], ["o_c1_0.out"], slow="1.5"),
                    S_("c2", ["o_c1_0.out"], ["o_c2_0.out"]), S_("c3", ["o_c0_0.out"], ["o_c3_0.out"])]
# c0 fails; the delegate answers shouldCommandStart(c1) = false; c2 consumes c1
DELEGATE_SKIP = [S_("c0", ["src0.txt"], ["o_c0_0.out"]), S_("c1", ["o_c0_0.out"], ["o_c1_0.out"]), S_("c2", ["o_c1_0.out"], ["o_c2_0.out"])]

# the link step writes its image and THEN fails (allow-modified-outputs); pack consumes the image
FAIL_AFTER_OUTPUT = [S_("c0", ["src0.txt"], ["o_c0_0.out"], allow_modified=True), S_("c1", ["o_c0_0.out"], ["o_c1_0.out"]),
                     S_("c2", ["src0.txt"], ["o_c2_0.out", "o_c2_1.out"], allow_modified=True, deps=True), S_("c3", ["o_c2_1.out"], ["o_c3_0.out"], aood=True)]

def directed_restart_histories():
    """Always in the quick tier: every build in a NEW process over the same database, cancelling at the first failure.
    src0 -> c0 -> ... -> c(k-1) -> F (fails) -> D, and an independent command from src1.  The failing build makes the
    upstream chain (re)run and be recorded before F fails; the repair edits the upstream source (and removes the
    cause) or only removes the cause; optionally a build with the cause still present in between."""
    hs = []
    i = 0
    modes = ["cli-serial", "drv-0-cancel", "cli-j4", "drv-4-cancel"]
    for k in (1, 2, 3):
        for pre in (False, True):
            for repair in ("upstream", "self"):
                for between in (False, True):
                    cmds = []
                    prev = "src0.txt"
                    for j in range(k):
                        outs = ["o_c%d_0.out" % j] if j % 2 == 0 else ["d_c%d_0/" % j, "o_c%d_1.out" % j]
                        cmds.append(S_("c%d" % j, [prev], outs)); prev = outs[-1]
                    F = "c%d" % k
                    cmds.append(S_(F, [prev, "src1.txt"], ["o_%s_0.out" % F]))
                    cmds.append(S_("c%d" % (k + 1), ["o_%s_0.out" % F], ["o_c%d_0.out" % (k + 1)]))
                    cmds.append(S_("c%d" % (k + 2), ["src1.txt"], ["o_c%d_0.out" % (k + 2)]))
                    kind = ("exit", 3) if i % 2 == 0 else ("after-exit", 0)
                    builds = []
                    if pre: builds.append(dict(fail={}, edit=None))
                    builds.append(dict(fail={F: kind}, edit="src0.txt" if pre else None))
                    if between: builds.append(dict(fail={F: kind}, edit=None))
                    builds.append(dict(fail={}, edit="src0.txt" if repair == "upstream" else None))
                    h = corpus_history(9400 + i, cmds, {}, modes[i % len(modes)], "restart-%d-%s-%s-%s" % (k, "pre" if pre else "first", repair, "between" if between else "direct"))
                    h["sources"] = ["src0.txt", "src1.txt"]
                    h["builds"] = builds
                    hs.append(h); i += 1
    return hs

def directed_deps_histories():
    """Always in the quick tier: a command with 1-3 dependency files of which exactly ONE is bad (removed / malformed),
    in every position; it wrote all its outputs, must be recorded as failed, must not feed c1, must be retried."""
    hs = []
    modes = ["drv-0-keepgoing", "cli-serial", "drv-4-keepgoing", "drv-0-cancel", "cli-j4"]
    i = 0
    for nd in (1, 2, 3):
        for pos in range(nd):
            for garbage in (0, 1):
                cmds = [S_("c0", ["src0.txt"], ["o_c0_0.out"], deps=nd), S_("c1", ["o_c0_0.out"], ["o_c1_0.out"]), S_("c2", ["src0.txt"], ["o_c2_0.out"])]
                for mode in (modes[i % len(modes)], "drv-0-keepgoing" if i % len(modes) else "cli-serial"):
                    hs.append(corpus_history(9500 + len(hs), cmds, {"c0": ("bad-deps", 2 * pos + garbage)}, mode, "deps-%d-%d-%s" % (nd, pos, "malformed" if garbage else "missing")))
                i += 1
    return hs

def directed_shortcut_histories():
    """Always in the quick tier: A -> B -> C where the MIDDLE command B carries allow-modified-outputs; a first good build
    gives B a successful prior result and existing outputs; then A fails: B must be skipped (not shortcut), C must not run."""
    hs = []
    for i, mode in enumerate(["drv-0-keepgoing", "drv-4-keepgoing", "drv-0-keepgoing", "cli-serial"]):
        k = 1 + i % 2          # length of the allow-modified middle part
        cmds = [S_("c0", ["src0.txt"], ["o_c0_0.out"])]
        prev = "o_c0_0.out"
        for j in range(1, k + 1):
            cmds.append(S_("c%d" % j, [prev, "src1.txt"] if j % 2 else ["src1.txt", prev], ["o_c%d_0.out" % j], allow_modified=True)); prev = "o_c%d_0.out" % j
        cmds.append(S_("c%d" % (k + 1), [prev], ["o_c%d_0.out" % (k + 1)]))
        h = corpus_history(9600 + i, cmds, {}, mode, "shortcut-middle-%d" % k)
        h["sources"] = ["src0.txt", "src1.txt"]
        F = {"c0": ("exit", 2) if i % 2 == 0 else ("after-exit", 0)}
        # the last command has no good result yet when c0 fails (it failed itself in the first build), so it WOULD run if
        # the failure did not reach it
        last = "c%d" % (k + 1)
        first = {last: ("exit", 5)} if i < 3 else {}
        h["builds"] = [dict(fail=first, edit=None), dict(fail=F, edit="src0.txt"), dict(fail=F, edit=None), dict(fail={}, edit=None)]
        hs.append(h)
    return hs

def corpus_histories():
    hs = directed_restart_histories() + directed_deps_histories() + directed_shortcut_histories()
    for mi, mode in enumerate(["drv-0-keepgoing", "drv-4-keepgoing", "cli-serial", "drv-0-cancel"]):
        hs.append(corpus_history(9300 + mi, FAIL_AFTER_OUTPUT, {"c0": ("after-exit", 0), "c2": ("bad-deps", 0)}, mode, "fail-after-output"))
        hs.append(corpus_history(9310 + mi, FAIL_AFTER_OUTPUT, {"c2": ("after-exit", 0)}, mode, "fail-after-output"))
    for ci, c in enumerate(CORPUS):
        for mi, mode in enumerate(["drv-0-keepgoing", "drv-4-keepgoing", "cli-serial", "drv-4-cancel"]):
            hs.append(corpus_history(9000 + ci * 10 + mi, c["cmds"], c["fail"], mode, "corpus%d" % ci))
    for mi, mode in enumerate(["drv-4-cancel", "cli-j4", "drv-4-keepgoing"]):
        hs.append(corpus_history(9100 + mi, CANCEL_IN_FLIGHT, {"c0": ("exit", 3)}, mode, "cancel-in-flight"))
    for mi, mode in enumerate(["drv-0-keepgoing", "drv-4-keepgoing"]):
        hs.append(corpus_history(9200 + mi, DELEGATE_SKIP, {"c0": ("exit", 1)}, mode, "delegate-skip", skip=["c1"]))
    return hs

def run_corpus(chk, drv, llb, model):
    hs = corpus_histories()
    with ThreadPoolExecutor(max_workers=4) as ex:
        results = list(ex.map(lambda h: run_history(h, drv, llb, model), hs))
    pv = sy = cancelled = 0
    for h, (findings, stats) in zip(hs, results):
        chk.count((h["mode"], h["pattern"]), n=stats["builds"])
        pv += stats["launder_pv"]; sy += stats["launder_sy"]; cancelled += stats.get("cancelled_in_flight", 0)
        for (key, what, rp, found, broken) in findings:
            chk.violation(key, what, rp, found_input=found, broken=broken)
    chk.cov["corpus_histories"] = len(hs)
    chk.cov["corpus_laundering_observations"] = dict(phony_virtual=pv, symlink_mustfollow=sy)
    chk.cov["commands_cancelled_in_flight"] = cancelled

# ---- repairs that change the DESCRIPTION (the recorded node value FailedInput / MissingInput must not be up to date)

def mk(name, tool, inputs, outputs):
    return dict(name=name, tool=tool, inputs=inputs, outputs=outputs, need=None, blocked=None, contents=None)

def with_all(cmds):
    outs = []
    for c in cmds:
        for o in c["outputs"]:
            if o not in outs: outs.append(o)
    return dict(idx=0, cmds=cmds + [mk("all", "phony", outs, ["<all>"])], structs=[], sources=["src0.txt"], leaf_virtual=False, builds=[dict(fail={}, edit=None)], mode="", pattern="desc")

DESC_REPAIRS = [
    # two producers of x.out (the node cannot be built: FailedInput); repaired by removing one of them
    ("two-producers", with_all([mk("a", "shell", ["src0.txt"], ["x.out"]), mk("b", "shell", ["src0.txt"], ["x.out"]), mk("c", "shell", ["x.out"], ["o_c.out"])]),
     with_all([mk("a", "shell", ["src0.txt"], ["x.out"]), mk("c", "shell", ["x.out"], ["o_c.out"])]), {"c"}, {"a", "c"}),
    # a declared input nobody produces and which does not exist (MissingInput); repaired by adding its producer
    ("add-producer", with_all([mk("c", "shell", ["gen.out", "src0.txt"], ["o_c.out"])]),
     with_all([mk("g", "shell", ["src0.txt"], ["gen.out"]), mk("c", "shell", ["gen.out", "src0.txt"], ["o_c.out"])]), {"c"}, {"g", "c"}),
]

def run_description_repairs(chk, drv, llb):
    n = 0
    for (tag, h0, h1, blocked0, must1) in DESC_REPAIRS:
        for mode in ("cli-serial", "drv-0-keepgoing", "drv-4-cancel"):
            S = os.path.join(BASE, "desc-%s-%s" % (tag, mode))
            shutil.rmtree(S, ignore_errors=True); os.makedirs(S)
            trace = []
            def rp(extra):
                d = dict(scenario=tag, mode=mode, sandbox=S, description_before=description(h0), description_after=description(h1), trace=trace); d.update(extra); return d
            open(os.path.join(S, "build.llbuild"), "w").write(description(h0))
            apply_state(S, h0, 0, True)
            r0 = run_build(S, h0, mode, drv, llb)
            open(os.path.join(S, "build.llbuild"), "w").write(description(h1))
            r1 = run_build(S, h1, mode, drv, llb) if not r0.get("crash") else r0
            n += 2
            chk.count(("desc", tag, mode), n=2)
            if r0.get("crash") or r1.get("crash"):
                chk.violation("build-crash", "the build driver crashed in scenario %s" % tag, rp(dict(raw=(r0.get("raw"), r1.get("raw")))), found_input=True, broken="c10 driver"); continue
            trace += [dict(build=0, ok=r0["ok"], executed=sorted(r0["executed"])), dict(build=1, ok=r1["ok"], executed=sorted(r1["executed"]))]
            if r0["ok"]:
                chk.violation("failure-not-reported", "scenario %s: the build reports success although a node cannot be built (mode %s)" % (tag, mode), rp({}), found_input=True, broken="c10 oracle: build reports failure")
            if blocked0 & r0["executed"]:
                chk.violation("downstream-executed", "scenario %s: %s executed although its input could not be built (mode %s)" % (tag, sorted(blocked0 & r0["executed"]), mode), rp({}), found_input=True, broken="c10 oracle: no downstream execution")
            C = S + ".clean"
            shutil.rmtree(C, ignore_errors=True); os.makedirs(C)
            open(os.path.join(C, "build.llbuild"), "w").write(description(h1))
            apply_state(C, h1, 0, True)
            rc, out, err = robust(vlib.sh, [llb, "buildsystem", "build", "--serial", "--chdir", C], timeout=120)
            fa, fb = final_state(S, h1), final_state(C, h1)
            if not r1["ok"] or not must1 <= r1["executed"] or fa != fb:
                chk.violation("not-rebuilt-after-description-repair", "scenario %s: after the description was repaired the build %s, executed %s (expected at least %s), outputs %s a clean build (mode %s): the recorded node value was treated as up to date"
                              % (tag, "succeeds" if r1["ok"] else "still fails", sorted(r1["executed"]), sorted(must1), "equal" if fa == fb else "differ from", mode),
                              rp(dict(incremental=fa, clean=fb)), found_input=True, broken="c10 oracle: convergence after repair")
            else:
                shutil.rmtree(S, ignore_errors=True)
            shutil.rmtree(C, ignore_errors=True)
    chk.cov["description_repair_builds"] = n

def run(chk):
    ph = {}
    def lap(name, t=[time.time()]):
        now = time.time(); ph[name] = round(now - t[0], 1); t[0] = now
    drv = vlib.build_drivers(["bsys_driver"])["bsys_driver"]
    llb = vlib.llbuild_bin()
    lap("build_repo_and_driver")
    model = vlib.model_bin("failure")
    lap("extract_model")
    chk.proof_gate()
    lap("proof_gate")
    shutil.rmtree(BASE, ignore_errors=True)
    os.makedirs(BASE)
    run_tables(chk, drv, model)
    lap("tables")
    run_corpus(chk, drv, llb, model)
    run_description_repairs(chk, drv, llb)
    lap("corpus")
    run_histories(chk, drv, llb, model)
    lap("histories")
    chk.cov["phase_wall_s"] = ph
    chk.assumptions = ["engine property C02 (a rule whose recorded value is not valid runs again; its dependents are re-evaluated after it) is cited, not proved here",
                       "values are modelled by kind; payload comparisons of isResultValid enter as a boolean (fs_ok)",
                       "the frontend's `cancelled` flag is set whenever a task observes cancellation (BuildSystemFrontendImpl::cancel is the only route)",
                       "delegates answer shouldCommandStart = true (the CLI's and the frontend's default); the other case is the witness c10_delegate_skip_refuted",
                       "node-rule validity (ProducedNodeTask::isResultValid etc.) is not reachable through public headers: tied through the build histories only"]
    return chk.finish(level="proof",
                      rule="tables: every (command class x output node kind x in-contract command value kind x output missing?) entry of the real getResultForOutput, every (command x value kind x match?) "
                           "entry of the real isResultValid, every sequence of <= 3 input value kinds through the real provideValue/execute, each compared with the extracted model and judged by the property oracle. "
                           "histories: generated descriptions (4-10 commands: shell/phony/mkdir/symlink; plain, virtual, command-timestamp, directory, directory-structure nodes; multiple outputs; shared sub-graphs) "
                           "with commands made to fail by exit status, SIGSEGV, missing undeclared file, output path blocked by a file, mkdir blocked, missing declared input, over 3-4 builds "
                           "(fail / persist / partial repair / repair), through the CLI (serial, -j4) and the driver (real BuildSystemFrontend, serial / 4 lanes, cancelling / keep-going); "
                           "evaluations = table entries + builds; non-trivial = histories in which a command actually failed, distinct by (mode, pattern, size, failing set)",
                      trusted=["hand-written model coq/BSys/Failure.v, tied by the exhaustive tables and the keep-going histories", "harness/cpp/bsys_driver.cpp",
                               "extraction (ExtrOcamlBasic) + ocaml/vmodel_failure.ml", "python oracles in harness/py/props/c10.py (graph reachability over the generated description)"])

def replay(chk, rp):
    print(json.dumps({k: v for k, v in rp.items() if k != "description"}, indent=1, default=str)[:4000])
    if "description" in rp:
        print(rp["description"])
    return run(chk)
