# C20 - the C API is a faithful binding of the engine
#
# (a) proof gate: coq/Props/Properties_C20.v over the binding-layer model coq/Engine/CApi.v
# (b) differential, event by event: the same scenario (rules x history, keys with arbitrary bytes) is driven once through
#     the C++ interface (harness/cpp/engine_driver.cpp) and once through the C interface (harness/cpp/capi_driver.c);
#     the lines a C client can observe must be identical, including the rows of the database each run wrote
# (c) parameter scenarios judged by what core.h documents: force_change, must-follow, discovered dependency, schema
#     version on attach, input id range
# (d) correspondence of the extracted model: the raw C arguments logged by capi_driver go through `forward`, the C++ side's
#     callbacks through `backward`; both must reproduce what the other side saw
# The Swift bindings (products/llbuildSwift) are out of scope: they sit on top of this C interface.
import os, json, sqlite3, re, collections, shutil
import vlib, enginelib
from vlib import hx

# what both kinds of client can observe (engine_driver prints more: need, prior, epoch, deps, waitgraph ... need C++-only calls)
COMPARABLE = ("build", "restart", "valid", "create", "start", "provide", "avail", "complete", "cycle", "result", "dbrow", "dbepoch", "dberror",
              "error", "attach-error", "leftover-pending", "LATE-CALLBACK", "fresh", "freshval")
C_EXTRA = ("status", "raw")                                      # extra lines of capi_driver
INEXPRESSIBLE = [
    "rule signatures (llb_rule_t has no signature: every rule has the null signature; scenarios use sig=0, no signature edits)",
    "single-use requests (no requestSingleUse entry point; generated `single=` keys become must-follow keys)",
    "providePriorValue (CAPITask does not override it: `prior` events are filtered from the C++ trace)",
    "determinedRuleNeedsToRun (`need` events filtered), shouldResolveCycle (default: never resolve)",
    "the key argument of provideValue (not passed to provide_value; the C driver recovers it from the input id)",
    "cancelBuild / resetForBuild / isCancelled / cancellation delegates (no `cancel=` builds)",
    "getCurrentEpoch (`epoch` lines filtered; the epoch is compared through the database), dumpGraphToFile (`deps` lines filtered)",
    "recreateUnmatchedVersion=false (llb_buildengine_attach_db always recreates), per-engine enableTracing(path), addRule, TaskInterface::spawn/currentEpoch",
]


# ------------------------------------------------------------------ names

def atoi(b):
    """C atoi on the bytes up to the first NUL."""
    b = b.split(b"\0")[0].lstrip(b" \t\n\v\f\r")
    m = re.match(rb"[+-]?[0-9]+", b)
    return int(m.group(0)) if m else 0


def names_of(lines):
    ids = {}
    for l in lines:
        t = l.split(" ")
        if t[0] == "name":
            ids[vlib.unhx(t[2])] = int(t[1])
    return ids


def kid(ids, s):
    if s in ids:
        return ids[s]
    if len(s) > 1 and s[:1] == b"k":
        return atoi(s[1:])
    return -1


def kname(ids, k):
    for s, i in ids.items():
        if i == k:
            return s
    return b"k%d" % k


def vs(v):
    if len(v) == 0:
        return "EMPTY"
    if len(v) != 16:
        return "BAD%d" % len(v)
    return "%d.%d" % (int.from_bytes(v[:8], "little"), int.from_bytes(v[8:], "little"))


def enc_value(s):
    if s == "EMPTY":
        return b""
    p, st = s.split(".")
    return int(p).to_bytes(8, "little") + int(st).to_bytes(8, "little")


def dump_db(path, ids, hexvalues=False):
    """The database file in the format of engine_driver.cpp's dump_db (an independent reader: Python's sqlite3).
    hexvalues: values of any shape, printed as hex."""
    out = []
    try:
        con = sqlite3.connect(path)
        con.text_factory = bytes
        names = {}
        for i, key in con.execute("SELECT id, key FROM key_names"):
            names[i] = key if isinstance(key, bytes) else (b"" if key is None else str(key).encode())
        rows = []
        for key_id, value, sig, built_at, computed_at, deps in con.execute(
                "SELECT key_id, value, signature, built_at, computed_at, dependencies FROM rule_results"):
            value = value or b""
            deps = deps or b""
            r = "dbrow %08d %s %d %d %d" % (kid(ids, names.get(key_id, b"")), (hx(value) if value else "EMPTY") if hexvalues else vs(value),
                                            (sig or 0) & (2**64 - 1), computed_at, built_at)
            for i in range(0, len(deps) - 7, 8):
                x = int.from_bytes(deps[i:i + 8], "little")
                r += " %s:%d" % (str(kid(ids, names[x >> 2])) if (x >> 2) in names else "?", x & 3)
            if len(deps) % 8:
                r += " TRAILING-BYTES"
            rows.append(r)
        rows.sort()
        for r in rows:
            out.append("dbrow %d%s" % (atoi(r[6:].encode()), r[14:]))
        for (it,) in con.execute("SELECT iteration FROM info"):
            out.append("dbepoch %d" % it)
            break
        con.close()
    except sqlite3.Error as e:
        out.append("dberror %s" % e)
    return out


def db_info(path):
    try:
        con = sqlite3.connect(path)
        r = con.execute("SELECT version, client_version, iteration FROM info").fetchone()
        con.close()
        return r
    except sqlite3.Error:
        return None


# ------------------------------------------------------------------ generator (restricted to what core.h can express)

def rnd_name(rng):
    r = rng.random()
    if r < 0.5:
        # families that collapse onto each other (and onto a real key) when read as a C string
        stem = rng.choice([b"", b"a", b"ab", b"x/y", b"\xff", b"\0"])
        tail = rng.choice([b"", b"\0", b"\0b", b"\0c", b"\0\0", b"\0b\0", b"b\0", b"\0" + bytes([rng.randrange(256)])])
        return stem + tail
    if r < 0.8:
        return bytes(rng.randrange(256) for _ in range(rng.randint(0, 12)))
    if r < 0.92:
        return bytes(rng.choice([0, 0x61, 0x0a, 0x22, 0x20, 0x27, 0x5c]) for _ in range(rng.randint(1, 6)))
    unit = bytes(rng.choice([0, 0, 0x41, 0x42, 0xfe]) for _ in range(rng.randint(3, 9)))
    return (unit * 1200)[:rng.choice([255, 256, 1000, 4096, 5000])]


def assign_names(rng, keys, p=0.85):
    used, out = set(), []
    for k in keys:
        if rng.random() >= p:
            continue
        for _ in range(50):
            nm = rnd_name(rng)
            if nm in used or (len(nm) > 1 and nm[:1] == b"k"):
                continue
            used.add(nm)
            out.append("name %d %s" % (k, hx(nm)))
            break
    return out


def restrict_rule(line, keep_br=True):
    t = line.split(" ")
    f = collections.OrderedDict(x.split("=", 1) for x in t[2:])
    f["sig"] = "0"
    if not keep_br and "br" in f:
        s, a, b = f.pop("br").split(":")
        extra = ",".join(x for x in (a, b) if x)
        if extra:
            f["follow"] = ",".join(x for x in (f.get("follow"), extra) if x)
    if "single" in f:
        f["follow"] = ",".join(x for x in (f.get("follow"), f.pop("single")) if x)
    order = ["sig", "obs", "req", "follow", "br", "disc"]
    return "rule %s %s" % (t[1], " ".join("%s=%s" % (a, f[a]) for a in order if a in f))


IDBASES = [0, 0, 1, 2**32, 2**32 + 5, 2**40 + 7, 2**63, 2**64 - 256 - 200]
KMAX = 2**64 - 256                  # BuildEngine::kMaximumInputID: ids GREATER than this are reserved
BOUNDARY_IDS = [0, 7, 0x8000000000001000, KMAX - 1, KMAX, 2**32, 2**63 - 1, 2**63]
MIXM = 1000003


def mix(h, x):
    h ^= (x + 0x9e3779b97f4a7c15 + (h << 6) + (h >> 2)) % 2**64
    return (h % 2**64) % MIXM


def input_payload(k, envval):
    """payload of an observing input rule without inputs (the drivers' task arithmetic)"""
    h = mix(k % MIXM, envval)
    return h % 2 if k % 3 == 0 else h


def ids_lines(rng, L, p=0.5):
    """explicit input ids for some rules (C side only; the C++ drivers number their inputs 0, 1, ...): boundary values incl. kMaximumInputID"""
    out = []
    for l in L:
        if l.startswith("rule ") and rng.random() < p:
            ids = rng.sample(BOUNDARY_IDS, 5) + [rng.randrange(KMAX + 1) for _ in range(4)]
            if len(set(ids)) == len(ids):
                out.append("ids %s %s" % (l.split(" ")[1], ",".join(map(str, ids))))
    return out


def cycle_gadget(rng, base):
    """rules base..base+3: a gate input G (key divisible by 3: payload 0/1) and a ring A -> B -> C -> A whose back edge A -> B exists
    only while G's payload is even; -> (rule lines, gate key, root key)"""
    g = base + (-base) % 3
    a, b, c = g + 1, g + 2, g + 3
    return ["rule %d sig=0 obs=1" % g, "rule %d sig=0 obs=0 req=%d br=0:%d:" % (a, g, b), "rule %d sig=0 obs=0 req=%d" % (b, c),
            "rule %d sig=0 obs=0 req=%d" % (c, a)], g, a


def gen_scenario(rng, sched=None):
    L = enginelib.gen_history(rng, usedb=rng.random() < 0.6, sched=sched, allow_rule_edits=False)
    L = [restrict_rule(l) if l.startswith("rule ") else l for l in L]
    keys = sorted(int(l.split(" ")[1]) for l in L if l.startswith("rule "))
    head = [] if rng.random() < 0.1 else assign_names(rng, keys)
    head.append("idbase %d" % rng.choice(IDBASES))
    head += ids_lines(rng, L)
    if rng.random() < 0.3:
        head.append("schema %d" % rng.choice([0, 2, 7, 2**31 - 1, 2**31, 2**32 - 1]))
    return head + L


SHAPES = {0: "16-byte encoding", 1: "EMPTY (length 0)", 2: "one byte", 3: "all NUL, 1..20 bytes", 4: "4096 bytes"}


def gen_shape_scenario(rng):
    """Rules whose values have arbitrary shapes (capi_twin.cpp / capi_driver.c `shape` lines) and scripted is_result_valid answers,
    with repeated (null) builds in the same engine and after reloading from the database."""
    usedb = rng.random() < 0.75
    L = enginelib.gen_history(rng, usedb=usedb, allow_rule_edits=False)
    L = [restrict_rule(l) if l.startswith("rule ") else l for l in L]
    keys = sorted(int(l.split(" ")[1]) for l in L if l.startswith("rule "))
    gate = None
    if rng.random() < 0.4:
        # a ring that is closed or open depending on external state: builds that end in a cycle, followed by more builds on the SAME engine
        rules, gate, root = cycle_gadget(rng, max(keys) + 1)
        first_build = min(i for i, l in enumerate(L) if l.startswith("build "))
        L = L[:first_build] + rules + ["set %d %d" % (gate, rng.randrange(6))] + L[first_build:]
        extra = []
        for l in L[first_build + len(rules) + 1:]:
            extra.append(l)
            if l.startswith("build ") and rng.random() < 0.6:
                extra += ["set %d %d" % (gate, rng.randrange(6)), "build %d" % root] + (["build %d" % root] if rng.random() < 0.5 else [])
        L = L[:first_build + len(rules) + 1] + extra + ["build %d" % root, "set %d %d" % (gate, rng.randrange(6)), "build %d" % root, "build %d" % root]
        keys = sorted(int(l.split(" ")[1]) for l in L if l.startswith("rule "))
    head = ["hexvalues 1"] + ([] if rng.random() < 0.2 else assign_names(rng, keys)) + ["idbase %d" % rng.choice(IDBASES)] + ids_lines(rng, L)
    for k in keys:
        if k != gate and rng.random() < 0.55:
            head.append("shape %d %d" % (k, rng.choice([1, 1, 1, 2, 3, 3, 4])))
        if rng.random() < 0.2:
            head.append("force %d 1" % k)                      # complete(value, force_change = true): both twins
    vr = {}
    out = []
    for l in L:
        if l.startswith("build "):
            if rng.random() < 0.3:
                k = rng.choice(keys)
                vr[k] = 0 if vr.get(k, 1) else 1
                out.append("validret %d %d" % (k, vr[k]))
            out.append(l)
            if rng.random() < 0.5:
                out.append(l)                                  # null build, same engine
            if rng.random() < 0.3:
                out += ["restart", l]                          # null build after reloading (when a database is attached)
            if vr and rng.random() < 0.3:
                k = rng.choice(sorted(vr))
                vr[k] = 1
                out.append("validret %d 1" % k)
        else:
            out.append(l)
    return head + out


def scen_empty_value():
    # the shape of seeded/C20-4: "stamp" has the empty value, "nul" a value of NUL bytes only, "big" 4 KiB, "one" one byte
    return ["hexvalues 1", "db 1", "schema 7", nm(1, b"stamp"), nm(2, b"nul"), nm(4, b"big\0"), nm(5, b"\0one"), nm(7, b"top"), nm(0, b"in\0"),
            "rule 0 sig=0 obs=1", "rule 1 sig=0 obs=0", "rule 2 sig=0 obs=0", "rule 4 sig=0 obs=0 req=0", "rule 5 sig=0 obs=0 req=1",
            "rule 7 sig=0 obs=0 req=1,2,4,5",
            "shape 1 1", "shape 2 3", "shape 4 4", "shape 5 2", "set 0 1",
            "build 7", "build 7", "restart", "build 7", "validret 1 0", "build 7", "validret 1 1", "build 7",
            "set 0 2", "build 7", "build 7", "validret 2 0", "validret 4 0", "restart", "build 7", "validret 2 1", "validret 4 1", "build 7"]


def scen_cycle_repair():
    """one engine: builds abandoned on a cycle, the back edge removed through external state, rebuild, null build, cycle again"""
    rules, g, a = cycle_gadget(None, 9)
    even = [v for v in range(40) if input_payload(g, v) % 2 == 0]
    odd = [v for v in range(40) if input_payload(g, v) % 2 == 1]
    L = ["hexvalues 1", "db 1", nm(g, b"g\0ate"), nm(a, b"r\0a"), nm(a + 1, b"r\0b"), nm(a + 2, b"r\0"), nm(20, b"r")] + rules + \
        ["rule 20 sig=0 obs=1", "set 20 1", "set %d %d" % (g, even[0]), "build %d" % a, "build %d" % a,
         "set %d %d" % (g, odd[0]), "build %d" % a, "build %d" % a, "build %d" % (a + 2), "set %d %d" % (g, even[1]), "build %d" % a,
         "build %d" % (a + 1), "set %d %d" % (g, odd[1]), "build %d" % (a + 2), "build %d" % a, "build %d" % a, "build 20"]
    return L, a


def scen_boundary_ids(hexvalues):
    ids = [0, 7, 0x8000000000001000, KMAX - 1, KMAX]
    L = (["hexvalues 1"] if hexvalues else []) + \
        ["db 1"] + [nm(i, b"i\0" + bytes([65 + i])) for i in range(5)] + [nm(8, b"i\0top"), nm(7, b"i")] + \
        ["rule %d sig=0 obs=1" % i for i in range(5)] + ["rule 7 sig=0 obs=1", "rule 8 sig=0 obs=0 req=0,1,2,3,4",
         "ids 8 %s" % ",".join(map(str, ids))] + ["set %d %d" % (i, i + 1) for i in range(5)] + \
        ["build 8", "build 8", "set 4 9", "build 8", "restart", "set 3 9", "build 8"]
    return L, ids


def boundary_ids_oracle(c_trace):
    """every input id up to and including kMaximumInputID is delivered exactly once per run of the task, before inputs_available"""
    errs = []
    for b in builds_of(c_trace):
        if ev_index(b, "start 8") < 0:
            continue
        got = sorted(int(l.split(" ")[2]) for l in b["events"] if l.startswith("provide 8 "))
        if got != [0, 1, 2, 3, 4]:
            errs.append("%s: the task requested 5 inputs (ids 0, 7, 0x8000000000001000, kMaximumInputID-1, kMaximumInputID) but provide_value arrived for slots %s" % (b["hdr"], got))
        if ev_index(b, "avail 8") < 0:
            errs.append("%s: inputs_available did not fire" % b["hdr"])
    return errs


def scen_force_shape(shape):
    """`up` (never valid, always completing with force_change=true and a value of the given shape that does not change), dependent `down`"""
    return ["hexvalues 1", "db 1", nm(1, b"u\0p"), nm(2, b"d\0own"), nm(4, b"u"), "rule 1 sig=0 obs=0", "rule 2 sig=0 obs=0 req=1", "rule 4 sig=0 obs=1",
            "shape 1 %d" % shape, "validret 1 0", "force 1 1", "build 2", "build 2", "build 2", "restart", "build 2"]


def force_shape_oracle(c_trace):
    """core.h: force_change - treat the value as changed and trigger dependents to rebuild, even if the value itself is not different"""
    errs, prev = [], None
    for i, b in enumerate(builds_of(c_trace)):
        comp = [l for l in b["events"] if l.startswith("complete 1 ")]
        if not comp:
            errs.append("%s: `up` (never valid) did not run" % b["hdr"])
            continue
        v = comp[0].split(" ")[2]
        if i > 0 and v == prev and ev_index(b, "create 2") < 0:
            errs.append("%s: `up` completed with the unchanged value %s and force_change=true, but its dependent `down` did not re-run" % (b["hdr"], v[:40]))
        prev = v
    return errs


def key_kind_phase(chk, pair):
    """BuildKey C API (buildkey.h): kind -> identifier -> kind is the identity, identifiers are pairwise distinct and equal the first byte
    of a key of that kind built through llb_build_key_make_*"""
    wd = os.path.join(pair.wd, "keykinds")
    rc, out, err, _, _ = enginelib.run_impl(pair.drv["capi_driver"], ["keykinds"], wd)
    rows = []
    for l in out:
        m = re.match(r"keykind (\d+) ident=(\d+) back=(\d+) first=(-|\d+) getkind=(-|\d+)$", l)
        if m:
            rows.append(tuple(None if x == "-" else int(x) for x in m.groups()))
    errs = []
    if rc != 0 or len(rows) != 10:
        errs.append("capi_driver keykinds: exit status %s, %d rows: %s" % (rc, len(rows), err[-300:]))
    seen = {}
    for kind, ident, back, first, getkind in rows:
        chk.count(("keykind", kind))
        if back != kind:
            errs.append("kind %d -> identifier %r -> kind %d: not the identity" % (kind, chr(ident), back))
        if ident in seen:
            errs.append("kinds %d and %d share the identifier %r" % (seen[ident], kind, chr(ident)))
        seen.setdefault(ident, kind)
        if first is not None and first != ident:
            errs.append("identifier of kind %d is %r but a key of that kind built through llb_build_key_make_* starts with %r" % (kind, chr(ident), chr(first)))
        if getkind is not None and getkind != kind:
            errs.append("llb_build_key_get_kind of a key made for kind %d answers %d" % (kind, getkind))
    chk.cov["key_kinds_checked"] = len(rows)
    if errs:
        chk.violation("capi-key-kind-table", "the BuildKey C API's kind/identifier table is inconsistent: %s" % errs[0],
                      dict(mode="keykinds", scenario=["keykinds"], errors=errs, table=out), found_input=True,
                      broken="C20 oracle: llb_build_key_identifier_for_kind / kind_for_identifier / make_* agree for every public kind")


def valid_effect_oracle(lines, c_trace):
    """core.h, is_result_valid: "check if a previously computed result is still valid".  In a build that repeats the previous one
    (same key, nothing set in between, same engine or a new engine over the same database) every stored result is still valid
    unless the scripted answer says otherwise: if every is_result_valid answered true, no task may be created or started and
    every scanned rule must be reported up to date; a rule whose callback answered false must run again."""
    errs = []
    # which builds repeat their predecessor
    usedb, prev, repeat, n = False, None, {}, 0
    dirty = True
    for l in lines:
        t = l.split(" ")
        if t[0] == "db":
            usedb = t[1] != "0"
        elif t[0] in ("set", "validret", "rule", "schema", "force"):
            dirty = True
        elif t[0] == "restart":
            if not usedb:
                dirty = True
        elif t[0] == "build":
            n += 1
            repeat[n] = (not dirty) and prev == t[1]
            prev, dirty = t[1], False
    cur, evs = None, {}
    for l in c_trace:
        t = l.split(" ")
        if t[0] == "build":
            cur = int(t[1])
            evs[cur] = []
        elif cur is not None:
            evs[cur].append(t)
    for b, ev in evs.items():
        answers = {int(t[1]): int(t[2]) for t in ev if t[0] == "valid"}
        created = set(int(t[1]) for t in ev if t[0] in ("create", "start"))
        if any(t[0] in ("cycle", "error") for t in ev):
            continue
        for k, a in answers.items():
            if a == 0 and k not in created:
                errs.append("build %d: is_result_valid of rule %d answered false but the rule did not run again" % (b, k))
        if repeat.get(b) and all(a == 1 for a in answers.values()):
            if created:
                errs.append("build %d repeats build %d with nothing changed and every is_result_valid answering true, but tasks of rules %s were created/started"
                            % (b, b - 1, sorted(created)))
            st = {}
            for t in ev:
                if t[0] == "status":
                    st.setdefault(int(t[1]), []).append(int(t[2]))
            for k, s in st.items():
                if s[-1] != 1:
                    errs.append("build %d (null build): rule %d reported status %s instead of up-to-date" % (b, k, s))
            if not answers:
                errs.append("build %d (null build): is_result_valid was not consulted at all" % b)
    return errs


# ------------------------------------------------------------------ running both sides

class Pair:
    def __init__(self, drv, wd):
        # private copies of the two binaries: another check may relink the shared ones while this one runs
        os.makedirs(os.path.join(wd, "bin"), exist_ok=True)
        self.drv = {}
        for n, p in drv.items():
            q = os.path.join(wd, "bin", n)
            with vlib.Lock("drv-hooks"):
                shutil.copy2(p, q)
            self.drv[n] = q
        self.wd = wd

    def run(self, lines, trace=False, c_lines=None, only=None):
        """-> dict(cpp=[comparable lines], c=[comparable lines], rawc=[...], cpp_all, c_all, errors=[...])"""
        ids = names_of(lines)
        res = dict(errors=[], cpp=[], c=[], cpp_all=[], c_all=[])
        if only != "c":
            rc1, o1, e1, _, _ = enginelib.run_impl(self.drv["engine_driver"], lines, os.path.join(self.wd, "cpp"))
            res["cpp_all"] = o1
            res["cpp"] = [l for l in o1 if l.split(" ")[0] in COMPARABLE]
            if rc1 != 0:
                res["errors"].append("engine_driver exit status %s: %s" % (rc1, e1[-400:]))
        if only != "cpp":
            cwd = os.path.join(self.wd, "c")
            if os.path.isdir(cwd):
                for f in os.listdir(cwd):
                    if f.startswith("snap-"):
                        os.unlink(os.path.join(cwd, f))
            env = dict(os.environ)
            if trace:
                env["CAPI_TRACE"] = "1"
            else:
                env.pop("CAPI_TRACE", None)
            rc2, o2, e2, _, _ = enginelib.run_impl(self.drv["capi_driver"], c_lines if c_lines is not None else lines, cwd, env=env)
            res["c_all"] = o2
            if rc2 != 0:
                res["errors"].append("capi_driver exit status %s: %s" % (rc2, e2[-400:]))
            for l in o2:
                t = l.split(" ")
                if t[0] in C_EXTRA:
                    continue
                if t[0] == "UNSUPPORTED":
                    raise AssertionError("scenario uses a feature the C interface cannot express: %s" % l)
                if t[0] == "dbsnap":
                    res["c"] += dump_db(os.path.join(cwd, "snap-%s.db" % t[1]), ids)
                    continue
                res["c"].append(l)
        return res


def run_twin(pair, lines):
    """The same scenario through capi_twin.cpp (C++ interface) and capi_driver.c (C interface): every line is comparable."""
    ids = names_of(lines)
    res = dict(errors=[], cpp=[], c=[], cpp_all=[], c_all=[])
    for side, drv in (("cpp", "capi_twin"), ("c", "capi_driver")):
        wd = os.path.join(pair.wd, "twin-" + side)
        if os.path.isdir(wd):
            for f in os.listdir(wd):
                if f.startswith("snap-"):
                    os.unlink(os.path.join(wd, f))
        env = dict(os.environ)
        env.pop("CAPI_TRACE", None)
        rc, o, e, _, _ = enginelib.run_impl(pair.drv[drv], lines, wd, env=env)
        res[side + "_all"] = o
        if rc != 0:
            res["errors"].append("%s exit status %s: %s" % (drv, rc, e[-400:]))
        for l in o:
            t = l.split(" ")
            if t[0] == "UNSUPPORTED":
                raise AssertionError("shape scenario uses something %s cannot express: %s" % (drv, l))
            if t[0] == "dbsnap":
                res[side] += dump_db(os.path.join(wd, "snap-%s.db" % t[1]), ids, hexvalues=True)
            else:
                res[side].append(l)
    return res


def run_shape(chk, pair, lines, mode, cov):
    res = run_twin(pair, lines)
    shapes = {int(l.split(" ")[1]): int(l.split(" ")[2]) for l in lines if l.startswith("shape ")}
    asked = [l.split(" ") for l in res["cpp"] if l.startswith("valid ")]
    nempty = sum(1 for t in asked if t[3] == "EMPTY")
    cov["valid_calls_compared"] += len(asked)
    cov["valid_calls_on_empty_value"] += nempty
    cov["valid_calls_on_all_nul_value"] += sum(1 for t in asked if t[3] != "EMPTY" and set(t[3]) == {"0"})
    cov["valid_calls_on_4k_value"] += sum(1 for t in asked if len(t[3]) == 8192)
    cov["valid_calls_on_1_byte_value"] += sum(1 for t in asked if len(t[3]) == 2)
    cov["valid_answers_false"] += sum(1 for t in asked if t[2] == "0")
    cov["shape_builds"] += sum(1 for l in res["cpp"] if l.startswith("build "))
    chk.count(("shape", "\n".join(lines)) if nempty else None)
    report_diff(chk, lines, res, mode)
    errs = valid_effect_oracle(lines, res["c"])
    if errs:
        chk.violation("capi-is-result-valid-effect", "the answer of is_result_valid does not have its documented effect through the C interface: %s" % errs[0],
                      dict(mode=mode, scenario=lines, errors=errs[:10], c_trace=[l[:200] for l in res["c"][:300]]), found_input=True,
                      broken="C20 oracle: is_result_valid consulted for every stored result (any value bytes), answer decides whether the rule runs")
    cov["status_lines_compared"] += sum(1 for l in res["cpp"] if l.startswith("status "))
    cov["cycle_failed_builds"] += sum(1 for l in res["cpp"] if l.startswith("cycle "))
    ecpp = valid_effect_oracle(lines, res["cpp"])
    if ecpp and not errs:
        chk.notes.setdefault("valid_effect_oracle_on_cpp", []).append(ecpp[0])
    return res


def first_difference(a, b):
    for i in range(max(len(a), len(b))):
        x = a[i] if i < len(a) else "<end of trace>"
        y = b[i] if i < len(b) else "<end of trace>"
        if x != y:
            return dict(line=i, cpp=x, c=y, context_cpp=a[max(0, i - 6):i + 3], context_c=b[max(0, i - 6):i + 3])
    return None


def classify(d):
    x, y = d["cpp"].split(" ")[0], d["c"].split(" ")[0]
    if "BAD-" in d["c"] or "BAD-" in d["cpp"]:
        return "context", "a context / rule pointer handed to a C callback is not the one the client registered"
    if x == "dbrow" or y == "dbrow" or x == "dbepoch" or y == "dbepoch":
        return "persisted-state", "the database written through the C interface differs from the one written through the C++ interface"
    if (x == "valid" and y in ("valid", "create", "start", "status")) or (y == "valid" and x in ("create", "start", "status")):
        return "is-result-valid", "is_result_valid is not consulted exactly when the C++ twin's isResultValid is, with the same value bytes and answer"
    if x == "status" or y == "status":
        return "update-status", "update_status reports a different status kind than updateStatus"
    if x == "result" and y == "result":
        return "result", "llb_buildengine_build returns a different value than BuildEngine::build"
    if x == "provide" and y == "provide":
        return "provide", "provide_value shows a different input id / value than provideValue"
    return "events", "the C client observes a different callback sequence than the C++ client"


# ------------------------------------------------------------------ oracles on one side's trace (documentation of core.h)

def builds_of(lines):
    return [b for b in enginelib.split_builds(lines) if b["hdr"] != "restart"]


def ev_index(b, prefix):
    for i, l in enumerate(b["events"]):
        if l.startswith(prefix + " ") or l == prefix:
            return i
    return -1


def status_oracle(lines):
    """update_status: scanning (0) first; then complete (2) iff the rule's task ran in this build, else up-to-date (1)."""
    bad = []
    cur, created, st = None, set(), {}
    def close():
        if cur is None or failed[0]:
            return
        for k, s in st.items():
            want = [0, 2] if k in created else [0, 1]
            if s != want:
                bad.append("%s: rule %d status sequence %s, expected %s" % (cur, k, s, want))
    failed = [False]
    for l in lines:
        t = l.split(" ")
        if t[0] == "build":
            close()
            cur, created, st, failed[0] = l, set(), {}, False
        elif t[0] == "create":
            created.add(int(t[1]))
        elif t[0] == "status":
            st.setdefault(int(t[1]), []).append(int(t[2]))
        elif t[0] in ("cycle", "error"):
            failed[0] = True
    close()
    return bad


def protocol_oracle(b):
    """per task: create, start, provides, avail, complete in this order, each at most once (C-observable part of C06)."""
    errs, st = [], {}
    for l in b["events"]:
        t = l.split(" ")
        if t[0] not in ("create", "start", "provide", "avail", "complete"):
            continue
        k = int(t[1])
        s = st.setdefault(k, [])
        order = dict(create=0, start=1, provide=2, avail=3, complete=4)[t[0]]
        if s and (order < s[-1] or (order == s[-1] and t[0] != "provide")):
            errs.append("task %d: %s after %s" % (k, t[0], s[-1]))
        if not s and t[0] != "create":
            errs.append("task %d: %s without create" % (k, t[0]))
        s.append(order)
    return errs


# ------------------------------------------------------------------ dedicated parameter scenarios

def nm(k, b):
    return "name %d %s" % (k, hx(b))


def scen_force(force):
    # 0: input; 3: middle rule whose value is h % 2 (often identical after a re-run); 4: dependent; 1: decoy named by the C-string prefix
    L = ["db 1", nm(0, b"f\0in"), nm(3, b"f\0mid"), nm(4, b"f\0top"), nm(1, b"f"),
         "rule 0 sig=0 obs=1", "rule 1 sig=0 obs=1", "rule 3 sig=0 obs=0 req=0", "rule 4 sig=0 obs=0 req=3",
         "force 3 %d" % (1 if force else 0), "set 0 0", "set 1 1", "build 4"]
    for v in range(1, 13):
        L += ["set 0 %d" % v, "build 4"]
    return L


def force_oracle(lines, force):
    """-> (errors, number of identical-value completions seen)"""
    errs, prev, nident = [], None, 0
    for b in builds_of(lines):
        comp = [l for l in b["events"] if l.startswith("complete 3 ")]
        if not comp:
            continue
        v = comp[0].split(" ")[2]
        reran4 = ev_index(b, "create 4") >= 0
        row3 = [l.split(" ") for l in b["db"] if l.startswith("dbrow 3 ")]
        if prev is not None and v == prev:
            nident += 1
            if force and not reran4:
                errs.append("%s: task 3 completed with the identical value %s and force_change=true, but its dependent 4 did not re-run" % (b["hdr"], v))
            if not force and reran4:
                errs.append("%s: task 3 completed with the identical value %s and force_change=false, but its dependent 4 re-ran" % (b["hdr"], v))
            if row3:
                computed, built = int(row3[0][4]), int(row3[0][5])
                if force and computed != built:
                    errs.append("%s: forced completion of 3 not recorded as a change (computed_at %d, built_at %d)" % (b["hdr"], computed, built))
                if not force and computed == built:
                    errs.append("%s: unforced identical completion of 3 recorded as a change (computed_at %d = built_at)" % (b["hdr"], computed))
        elif prev is not None and not reran4:
            errs.append("%s: task 3 changed value %s -> %s but its dependent 4 did not re-run" % (b["hdr"], prev, v))
        prev = v
    return errs, nident


def scen_follow():
    return ["db 1", nm(0, b"m\0a"), nm(1, b"m\0b"), nm(5, b"m\0top"), nm(2, b"m"),
            "rule 0 sig=0 obs=1", "rule 1 sig=0 obs=1", "rule 2 sig=0 obs=1", "rule 5 sig=0 obs=0 req=1 follow=0",
            "set 0 1", "set 1 2", "set 2 3", "build 5", "build 5", "set 0 7", "build 5", "restart", "set 1 4", "build 5"]


def follow_oracle(lines):
    errs = []
    bs = builds_of(lines)
    b = bs[0]
    c0, a5 = ev_index(b, "complete 0"), ev_index(b, "avail 5")
    if c0 < 0:
        errs.append("the followed key was not computed in the first build")
    elif a5 < 0 or c0 > a5:
        errs.append("inputs_available of the follower (event %d) before the followed key completed (event %d)" % (a5, c0))
    for b in bs:
        for l in b["events"]:
            t = l.split(" ")
            if t[0] == "provide" and t[1] == "5" and t[3] != "1":
                errs.append("%s: a value of key %s was delivered to the follower: %s" % (b["hdr"], t[3], l))
            if t[0] in ("create", "valid") and t[1] == "2":
                errs.append("%s: the decoy key (the C-string prefix of the followed key) was touched: %s" % (b["hdr"], l))
        if len([l for l in b["events"] if l.startswith("provide 5 ")]) > 1:
            errs.append("%s: more than one value delivered to the follower" % b["hdr"])
    return errs


def scen_disc():
    return ["db 1", nm(0, b"d\0x"), nm(1, b"d\0y"), nm(4, b"d\0top"), nm(2, b"d"),
            "rule 0 sig=0 obs=1", "rule 1 sig=0 obs=1", "rule 2 sig=0 obs=1", "rule 4 sig=0 obs=0 req=1 disc=0",
            "set 0 1", "set 1 2", "set 2 3", "build 4", "build 4", "build 4", "set 0 5", "build 4", "build 4",
            "restart", "build 4", "set 0 6", "build 4"]


def disc_oracle(lines):
    errs = []
    bs = builds_of(lines)
    # builds (0-based): 2 = nothing changed; 3 = discovered input changed; 4 = nothing changed; 5 = restart, nothing changed; 6 = changed
    def ran(i):
        return ev_index(bs[i], "create 4") >= 0
    def val(i):
        return bs[i]["result"]
    if len(bs) < 7:
        return ["trace too short"]
    for i in (2, 4, 5):
        if ran(i):
            errs.append("%s: task re-ran although neither its input nor its discovered dependency changed" % bs[i]["hdr"])
    for i in (3, 6):
        if not ran(i):
            errs.append("%s: the discovered dependency changed but the task was not re-run" % bs[i]["hdr"])
        elif val(i) == val(i - 1):
            errs.append("%s: task re-ran but produced the old result %s" % (bs[i]["hdr"], val(i)))
    for b in bs:
        rows = [l for l in b["db"] if l.startswith("dbrow 4 ")]
        if rows and " 0:" not in rows[0]:
            errs.append("%s: the stored result of the task does not list the discovered key: %s" % (b["hdr"], rows[0]))
        for l in b["events"]:
            t = l.split(" ")
            if t[0] in ("create", "valid") and t[1] == "2":
                errs.append("%s: the decoy key (the C-string prefix of the discovered key) was touched: %s" % (b["hdr"], l))
    return errs


def scen_schema(v1, v2):
    return ["db 1", "schema %d" % v1, nm(0, b"s\0in"), nm(4, b"s\0top"), "rule 0 sig=0 obs=1", "rule 4 sig=0 obs=0 req=0", "set 0 3",
            "build 4", "restart", "build 4", "schema %d" % v2, "restart", "build 4", "restart", "build 4"]


def schema_oracle(lines, info, v1, v2):
    errs = []
    bs = builds_of(lines)
    def created(i):
        return sorted(int(l.split(" ")[1]) for l in bs[i]["events"] if l.startswith("create "))
    def epoch(i):
        e = [l for l in bs[i]["db"] if l.startswith("dbepoch ")]
        return int(e[0].split(" ")[1]) if e else None
    if created(0) != [0, 4]:
        errs.append("first build did not run both tasks: %s" % created(0))
    if created(1) or epoch(1) != 2:
        errs.append("reopening with the same schema version %d: expected a null build at epoch 2, got tasks %s, epoch %s" % (v1, created(1), epoch(1)))
    if v1 != v2:
        if created(2) != [0, 4] or epoch(2) != 1:
            errs.append("reopening with schema version %d (was %d): expected an empty recreated database (both tasks run, epoch 1), got tasks %s, epoch %s" % (v2, v1, created(2), epoch(2)))
    if created(3) or epoch(3) != epoch(2) + 1:
        errs.append("reopening again with schema version %d: expected a null build, got tasks %s, epoch %s" % (v2, created(3), epoch(3)))
    if info is None or (info[1] % 2**32) != v2:
        errs.append("client_version stored in the database is %s, attached with %d" % (info, v2))
    return errs


def scen_reserved_id():
    return [nm(0, b"r\0in"), nm(4, b"r\0top"), "rule 0 sig=0 obs=1", "rule 4 sig=0 obs=0 req=0", "set 0 3",
            "idbase %d" % (2**64 - 255), "build 4"]


def scen_cycle():
    return ["db 1", nm(5, b"c\0a"), nm(6, b"c\0b"), nm(7, b"c\0"), nm(8, b"c"), "rule 5 sig=0 obs=0 req=6", "rule 6 sig=0 obs=0 req=7,8",
            "rule 7 sig=0 obs=0 req=5", "rule 8 sig=0 obs=1", "set 8 1", "build 5", "build 8", "rule 7 sig=0 obs=0 req=8", "restart", "build 5"]


def scen_edge_keys():
    long_key = (b"L\0ong\xff" * 900)[:5000]
    return ["db 1", nm(0, b""), nm(1, long_key), nm(2, b"\0"), nm(3, b"\0\0"), nm(4, long_key[:-1]), nm(5, long_key + b"\0"),
            "rule 0 sig=0 obs=0 req=1,2 follow=3 disc=4", "rule 1 sig=0 obs=1", "rule 2 sig=0 obs=1", "rule 3 sig=0 obs=1",
            "rule 4 sig=0 obs=1", "rule 5 sig=0 obs=0 req=0,4",
            "set 1 1", "set 2 2", "set 3 3", "set 4 4", "idbase %d" % (2**64 - 256 - 8),
            "build 0", "build 5", "set 4 9", "build 5", "restart", "set 2 7", "build 5", "build 0"]


# ------------------------------------------------------------------ model correspondence over raw arguments

def model_requests(rng, lines, res):
    """-> list of (request, expected answer, description) for the extracted model, built from the two traces."""
    ids = names_of(lines)
    base = 0
    explicit = {}
    for l in lines:
        if l.startswith("idbase "):
            base = int(l.split(" ")[1])
        elif l.startswith("ids "):
            explicit[int(l.split(" ")[1])] = [int(x) for x in l.split(" ")[2].split(",")]
    def cid(k, slot):           # the input id the C driver passes for slot <slot> of rule k
        return explicit[k][slot] if k in explicit and slot < len(explicit[k]) else base + slot
    reqs = []
    junk = lambda: bytes(rng.randrange(256) for _ in range(rng.choice([0, 1, 1, 3])))
    def fwd(tag, blob, num, flag):
        mem = blob + junk()
        return "forward %d %d %s %d %d" % (tag, len(blob), hx(mem), num, flag)
    # C side: raw calls, per build
    cb, cur = [], None
    for l in res["c_all"]:
        t = l.split(" ")
        if t[0] == "build":
            cur = dict(req=[], comp=[], prov=[], build=None, result=None, cycle=[])
            cb.append(cur)
        elif t[0] == "raw" and cur is not None:
            k, blob = int(t[2]), vlib.unhx(t[3]) if t[3] != "." else b""
            if t[1] == "call-needs_input":
                cur["req"].append((k, blob, int(t[4])))
            elif t[1] == "call-complete":
                cur["comp"].append((k, blob, int(t[4])))
            elif t[1] == "call-build":
                cur["build"] = blob
            elif t[1] == "cb-provide_value":
                cur["prov"].append((k, int(t[4]), blob))
            elif t[1] == "cb-result":
                cur["result"] = blob
            elif t[1] == "cb-cycle":
                cur["cycle"].append(blob)
    pb = builds_of(res["cpp_all"])
    if len(pb) != len(cb):
        return None
    for b, c in zip(pb, cb):
        # forward(build key) is the key the C++ client built
        reqs.append((fwd(1, c["build"], 0, 0), "1 %s 0 0" % hx(kname(ids, b["key"])), "llb_buildengine_build key of %s" % b["hdr"]))
        prov = [l.split(" ") for l in b["events"] if l.startswith("provide ")]
        want_req = sorted((int(t[1]), kname(ids, int(t[3])), cid(int(t[1]), int(t[2]))) for t in prov)
        got_req = sorted((k, blob, i) for (k, blob, i) in c["req"])
        # every delivered input was requested under exactly that key and id: forward(needs_input) = request(key, id)
        if len(want_req) == len(got_req):
            for (k, key, slot), (k2, blob, slot2) in zip(want_req, got_req):
                reqs.append((fwd(2, blob, slot2, 0), "2 %s %d 0" % (hx(key), slot), "task %d request in %s" % (k, b["hdr"])))
        # backward(provideValue) is what provide_value showed
        want_prov = sorted((int(t[1]), cid(int(t[1]), int(t[2])), kname(ids, int(t[3])), enc_value(t[4])) for t in prov)
        got_prov = sorted(c["prov"])
        if len(want_prov) == len(got_prov):
            for (k, i, key, v), (k2, i2, v2) in zip(want_prov, got_prov):
                reqs.append(("provide %d %s %s" % (i, hx(key), hx(v)), "%d %s" % (i2, hx(v2)), "task %d provide_value in %s" % (k, b["hdr"])))
        else:
            reqs.append(("lookup -", "provide-count %d vs %d" % (len(want_prov), len(got_prov)), "provide_value count in %s" % b["hdr"]))
        comp = sorted((int(l.split(" ")[1]), enc_value(l.split(" ")[2])) for l in b["events"] if l.startswith("complete "))
        gotc = sorted(c["comp"])
        if len(comp) == len(gotc):
            for (k, v), (k2, blob, f) in zip(comp, gotc):
                reqs.append((fwd(5, blob, 0, f), "5 %s 0 0" % hx(v), "task %d complete in %s" % (k, b["hdr"])))
        if b["result"] is not None and c["result"] is not None:
            v = enc_value(b["result"].split(" ")[1])
            reqs.append(("result %s" % hx(v), "%d %s" % (len(c["result"]), hx(c["result"])), "result_out of %s" % b["hdr"]))
        for l in b["other"]:
            if l.startswith("cycle "):
                ks = [kname(ids, int(x)) for x in l.split(" ")[1:]]
                reqs.append(("cycle %s" % ",".join(hx(x) for x in ks), ",".join(hx(x) for x in c["cycle"]), "cycle_detected keys of %s" % b["hdr"]))
    return reqs


def nul_coverage(res, cov):
    for l in res["c_all"]:
        t = l.split(" ")
        if t[0] == "raw" and t[3] not in (".", "-") and t[1] != "call-attach_db":
            blob = vlib.unhx(t[3])
            what = t[1]
            if what in ("call-complete", "cb-provide_value", "cb-is_result_valid", "cb-result"):
                if b"\0" in blob:
                    cov["values_with_nul:" + what] += 1
            elif b"\0" in blob:
                cov["keys_with_nul:" + what] += 1


# ------------------------------------------------------------------ the check

def report_diff(chk, lines, res, mode, extra=None):
    d = first_difference(res["cpp"], res["c"])
    if d is None and not res["errors"]:
        return False
    if d is None:
        key, what = "driver-failure", "a driver ended abnormally: %s" % res["errors"]
    else:
        key, what = classify(d)
        what = "%s (first difference at comparable line %d: C++ `%s` / C `%s`)" % (what, d["line"], d["cpp"][:120], d["c"][:120])
    rp = dict(mode=mode, scenario=lines, first_difference=d, errors=res["errors"], broken="C20 oracle: C++ client trace == C client trace")
    if extra:
        rp.update(extra)
    chk.violation("capi-" + key, what, rp, found_input=True, broken="C20 oracle: C++ client trace == C client trace")
    return True


def run_differential(chk, pair, lines, mode, trace, cov, model_reqs):
    res = pair.run(lines, trace=trace)
    nb = len(builds_of(res["cpp"]))
    nontrivial = sum(1 for l in res["cpp"] if l.startswith("provide ")) > 0 and nb > 1
    chk.count(("diff", "\n".join(lines)) if nontrivial else None)
    cov["builds"] += nb
    cov["comparable_lines"] += len(res["cpp"])
    cov["db_rows_compared"] += sum(1 for l in res["cpp"] if l.startswith("dbrow "))
    bad = report_diff(chk, lines, res, mode)
    for e in status_oracle(res["c_all"]):
        chk.violation("capi-update-status", "update_status reported an unexpected status kind sequence: %s" % e,
                      dict(mode=mode, scenario=lines, detail=e), found_input=True, broken="C20 oracle: update_status kinds")
        break
    if trace and not bad:
        nul_coverage(res, cov)
        rq = model_requests(chk.rng, lines, res)
        if rq is not None:
            model_reqs.extend((r, w, d, lines) for (r, w, d) in rq)
    return res


def run_threads(chk, pair, lines, cov):
    """completions posted from racing pthreads (a copied llb_task_interface_t used from another thread): results, protocol
    order and the absence of late callbacks; the callback interleaving itself is schedule dependent."""
    sync = [re.sub(r" sched=\S+", "", l) for l in lines]
    res = pair.run(sync, c_lines=lines)
    chk.count(("threads", "\n".join(lines)))
    rc, rp = [l for l in res["cpp"] if l.startswith("result ")], [l for l in res["c"] if l.startswith("result ")]
    errs = list(res["errors"])
    if rc != rp:
        errs.append("build results differ: C++ (sync) %s / C (threads) %s" % (rc, rp))
    for b in builds_of(res["c"]):
        errs += ["%s: %s" % (b["hdr"], e) for e in protocol_oracle(b)]
        errs += ["%s: %s" % (b["hdr"], l) for l in b["other"] if l.startswith(("LATE-CALLBACK", "error", "leftover", "BAD-"))]
    # final persisted values
    va = {l.split(" ")[1]: l.split(" ")[2] for l in builds_of(res["cpp"])[-1]["db"] if l.startswith("dbrow ")}
    vb = {l.split(" ")[1]: l.split(" ")[2] for l in builds_of(res["c"])[-1]["db"] if l.startswith("dbrow ")}
    for k in sorted(set(va) & set(vb)):
        if va[k] != vb[k]:
            errs.append("stored value of key %s differs: %s / %s" % (k, va[k], vb[k]))
    cov["threaded_builds"] += len(rp)
    if errs:
        chk.violation("capi-threads", "completing tasks from other threads through the C interface: %s" % errs[0],
                      dict(mode="threads", scenario=lines, errors=errs[:10]), found_input=True, broken="C20 oracle: results / protocol under threaded completion")


def run_params(chk, pair, cov):
    # ---- force_change
    for force in (0, 1):
        L = scen_force(force)
        res = pair.run(L) if not force else pair.run(L, only="c")
        chk.count(("force", force))
        if not force:
            report_diff(chk, L, res, "param-force0")
            e0, n0 = force_oracle(res["cpp"], 0)
            if e0:       # the C++ interface itself contradicts the documented effect: not a binding matter, but say so
                chk.notes["force_oracle_on_cpp"] = e0[:3]
        errs, nident = force_oracle(res["c"], force)
        cov["force_identical_completions"] += nident
        if nident == 0:
            chk.notes["force_scenario_vacuous"] = "no identical-value completion occurred"
        if errs:
            chk.violation("capi-force-change", "force_change=%s on llb_buildengine_task_is_complete does not have its documented effect: %s" % (bool(force), errs[0]),
                          dict(mode="param-force%d" % force, scenario=L, errors=errs[:10], c_trace=res["c"][:400]), found_input=True,
                          broken="C20 oracle: force_change (core.h: treat the value as changed and trigger dependents to rebuild)")
    # ---- must follow
    L = scen_follow()
    res = pair.run(L)
    chk.count(("follow",))
    report_diff(chk, L, res, "param-follow")
    errs = follow_oracle(res["c"])
    if errs:
        chk.violation("capi-must-follow", "llb_buildengine_task_must_follow does not have its documented effect: %s" % errs[0],
                      dict(mode="param-follow", scenario=L, errors=errs[:10], c_trace=res["c"][:400]), found_input=True, broken="C20 oracle: must-follow")
    # ---- discovered dependency
    L = scen_disc()
    res = pair.run(L)
    chk.count(("disc",))
    report_diff(chk, L, res, "param-disc")
    errs = disc_oracle(res["c"])
    if errs:
        chk.violation("capi-discovered-dependency", "llb_buildengine_task_discovered_dependency does not have its documented effect: %s" % errs[0],
                      dict(mode="param-disc", scenario=L, errors=errs[:10], c_trace=res["c"][:400]), found_input=True, broken="C20 oracle: discovered dependency")
    # ---- schema version
    for (v1, v2) in [(7, 8), (7, 7), (1, 2**32 - 1), (2**31, 2**31 - 1), (0, 1), (2**32 - 1, 0)]:
        L = scen_schema(v1, v2)
        res = pair.run(L)
        chk.count(("schema", v1, v2))
        report_diff(chk, L, res, "param-schema")
        info = db_info(os.path.join(pair.wd, "c", "build.db"))
        errs = schema_oracle(res["c"], info, v1, v2)
        if errs:
            chk.violation("capi-schema-version", "llb_buildengine_attach_db schema_version does not have its documented effect: %s" % errs[0],
                          dict(mode="param-schema", v1=v1, v2=v2, scenario=L, errors=errs[:10], c_trace=res["c"][:400]), found_input=True, broken="C20 oracle: schema version on attach")
    # ---- reserved input ids (C side only: engine_driver numbers its inputs from 0)
    L = scen_reserved_id()
    res = pair.run(L, only="c")
    chk.count(("reserved-id",))
    if not any(l.startswith("error ") for l in res["c"]) or "result EMPTY" not in res["c"]:      # any error callback (the wording is not fixed) + failed build
        chk.violation("capi-reserved-input-id", "an input id above kMaximumInputID passed to llb_buildengine_task_needs_input was not rejected as documented",
                      dict(mode="param-reserved-id", scenario=L, c_trace=res["c"][:100]), found_input=True, broken="C20 oracle: reserved input ids")
    # ---- cycle reporting, edge keys
    for name, L in (("cycle", scen_cycle()), ("edge-keys", scen_edge_keys())):
        res = pair.run(L, trace=True)
        chk.count((name,))
        report_diff(chk, L, res, "param-" + name)
        if name == "cycle" and not any(l.startswith("cycle 5 6 7 5") for l in res["c"]):
            chk.violation("capi-cycle", "cycle_detected did not report the keys of the cycle", dict(mode="param-cycle", scenario=L, c_trace=res["c"][:100]),
                          found_input=True, broken="C20 oracle: cycle keys")
    # ---- values of every shape x is_result_valid answers (C++ twin: capi_twin.cpp)
    L = scen_empty_value()
    res = run_shape(chk, pair, L, "shape-empty-value", cov)
    nstamp = sum(1 for l in res["c"] if l.startswith("valid 1 ") and l.endswith(" EMPTY"))
    if nstamp < 3:
        chk.violation("capi-is-result-valid-effect", "is_result_valid was consulted %d times for the rule whose stored value is empty (expected on every later scan)" % nstamp,
                      dict(mode="shape-empty-value", scenario=L, c_trace=[l[:200] for l in res["c"][:300]]), found_input=True,
                      broken="C20 oracle: is_result_valid consulted for every stored result")
    # ---- force_change with values of every shape (EMPTY, one byte, all NUL, 4 KiB, 16 bytes): C++ twin comparison + documented effect
    for shape in (1, 2, 3, 4, 0):
        L = scen_force_shape(shape)
        res = run_shape(chk, pair, L, "shape-force", cov)
        errs = force_shape_oracle(res["c"])
        cov["forced_shape_completions"] += sum(1 for l in res["c"] if l.startswith("complete 1 "))
        if errs:
            chk.violation("capi-force-change", "force_change=true on llb_buildengine_task_is_complete does not have its documented effect for a value of shape `%s`: %s" % (SHAPES[shape], errs[0]),
                          dict(mode="shape-force", scenario=L, errors=errs[:10], c_trace=[l[:200] for l in res["c"][:200]]), found_input=True,
                          broken="C20 oracle: force_change (core.h: treat the value as changed and trigger dependents to rebuild)")
    key_kind_phase(chk, pair)
    # ---- a build abandoned on a cycle followed by more builds on the SAME engine: update_status compared exactly with the C++ twin
    L, root = scen_cycle_repair()
    res = run_shape(chk, pair, L, "shape-cycle-repair", cov)
    ncyc = sum(1 for l in res["c"] if l.startswith("cycle "))
    nok = sum(1 for l in res["c"] if l.startswith("result ") and l != "result EMPTY")
    cov["cycle_failed_builds"] += ncyc
    if ncyc < 3 or nok < 4:
        chk.notes["cycle_repair_scenario"] = "expected 3 cycle-failed and >= 4 successful builds, got %d / %d" % (ncyc, nok)
    for e in status_oracle(res["c"]):
        chk.violation("capi-update-status", "update_status reported an unexpected status kind sequence: %s" % e,
                      dict(mode="shape-cycle-repair", scenario=L, detail=e), found_input=True, broken="C20 oracle: update_status kinds")
        break
    # ---- boundary input ids: 0, 7, 0x8000000000001000, kMaximumInputID-1, kMaximumInputID are delivered (kMaximumInputID+1: rejected, above)
    for hexv in (False, True):
        L, ids = scen_boundary_ids(hexv)
        res = run_shape(chk, pair, L, "shape-boundary-ids", cov) if hexv else pair.run(L, trace=True)
        if not hexv:
            chk.count(("boundary-ids",))
            report_diff(chk, L, res, "param-boundary-ids")
        errs = boundary_ids_oracle(res["c"])
        if errs:
            chk.violation("capi-input-id-range", "an input id within the documented range is not delivered through provide_value: %s" % errs[0],
                          dict(mode="shape-boundary-ids" if hexv else "param-boundary-ids", scenario=L, errors=errs[:10], c_trace=[l[:200] for l in res["c"][:200]]),
                          found_input=True, broken="C20 oracle: input ids <= kMaximumInputID are the client's (core.h)")
    # ---- llb_rule_t.key: documented as "the key this rule computes", never read by the binding (recorded, not judged)
    L = scen_follow()
    res = pair.run(L, c_lines=["rulekey 1"] + L)
    chk.notes["llb_rule_t.key"] = "ignored by the binding (a bogus key in lookup_rule's rule_out changes nothing)" if res["cpp"] == res["c"] else \
        "honoured by the binding: a rule_out->key different from the looked-up key changes the client's observations"


def run(chk):
    drv = vlib.build_drivers(["engine_driver", "capi_driver", "capi_twin"])
    model = vlib.model_bin("capi")
    chk.proof_gate()
    wd = os.path.join(vlib.WORK, "tmp", "c20", "%s-%d" % (chk.tier, chk.seed))
    os.makedirs(wd, exist_ok=True)
    pair = Pair(drv, wd)
    rng = chk.rng
    cov = collections.Counter()
    model_reqs = []

    run_params(chk, pair, cov)

    nsync, nhook, nthr = chk.n(140, 2500), chk.n(50, 700), chk.n(12, 150)
    nshape = chk.n(80, 1200)
    ntrace = chk.n(70, 500)
    for i in range(nsync):
        L = gen_scenario(rng)
        res = run_differential(chk, pair, L, "sync", i < ntrace, cov, model_reqs)
        if i == 3:
            chk.sample(dict(kind="differential scenario (sync)", scenario=[l if len(l) < 200 else l[:200] + "..." for l in L],
                            comparable_lines=len(res["cpp"]), first_lines=res["c"][:12]))
    for i in range(nhook):
        kind = rng.choice(["defer", "mixed"])
        L = gen_scenario(rng, sched=lambda r: "%s:%d" % (kind, r.randrange(1000)))
        run_differential(chk, pair, L, kind, False, cov, model_reqs)
    for i in range(nthr):
        L = gen_scenario(rng, sched=lambda r: "threads:%d" % r.randrange(1000))
        L = [l for l in L if not l.startswith("idbase ")] + []
        if not any(l.startswith("db 1") for l in L):
            L = ["db 1"] + [l for l in L if not l.startswith("db ")]
        run_threads(chk, pair, L, cov)

    for i in range(nshape):
        L = gen_shape_scenario(rng)
        res = run_shape(chk, pair, L, "shape", cov)
        if i == 1:
            chk.sample(dict(kind="value-shape scenario (C++ twin vs C)", scenario=[l if len(l) < 120 else l[:120] + "..." for l in L],
                            valid_lines=[l[:100] for l in res["c"] if l.startswith("valid ")][:8]))

    # ---- model correspondence
    nbad = 0
    if model_reqs:
        rc, out, err = vlib.run_lines(model, [r for (r, w, d, L) in model_reqs], timeout=600)
        assert rc == 0 and len(out) == len(model_reqs), (rc, err[-500:])
        for (r, w, d, L), got in zip(model_reqs, out):
            chk.count()
            if got != w:
                nbad += 1
                if nbad <= 3:
                    chk.notes.setdefault("model_disagreements", []).append(dict(what=d, model_request=r, model_answer=got, other_side=w))
                    bad_scn = L
        if nbad and not chk.violations:
            chk.violation("capi-model-correspondence",
                          "the binding model (coq/Engine/CApi.v) and the traces disagree on %d raw calls / callbacks although the C and C++ clients observed the same events" % nbad,
                          dict(mode="model", scenario=bad_scn, examples=chk.notes["model_disagreements"], broken="correspondence: Engine.CApi forward/backward"),
                          found_input=False, broken="correspondence: Engine.CApi forward/backward")
    cov["model_calls_checked"] = len(model_reqs)
    cov["model_disagreements"] = nbad
    for k in ("keys_with_nul:call-build", "keys_with_nul:call-needs_input", "keys_with_nul:call-must_follow", "keys_with_nul:call-discovered",
              "keys_with_nul:cb-lookup_rule", "values_with_nul:call-complete", "values_with_nul:cb-provide_value"):
        cov.setdefault(k, 0)
        if cov[k] == 0:
            chk.notes.setdefault("uncovered", []).append(k)
    chk.cov.update({k: int(v) for k, v in cov.items()})
    chk.cov["traces_validated_against_impl"] = nsync + nhook + nthr + nshape
    chk.cov["inexpressible_in_core_h"] = INEXPRESSIBLE
    chk.assumptions = ["x86-64 Linux: uintptr_t and uint64_t are 64 bits; llb_task_interface_t and core::TaskInterface have the same layout (two pointers)",
                       "the scenario language covers layered rule graphs (plus one hand-written cycle); tasks complete synchronously, at engine idle points (LLBUILD_VERIF notification points) or from racing threads",
                       "rule signatures, single-use requests, prior values, run reasons and cancellation are outside the C interface and are not compared",
                       "the Swift bindings are out of scope"]
    return chk.finish(level="proof",
                      rule="random layered rule graphs x histories (set / restart / build, with and without database, random schema versions) from enginelib.gen_history restricted to core.h, "
                           "keys named by random byte strings (NUL-prefix families, empty, 5000 bytes, non-UTF-8) and input ids offset up to 2^64-456; each scenario run through the C++ and the C "
                           "interface and compared line by line (events, results, database rows read by independent readers); dedicated scenarios for force_change, must-follow, discovered "
                           "dependency, schema version, reserved ids, cycles judged by the documentation; value-shape scenarios (rules completing with the EMPTY value, one byte, "
                           "all-NUL, 4 KiB; scripted is_result_valid answers; repeated builds in the same engine and after a database reload) through capi_twin.cpp and capi_driver.c, "
                           "every line compared incl. the value shown to is_result_valid, plus the documented effect of its answer. non-trivial = at least two builds and one delivered input; distinct by scenario text",
                      trusted=["hand-written model coq/Engine/CApi.v tied by correspondence (raw C arguments through the extracted forward/backward)",
                               "harness/cpp/engine_driver.cpp, harness/cpp/capi_twin.cpp, harness/cpp/capi_driver.c, harness/py/enginelib.py", "extraction (ExtrOcamlBasic) + ocaml/vmodel_capi.ml",
                               "Python sqlite3 as the reader of the database written through the C interface"])


def replay(chk, rp):
    drv = vlib.build_drivers(["engine_driver", "capi_driver", "capi_twin"])
    wd = os.path.join(vlib.WORK, "tmp", "c20", "replay")
    os.makedirs(wd, exist_ok=True)
    pair = Pair(drv, wd)
    mode, L = rp.get("mode", "sync"), rp.get("scenario")
    print("replaying %s scenario (%d lines)" % (mode, len(L or [])))
    cov = collections.Counter()
    if not L:
        return run(chk)
    chk.count(("replay", "\n".join(L)))
    if mode == "threads":
        run_threads(chk, pair, L, cov)
    elif mode == "keykinds":
        key_kind_phase(chk, pair)
    elif mode.startswith("shape"):
        res = run_shape(chk, pair, L, mode, cov)
        print("\n".join(l[:160] for l in res["c"]))
        if mode == "shape-force":
            for e in force_shape_oracle(res["c"]):
                chk.violation("capi-force-change", e, dict(mode=mode, scenario=L), found_input=True, broken="C20 oracle: force_change")
                break
    elif mode.startswith("param-force"):
        force = int(mode[-1])
        res = pair.run(L, only="c")
        errs, n = force_oracle(res["c"], force)
        print("\n".join(res["c"]))
        if errs:
            chk.violation("capi-force-change", errs[0], dict(mode=mode, scenario=L, errors=errs), found_input=True, broken="C20 oracle: force_change")
    elif mode in ("param-follow", "param-disc", "param-schema"):
        res = pair.run(L)
        report_diff(chk, L, res, mode)
        if mode == "param-follow":
            errs = follow_oracle(res["c"])
        elif mode == "param-disc":
            errs = disc_oracle(res["c"])
        else:
            errs = schema_oracle(res["c"], db_info(os.path.join(pair.wd, "c", "build.db")), rp.get("v1", 7), rp.get("v2", 8))
        if errs:
            chk.violation("capi-" + mode, errs[0], dict(mode=mode, scenario=L, errors=errs), found_input=True, broken="C20 oracle: " + mode)
    else:
        res = pair.run(L, only="c" if mode == "param-reserved-id" else None)
        if mode != "param-reserved-id":
            if report_diff(chk, L, res, mode):
                d = first_difference(res["cpp"], res["c"])
                print(json.dumps(d, indent=1))
        else:
            print("\n".join(res["c"]))
    chk.proof_gate()
    return chk.finish(level="proof", rule="replay of one recorded scenario")
