# C05, build-system level: cancelling a build that runs through the REAL BuildSystemFrontend
# (harness/cpp/bsys_driver.cpp: open / fbuild / close) at every delegate-callback index, then repairing and
# building again on the SAME frontend object (same build system, same engine after reset) or on a NEW frontend in a
# new process over the same database.  Called from c05.py as bs_cancel_part(chk).
#
# Oracles (each reported with the concrete history): the cancelled build returns, and returns failure; no delegate
# callback arrives after build() returned; no child process of the build is left running; the next build succeeds
# (a clean build of the current description and sources does), does not skip commands whose previously missing input
# now exists, runs every command that never completed, and leaves outputs equal to a clean build.
import os, re, json, shutil, select, subprocess, time, random
from concurrent.futures import ThreadPoolExecutor
import vlib
from props import c10

BASE = os.path.join(vlib.WORK, "tmp", "c05bs")
hx = c10.hx
DELAY_US = 15000


class Proc:
    """line protocol with a timeout (a build that never returns is a finding, not a stuck check)"""
    def __init__(self, binary):
        self.p = subprocess.Popen([binary], stdin=subprocess.PIPE, stdout=subprocess.PIPE, stderr=subprocess.DEVNULL)
        self.buf = b""
    def ask(self, line, timeout=60):
        try:
            self.p.stdin.write((line + "\n").encode()); self.p.stdin.flush()
        except (BrokenPipeError, OSError):
            return None
        end = time.time() + timeout
        while b"\n" not in self.buf:
            left = end - time.time()
            if left <= 0:
                return "TIMEOUT"
            r, _, _ = select.select([self.p.stdout], [], [], left)
            if not r:
                return "TIMEOUT"
            chunk = os.read(self.p.stdout.fileno(), 1 << 16)
            if not chunk:
                return None       # died
            self.buf += chunk
        line, self.buf = self.buf.split(b"\n", 1)
        return line.decode("utf-8", "replace")
    def close(self, kill=False):
        try:
            if kill: self.p.kill()
            self.p.stdin.close()
            self.p.wait(timeout=10)
        except Exception:
            self.p.kill()


def open_frontend(drv, S, lanes):
    for attempt in range(6):           # the shared binary may be relinked by another check: retry
        try:
            p = Proc(drv)
            a = p.ask("open %s %s %s %d" % (hx(S), hx("build.llbuild"), hx("build.db"), lanes), timeout=30)
            if a == "opened":
                return p
            p.close(kill=True)
        except OSError:
            pass
        time.sleep(1 + attempt)
        try: vlib.build_drivers(["bsys_driver"])
        except vlib.BuildError: pass
    raise RuntimeError("cannot start bsys_driver")


def parse(ans):
    m = re.match(r"ok=(\d) failures=(\d+) errors=(\d+) cancelled=(\d) ncb=(\d+) late=(\d+) events=(\S+)", ans or "")
    if not m:
        return None
    ev = [] if m.group(7) == "." else m.group(7).split(",")
    status = {}
    for e in ev:
        if e.startswith("F:"):
            _, n, st = e.split(":"); status[n] = int(st)
    return dict(ok=m.group(1) == "1", failures=int(m.group(2)), errors=int(m.group(3)), cancelled=m.group(4) == "1", ncb=int(m.group(5)),
                late=int(m.group(6)), events=[e for e in ev if not e.startswith("T:")], started=set(e[2:] for e in ev if e.startswith("S:")),
                status=status, missing=[e for e in ev if e.startswith("M:")], late_events=[e for e in ev if e.startswith("LATE:")])


def leftovers(S, exclude):
    """pids of live processes whose working directory is the sandbox (the commands run there)"""
    for attempt in range(10):
        found = []
        for d in os.listdir("/proc"):
            if not d.isdigit() or int(d) in exclude:
                continue
            try:
                if os.readlink("/proc/%s/cwd" % d) == S:
                    st = open("/proc/%s/stat" % d).read().rsplit(")", 1)[1].split()
                    if st[0] != "Z":
                        found.append((int(d), open("/proc/%s/cmdline" % d).read().replace("\0", " ")[:80]))
            except OSError:
                pass
        if not found:
            return []
        time.sleep(0.1)
    return found


def make_history(rng, idx):
    h = c10.gen_history(rng, idx, ["x"])
    for c in h["cmds"][:-1]:
        if c["tool"] != "symlink" and not c["need"] and rng.random() < 0.3:
            c["need"] = "need_%s.txt" % c["name"]; c["inputs"].append(c["need"])
        if c["tool"] == "shell" and rng.random() < 0.35:
            c["slow"] = rng.choice(["0.03", "0.06"])
    FA = {}
    for b in h["builds"]:
        if b["fail"]:
            FA = dict(b["fail"]); break
    for c in h["cmds"]:
        if c["need"] and rng.random() < 0.7:
            FA[c["name"]] = ("missing-declared", 0)
    h["builds"] = [dict(fail=FA, edit=None), dict(fail={}, edit=h["sources"][0])]
    h["lanes"] = rng.choice([0, 0, 3])
    h["pre"] = rng.random() < 0.3          # a successful build before the cancelled one
    return h


def demo_history(idx, lanes):
    S_ = c10.S_
    cmds = [S_("c0", [], ["o_c0_0.out"], slow="0.05"), S_("c1", ["need_c1.txt", "o_c0_0.out", "src0.txt"], ["o_c1_0.out"], need="need_c1.txt"),
            S_("c2", ["o_c1_0.out"], ["o_c2_0.out"])]
    h = c10.corpus_history(idx, cmds, {"c1": ("missing-declared", 0)}, "x", "demo")
    h["builds"] = [dict(fail={"c1": ("missing-declared", 0)}, edit=None), dict(fail={}, edit="src0.txt")]
    h["lanes"] = lanes; h["pre"] = False
    return h


def prepare(S, h):
    shutil.rmtree(S, ignore_errors=True)
    os.makedirs(S)
    open(os.path.join(S, "build.llbuild"), "w").write(c10.description(h))


def clean_reference(h, llb):
    C = os.path.join(BASE, "clean%d" % h["idx"])
    prepare(C, h)
    c10.apply_state(C, h, 0, True)
    c10.apply_state(C, h, 1, False)
    rc, out, err = c10.robust(vlib.sh, [llb, "buildsystem", "build", "--serial", "--chdir", C], timeout=120)
    st = c10.final_state(C, h)
    shutil.rmtree(C, ignore_errors=True)
    return rc == 0, st


def reference_ncb(h, drv):
    """number of delegate callbacks of the (uncancelled) build that will be cancelled, and its duration"""
    S = os.path.join(BASE, "ref%d" % h["idx"])
    prepare(S, h)
    c10.apply_state(S, h, 0, True)
    p = open_frontend(drv, S, h["lanes"])
    t0 = time.time()
    r = parse(p.ask("fbuild - 0 - -"))
    dt = time.time() - t0
    p.close()
    shutil.rmtree(S, ignore_errors=True)
    return (r["ncb"] if r else 0), dt


def session(h, drv, n, variant, thread_us, clean, tag):
    """one history: [successful build] -> build cancelled at callback n (or from a thread) -> repair + edit -> build.
    returns (findings, info)"""
    S = os.path.join(BASE, "s%d_%s" % (h["idx"], tag))
    prepare(S, h)
    findings = []
    trace = []
    def rp(extra):
        d = dict(sandbox=S, lanes=h["lanes"], variant=variant, cancel_at_callback=n, cancel_from_thread_after_us=thread_us, preceded_by_successful_build=h["pre"],
                 description=c10.description(h), failing_in_cancelled_build=h["builds"][0]["fail"], trace=trace); d.update(extra); return d
    def add(key, what, extra=None):
        findings.append((key, what, rp(extra or {})))
    ever_ok = set()
    p = open_frontend(drv, S, h["lanes"])
    info = dict(cancelled=False, interrupted=False, builds=0)
    try:
        if h["pre"]:
            pre = dict(h); pre["builds"] = [dict(fail={}, edit=None)]
            c10.apply_state(S, pre, 0, True)
            a = p.ask("fbuild - 0 - -"); r0 = parse(a); info["builds"] += 1
            if a == "TIMEOUT" or r0 is None:
                add("bs-hang" if a == "TIMEOUT" else "bs-driver-died", "the first (uncancelled) build did not return"); p.close(kill=True); return findings, info
            trace.append(dict(build="pre", ok=r0["ok"], events=r0["events"]))
            ever_ok |= set(c for c, st in r0["status"].items() if st == 0)
            c10.apply_state(S, h, 0, False)
        else:
            c10.apply_state(S, h, 0, True)
        a = p.ask("fbuild %s %d %s -" % (n if n else "-", DELAY_US if n else 0, thread_us if thread_us is not None else "-"), timeout=60)
        r1 = parse(a); info["builds"] += 1
        if a == "TIMEOUT" or r1 is None:
            add("bs-hang" if a == "TIMEOUT" else "bs-driver-died", "the cancelled build did not return within 60 s (cancel at callback %s)" % n if a == "TIMEOUT" else "the driver died during the cancelled build", dict(answer=a))
            p.close(kill=True); return findings, info
        trace.append(dict(build="cancelled", ok=r1["ok"], cancelled=r1["cancelled"], callbacks=r1["ncb"], events=r1["events"]))
        info["cancelled"] = r1["cancelled"]
        info["interrupted"] = r1["cancelled"] and any(c["name"] not in r1["status"] for c in h["cmds"])
        ever_ok |= set(c for c, st in r1["status"].items() if st == 0)
        if r1["cancelled"] and n and r1["ok"]:
            add("bs-cancelled-build-reports-success", "build() returned success although cancel() was called from delegate callback %d of that build" % n)
        left = leftovers(S, {p.p.pid})
        if left:
            add("bs-process-left-running", "after the cancelled build returned, processes started by it are still running: %s" % left, dict(processes=left))
        # repair every cause, edit a source
        c10.apply_state(S, h, 1, False)
        if variant == "new":
            a = p.ask("close", timeout=30)
            m = re.match(r"late=(\d+)", a or "")
            if m and int(m.group(1)) > 0:
                add("bs-callback-after-return", "%s delegate callbacks were delivered after the cancelled build() had returned" % m.group(1))
            p.close()
            p = open_frontend(drv, S, h["lanes"])
        a = p.ask("fbuild - 0 - -", timeout=60); r2 = parse(a); info["builds"] += 1
        if a == "TIMEOUT" or r2 is None:
            add("bs-hang" if a == "TIMEOUT" else "bs-driver-died", "the build after the cancelled one did not return", dict(answer=a)); p.close(kill=True); return findings, info
        trace.append(dict(build="next", ok=r2["ok"], failures=r2["failures"], events=r2["events"]))
        if variant == "same" and r2["late"] > 0:
            add("bs-callback-after-return", "%d delegate callbacks were delivered after the cancelled build() had returned" % r2["late"])
        clean_ok, clean_state = clean
        if clean_ok:
            if r2["missing"]:
                add("bs-next-build-skips-for-stale-missing-input", "the %s after a cancelled build refuses commands for missing inputs (%s) although every declared input exists now" % (
                    "next build on the same frontend" if variant == "same" else "next build in a new process over the same database", r2["missing"]))
            elif not r2["ok"]:
                add("bs-next-build-fails", "the build after a cancelled one (%s) fails although a clean build of the same description and sources succeeds" % variant)
            else:
                need = set(c["name"] for c in h["cmds"]) - ever_ok
                if not need <= r2["started"]:
                    add("bs-next-build-skips-needed", "the build after a cancelled one (%s) does not run %s, which never completed" % (variant, sorted(need - r2["started"])))
                st = c10.final_state(S, h)
                if st != clean_state:
                    diff = {k: (st.get(k), clean_state.get(k)) for k in clean_state if st.get(k) != clean_state.get(k)}
                    add("bs-next-build-not-clean", "after a cancelled build and a repair the outputs differ from a clean build (%s): %s" % (variant, sorted(diff)), dict(differences=diff))
        a = p.ask("close", timeout=30)
        m = re.match(r"late=(\d+)", a or "")
        if m and int(m.group(1)) > 0:
            add("bs-callback-after-return", "%s delegate callbacks were delivered after build() had returned" % m.group(1))
        p.close()
    except Exception:
        p.close(kill=True)
        raise
    if not findings:
        shutil.rmtree(S, ignore_errors=True)
    return findings, info


def stray_cancel_session(h, drv, when, clean, tag):
    """cancel() arrives while NO build is running (before the first build, or between two builds) on a frontend that is
    then reused: at most the next build may be refused; the one after it must succeed and equal a clean build."""
    S = os.path.join(BASE, "s%d_%s" % (h["idx"], tag))
    prepare(S, h)
    c10.apply_state(S, h, 0, True)
    c10.apply_state(S, h, 1, False)           # nothing fails: the repaired state
    findings, trace = [], []
    def add(key, what, extra=None):
        d = dict(sandbox=S, lanes=h["lanes"], stray_cancel=when, description=c10.description(h), trace=trace); d.update(extra or {})
        findings.append((key, what, d))
    p = open_frontend(drv, S, h["lanes"])
    info = dict(cancelled=False, interrupted=False, builds=0)
    try:
        if when == "between":
            a = p.ask("fbuild - 0 - -"); r = parse(a); info["builds"] += 1
            if r is None:
                add("bs-hang" if a == "TIMEOUT" else "bs-driver-died", "the first build did not return"); p.close(kill=True); return findings, info
            trace.append(dict(build="first", ok=r["ok"], events=r["events"]))
            if not r["ok"] and clean[0]:
                add("bs-next-build-fails", "a plain first build fails although a clean build succeeds")
        a = p.ask("fcancel", timeout=30)
        trace.append(dict(stray_cancel=a))
        last = None
        for i in (1, 2):
            a = p.ask("fbuild - 0 - -"); r = parse(a); info["builds"] += 1
            if r is None:
                add("bs-hang" if a == "TIMEOUT" else "bs-driver-died", "build %d after a stray cancel did not return" % i); p.close(kill=True); return findings, info
            trace.append(dict(build="after-cancel-%d" % i, ok=r["ok"], failures=r["failures"], events=r["events"]))
            last = r
        st = c10.final_state(S, h)
        if clean[0] and (not last["ok"] or st != clean[1]):
            add("bs-stray-cancel-sticks", "cancel() was requested while no build was running (%s); the SECOND build after it on the same frontend %s: the stray cancel is never cleared"
                % ("before the first build" if when == "before" else "between two builds", "still fails" if not last["ok"] else "leaves outputs that differ from a clean build"))
        p.ask("close", timeout=30); p.close()
    except Exception:
        p.close(kill=True); raise
    if not findings:
        shutil.rmtree(S, ignore_errors=True)
    return findings, info


def bs_cancel_part(chk, budget_s=None):
    budget = budget_s if budget_s is not None else chk.n(32, 600)
    drv = vlib.build_drivers(["bsys_driver"])["bsys_driver"]
    llb = vlib.llbuild_bin()
    t0 = time.time()          # the budget covers the sessions, not a rebuild of the tree
    shutil.rmtree(BASE, ignore_errors=True)
    os.makedirs(BASE)
    rng = random.Random(chk.rng.random())
    hs = [demo_history(1, 0), demo_history(2, 2)] + [make_history(rng, 10 + i) for i in range(chk.n(5, 40))]
    jobs = []
    total = dict(sessions=0, builds=0, cancelled=0, interrupted=0, points=0)
    for hi, h in enumerate(hs):
        if time.time() - t0 > budget * 0.5 and hi >= 3:
            chk.notes["bs_histories_cut_short_by_wall_time"] = "%d of %d" % (hi, len(hs)); break
        clean = clean_reference(h, llb)
        ncb, dt = reference_ncb(h, drv)
        total["points"] += ncb
        demo = h["idx"] < 10
        if demo or not chk.quick():
            ns = list(range(1, ncb + 1))
        else:
            ns = sorted(rng.sample(range(1, ncb + 1), min(ncb, 7)))
        for n in ns:
            for variant in (("same", "new") if (demo or not chk.quick() or rng.random() < 0.35) else ("same",)):
                jobs.append((h, n, variant, None, clean, "n%d%s" % (n, variant)))
        for k in range(chk.n(2, 6)):
            us = int(rng.random() * dt * 1e6)
            jobs.append((h, 0, "new", us, clean, "t%d" % k))
        if demo or hi < 5 or not chk.quick():
            for when in ("before", "between"):
                jobs.append((h, "stray", when, None, clean, "stray-" + when))
    results = []
    def run_job(j):
        if time.time() - t0 > budget:
            return None
        if j[1] == "stray":
            return stray_cancel_session(j[0], drv, j[2], j[4], j[5])
        return session(j[0], drv, j[1], j[2], j[3], j[4], j[5])
    with ThreadPoolExecutor(max_workers=4) as ex:
        results = list(ex.map(run_job, jobs))
    skipped = sum(1 for r in results if r is None)
    for j, r in zip(jobs, results):
        if r is None:
            continue
        findings, info = r
        total["sessions"] += 1; total["builds"] += info["builds"]
        total["cancelled"] += 1 if info["cancelled"] else 0
        total["interrupted"] += 1 if info["interrupted"] else 0
        chk.count(("bs", j[0]["idx"], j[1], j[2], j[3]) if info["interrupted"] else None, n=info["builds"])
        for (key, what, rp) in findings:
            chk.violation(key, what, rp, found_input=True, broken="c05 oracle at the build-system level (BuildSystemFrontend)")
    if skipped:
        chk.notes["bs_sessions_skipped_for_wall_time"] = skipped
    chk.cov["bs_cancel"] = dict(descriptions=len(hs), sessions=total["sessions"], builds=total["builds"], cancel_requested=total["cancelled"],
                                really_interrupted=total["interrupted"], callback_indices_available=total["points"], wall_s=round(time.time() - t0, 1),
                                rule="each session: [optional successful build] -> build cancelled from inside its n-th delegate callback (or from another thread after t us) -> "
                                     "repair all causes + edit a source -> build again on the same BuildSystemFrontend or on a new one in a new process over the same database; "
                                     "two fixed descriptions swept over every callback index, generated ones sampled (quick) or swept (thorough)")
    chk.sample(dict(kind="bs-cancel", description="c0 (slow) -> o_c0_0.out; c1 inputs [need_c1.txt (missing), o_c0_0.out]; cancelled while c1 waits for c0; then need_c1.txt is created",
                    sessions=total["sessions"], really_interrupted=total["interrupted"]))
