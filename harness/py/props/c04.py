# C04 - killing the process at any instant leaves a usable, consistent database
#
# (a) proof gate: coq/Props/Properties_C04.v over the operation-trace model coq/Engine/Crash.v
# (b) fault enumeration on the real thing: engine_driver (real core::BuildEngine + SQLiteBuildDB + libsqlite3) is run under
#     the LD_PRELOAD shim harness/cpp/crash_shim.c, which _exit()s the process immediately before the N-th system call that
#     touches build.db / build.db-journal / -wal, for N = 1..total.  After every kill:
#       (i)   the file opens with Python's sqlite3 (integrity_check, hot journal rolled back) and with a fresh engine process
#       (ii)  its contents satisfy DbInv (computed here from the tables, independent of the Coq model) and are EXACTLY the
#             pre-build or EXACTLY the post-build contents of the uncrashed reference run; pre -> post is monotone in N
#       (iii) the history continues in a new process on that file (after "as if by the interrupted build" mutations):
#             every build result equals the fresh-engine value
#     tie to the Coq model: the reference run's per-build dumps become a dbop trace; the extracted model must find it
#     well-formed and `recover` of the prefix that corresponds to N must equal the observed state.
import os, json, shutil, sqlite3, struct
import vlib, enginelib

AREA = "crash"
WD = os.path.join(vlib.WORK, "crash")
RUN = os.path.join(WD, "r%d" % os.getpid())          # scratch of this run (removed at the end)
SHIM_SRC = os.path.join(vlib.ROOT, "harness", "cpp", "crash_shim.c")
SHIM = os.path.join(WD, "libcrashshim.so")
DBFILES = ("build.db", "build.db-journal", "build.db-wal", "build.db-shm")


# ------------------------------------------------------------------ shim

def build_shim():
    os.makedirs(WD, exist_ok=True)
    tmp = SHIM + ".%d.tmp" % os.getpid()
    rc, out, err = vlib.sh(["cc", "-shared", "-fPIC", "-O1", SHIM_SRC, "-o", tmp, "-ldl"], timeout=120)
    if rc != 0:
        raise vlib.BuildError("crash shim does not compile:\n%s\n%s" % (out[-2000:], err[-2000:]))
    os.replace(tmp, SHIM)
    return SHIM


def shim_env(crash_at, count_file=None, log_file=None, nosync=False):
    env = dict(os.environ)
    env["LD_PRELOAD"] = SHIM
    env["CRASH_AT"] = str(crash_at)
    env["CRASH_NOSYNC"] = "1" if nosync else "0"
    if count_file:
        env["CRASH_COUNT_FILE"] = count_file
    if log_file:
        env["CRASH_LOG_FILE"] = log_file
    return env


# ------------------------------------------------------------------ files

def clear_db(d):
    for f in DBFILES:
        try:
            os.unlink(os.path.join(d, f))
        except OSError:
            pass


def save_db(d, tag):
    """snapshot the database files of directory d under d/<tag>.*"""
    for f in DBFILES:
        s, t = os.path.join(d, f), os.path.join(d, tag + "." + f)
        if os.path.exists(s):
            shutil.copyfile(s, t)
        elif os.path.exists(t):
            os.unlink(t)


def restore_db(d, tag, to=None):
    to = to or d
    os.makedirs(to, exist_ok=True)
    clear_db(to)
    for f in DBFILES:
        s = os.path.join(d, tag + "." + f)
        if os.path.exists(s):
            shutil.copyfile(s, os.path.join(to, f))


def copy_db(d, to):
    os.makedirs(to, exist_ok=True)
    clear_db(to)
    for f in DBFILES:
        s = os.path.join(d, f)
        if os.path.exists(s):
            shutil.copyfile(s, os.path.join(to, f))


# ------------------------------------------------------------------ independent read of the database (what dump_db of engine_driver.cpp prints)

def kid(name):
    if isinstance(name, bytes):
        name = name.decode("latin-1")
    if isinstance(name, str) and len(name) > 1 and name[0] == "k" and name[1:].isdigit():
        return int(name[1:])
    return -1


def vstr(blob):
    if blob is None or len(blob) == 0:
        return "EMPTY"
    if len(blob) != 16:
        return "BAD%d" % len(blob)
    p, s = struct.unpack("<QQ", blob)
    return "%d.%d" % (p, s)


def read_db(path):
    """-> dict(ok, problems=[...], integrity, schema, iteration, info, keys=[(id, name)], rows=[dict], lines=[dbrow..., dbepoch])
    A missing / zero-length / table-less file is the empty database (iteration 0, nothing stored): that is what
    SQLiteBuildDB::open() makes of it (version -1 -> recreate)."""
    res = dict(ok=True, problems=[], integrity=None, schema=False, iteration=0, info=None, keys=[], rows=[], lines=[])
    if not os.path.exists(path):
        res["lines"] = []
        return res
    try:
        con = sqlite3.connect(path, timeout=5)
        con.text_factory = bytes
        ic = con.execute("PRAGMA integrity_check").fetchall()
        res["integrity"] = [x[0].decode() if isinstance(x[0], bytes) else x[0] for x in ic]
        if res["integrity"] != ["ok"]:
            res["ok"] = False
            res["problems"].append("integrity_check: %s" % res["integrity"][:3])
        tables = set((r[0].decode() if isinstance(r[0], bytes) else r[0]) for r in con.execute("SELECT name FROM sqlite_master WHERE type='table'"))
        if not tables:
            con.close()
            return res
        missing = {"info", "key_names", "rule_results"} - tables
        if missing:
            res["ok"] = False
            res["problems"].append("tables missing: %s" % sorted(missing))
            con.close()
            return res
        res["schema"] = True
        fk = con.execute("PRAGMA foreign_key_check").fetchall()
        if fk:
            res["problems"].append("foreign_key_check: %d dangling references" % len(fk))
        info = con.execute("SELECT id, version, client_version, iteration FROM info").fetchall()
        res["info"] = [tuple(r) for r in info]
        if len(info) != 1:
            res["ok"] = False
            res["problems"].append("info table has %d rows" % len(info))
        else:
            res["iteration"] = info[0][3]
        res["keys"] = [(r[0], r[1]) for r in con.execute("SELECT id, key FROM key_names ORDER BY id")]
        names = dict(res["keys"])
        for (key_id, value, sig, built, computed, deps) in con.execute(
                "SELECT key_id, value, signature, built_at, computed_at, dependencies FROM rule_results ORDER BY key_id"):
            deps = deps or b""
            dl = []
            for i in range(0, len(deps) - len(deps) % 8, 8):
                (x,) = struct.unpack("<Q", deps[i:i + 8])
                dl.append((x >> 2, x & 3))
            res["rows"].append(dict(key_id=key_id, value=bytes(value or b""), sig=sig & (2**64 - 1), built=built, computed=computed,
                                    deps=dl, trailing=len(deps) % 8))
        con.close()
    except sqlite3.Error as e:
        res["ok"] = False
        res["problems"].append("sqlite3: %s" % e)
        return res
    rows = []
    for r in res["rows"]:
        l = "dbrow %08d %s %d %d %d" % (kid(names.get(r["key_id"], b"")), vstr(r["value"]), r["sig"], r["computed"], r["built"])
        for (d, fl) in r["deps"]:
            l += " %s:%d" % (str(kid(names[d])) if d in names else "?", fl)
        if r["trailing"]:
            l += " TRAILING-BYTES"
        rows.append(l)
    rows.sort()
    res["lines"] = ["dbrow %d%s" % (int(l[6:14]), l[14:]) for l in rows] + ["dbepoch %d" % res["iteration"]]
    return res


def db_inv(db):
    """The three clauses of DbInv computed directly on the tables -> list of (finding key, text)."""
    bad = []
    ids = set(i for (i, n) in db["keys"])
    it = db["iteration"]
    for r in db["rows"]:
        if r["built"] > it or r["computed"] > it:
            bad.append(("db-inv-epoch", "stored iteration %d is smaller than the epochs of the row of key id %d (builtAt %d, computedAt %d)" % (it, r["key_id"], r["built"], r["computed"])))
        if r["key_id"] not in ids:
            bad.append(("db-inv-dangling-row", "rule_results row with key id %d has no key_names entry" % r["key_id"]))
        for (d, fl) in r["deps"]:
            if d not in ids:
                bad.append(("db-inv-dangling-dep", "row of key id %d lists dependency id %d which is not in key_names" % (r["key_id"], d)))
        if r["trailing"]:
            bad.append(("db-inv-torn-deps", "dependency blob of key id %d has %d trailing bytes" % (r["key_id"], r["trailing"])))
    return bad


def contents(db):
    """everything a later process can read, timestamps excluded (they are wall-clock)"""
    return (db["iteration"], tuple(db["keys"]), tuple((r["key_id"], r["value"], r["sig"], r["built"], r["computed"], tuple(r["deps"])) for r in db["rows"]))


def state_str(db):
    """canonical state in the format of ocaml/vmodel_crash.ml"""
    names = dict(db["keys"])
    ks = sorted(kid(n) for (i, n) in db["keys"])
    rows = []
    for r in db["rows"]:
        v = vstr(r["value"])
        deps = ",".join("%d:%d" % (kid(names.get(d, b"")), fl) for (d, fl) in r["deps"]) or "-"
        rows.append((kid(names.get(r["key_id"], b"")), "%d=%s=%d=%d=%d=%s" % (kid(names.get(r["key_id"], b"")), "E" if v == "EMPTY" else v, r["sig"], r["computed"], r["built"], deps)))
    rows.sort()
    return "iter=%d keys=%s rows=%s" % (db["iteration"], ",".join(map(str, ks)) or "-", ";".join(x[1] for x in rows) or "-")


# ------------------------------------------------------------------ histories

def gen_big_rules(rng):
    """60+ rules with long dependency lists: one commit spans many pages / write calls."""
    ni = rng.randint(4, 6)
    n = rng.randint(62, 76)
    rules = {i: dict(sig=0, obs=1) for i in range(ni)}
    for i in range(ni, n):
        lower = list(range(i))
        req = rng.sample(lower, min(len(lower), rng.randint(12, 40)))
        r = dict(sig=rng.randint(0, 3), obs=1 if rng.random() < 0.1 else 0, req=req)
        rest = [x for x in lower if x not in req]
        if rest and rng.random() < 0.3:
            r["follow"] = rng.sample(rest, min(len(rest), rng.randint(1, 4)))
            rest = [x for x in rest if x not in r["follow"]]
        di = [x for x in range(ni) if x in rest]
        if di and rng.random() < 0.2:
            r["disc"] = rng.sample(di, 1)
        rules[i] = r
    return ni, n, rules


def gen_hist(rng, big=False, sched=None):
    """-> list of scenario lines (without the db line): rules, sets, then operations; ends with a build."""
    if not big:
        L = enginelib.gen_history(rng, usedb=True, nops=(4, 11), sched=sched)
        return add_failures(rng, [l for l in L if not l.startswith("db ")])[0]
    ni, n, rules = gen_big_rules(rng)
    L = [enginelib.rule_line(k, rules[k]) for k in sorted(rules)]
    obs = [k for k in rules if rules[k].get("obs")]
    for k in obs:
        L.append("set %d %d" % (k, rng.randint(0, 5)))
    L.append("build %d" % (n - 1))
    for _ in range(rng.randint(2, 3)):
        for k in rng.sample(obs, rng.randint(1, 3)):
            L.append("set %d %d" % (k, rng.randint(0, 5)))
        if rng.random() < 0.4:
            L.append("restart")
        L.append("build %d%s" % (rng.choice([n - 1, n - 2, n - 3]), (" sched=" + sched(rng)) if sched else ""))
    return add_failures(rng, L, big=True)[0]


def gen_wide(rng):
    """A WIDE history: in <- mid <- f0..f(nf-1) <- top with nf >= 600, so that ONE build stores more than 600 results
    (anything that commits "every so many results" shows up as a second commit point inside the build)."""
    nf = rng.randint(600, 640)
    top = nf + 2
    L = ["rule 0 sig=0 obs=1", "rule 1 sig=1 obs=0 req=0"]
    for i in range(2, nf + 2):
        L.append("rule %d sig=%d obs=0 req=1" % (i, i % 4))
    L.append("rule %d sig=2 obs=0 req=%s" % (top, ",".join(str(i) for i in range(2, nf + 2))))
    L += ["set 0 1", "build %d" % top, "set 0 2", "build %d" % top, "set 0 3", "build %d" % rng.choice([top, nf, 1])]
    return L


def commit_points(calls):
    """calls of the log that end a rollback-journal transaction (the journal is removed / truncated / renamed)"""
    return [int(c[0]) for c in calls if c[2] == "journal" and c[1] in ("unlink", "unlinkat", "ftruncate", "rename")]


def is_cancel_line(l):
    return l.startswith("build ") and " cancel=" in l


def add_failures(rng, L, big=False):
    """Cancelled builds (cancelBuild() from inside the n-th task callback / at the n-th engine loop iteration) and cycle-failed
    builds (two extra rules that request each other behind some ordinary keys) as ordinary history steps.
    -> (lines, cycle key or None)"""
    keys = [int(l.split(" ")[1]) for l in L if l.startswith("rule ")]
    n = max(keys) + 1
    first_op = min(i for i, l in enumerate(L) if not l.startswith(("rule ", "name ")))
    cyc = None
    out = list(L)
    if rng.random() < (0.7 if not big else 1.0):
        lower = sorted(set(keys))
        a = rng.sample(lower, min(len(lower), rng.randint(1, 3) if not big else rng.randint(8, 20)))
        cyc = n
        out[first_op:first_op] = ["rule %d sig=0 obs=0 req=%s,%d" % (n, ",".join(map(str, a)), n + 1),
                                  "rule %d sig=0 obs=0 req=%d" % (n + 1, n)]
    res = []
    nb = sum(1 for l in out if l.startswith("build "))
    seen = 0
    forced = rng.randrange(max(1, nb - 1))
    for l in out:
        if l.startswith("build "):
            last = seen == nb - 1
            if cyc is not None and not last and rng.random() < 0.25:
                res.append("build %d" % cyc)
            if (seen == forced or rng.random() < 0.25) and not (last and nb > 1):
                # where exactly the cancellation is delivered is decided by place_cancels (calibrated on the real engine so that
                # the cancelled build has stored at least one result), except for a few blind ones
                spec = "cancel=?" if (seen == forced or rng.random() < 0.6) else ("cancel=cb:%d" % rng.randint(0, 25) if rng.random() < 0.5 else "cancel=iter:%d" % rng.randint(0, 20))
                l = l + ("" if " sched=" in l else " sched=sync") + " " + spec
            seen += 1
        res.append(l)
    if cyc is not None and not any(x == "build %d" % cyc for x in res):
        pos = [i for i, x in enumerate(res) if x.startswith("build ")]
        res.insert(pos[rng.randrange(len(pos))], "build %d" % cyc)
    return res, cyc


def stored_in_build(b):
    """rows of the dump that carry the epoch of this build"""
    return sum(1 for l in b["db"] if l.startswith("dbrow ") and b["epoch"] is not None and int(l.split(" ")[5]) == b["epoch"])


def place_cancels(rng, drv, hist, name):
    """Replace every `cancel=?` by a cancel=cb:<n> / cancel=iter:<n> that, on the real engine, is delivered after at least one
    task of that build has completed AND been stored but before the build is over (so the cancelled build commits results:
    the interesting case for the epoch write).  Calibrated build by build, earlier cancellations already in place."""
    d = os.path.join(RUN, name + "_cal")
    hist = list(hist)
    while True:
        todo = [i for i, l in enumerate(hist) if l.endswith(" cancel=?")]
        if not todo:
            break
        i = todo[0]
        base = hist[i][:-len(" cancel=?")]
        rc, out, err, sp, tp = enginelib.run_impl(drv, ["db 1"] + hist[:i] + [base], d, name="cal")
        bs = [b for b in enginelib.split_builds(out) if b["key"] is not None]
        chosen = None
        if rc == 0 and bs:
            types = [l.split(" ")[0] for l in bs[-1]["events"]]
            comp = [p for p, t in enumerate(types) if t == "complete"]
            if len(comp) >= 2:
                cbpos = [p for p, t in enumerate(types) if t in ("start", "prior", "provide", "avail")]
                cands = [j for j, p in enumerate(cbpos) if comp[0] < p < comp[-1]]
                rng.shuffle(cands)
                specs = ["cancel=cb:%d" % j for j in cands[:4]]
                if rng.random() < 0.4:
                    specs = ["cancel=iter:%d" % rng.randint(2, 40) for _ in range(2)] + specs
                for spec in specs:
                    rc2, out2, err2, sp2, tp2 = enginelib.run_impl(drv, ["db 1"] + hist[:i] + [base + " " + spec], d, name="cal")
                    b2 = [b for b in enginelib.split_builds(out2) if b["key"] is not None]
                    if rc2 == 0 and b2 and (b2[-1]["result"] or "").endswith(" cancelled") and stored_in_build(b2[-1]) >= 1:
                        chosen = spec
                        break
        hist[i] = base + (" " + chosen if chosen else "")
    shutil.rmtree(d, ignore_errors=True)
    return hist


def build_indices(lines):
    return [i for i, l in enumerate(lines) if l.startswith("build ")]


def carry(lines):
    """what a NEW process must be told to be in the state reached by `lines`: rule definitions and external state"""
    return [l for l in lines if l.startswith(("rule ", "set ", "name "))]


def obs_keys(lines):
    out = []
    for l in lines:
        if l.startswith("rule ") and " obs=1" in l:
            k = int(l.split(" ")[1])
            if k not in out:
                out.append(k)
    return out


def with_fresh(lines):
    out = []
    for l in lines:
        out.append(l)
        if l.startswith("build "):
            out.append("fresh %s" % l.split(" ")[1])
    return out


def continuation_lines(rng, hist, bi):
    """mutations 'as if by the interrupted build', the rest of the history, and extra mutations/builds"""
    idx = build_indices(hist)
    pos = idx[bi]
    obs = obs_keys(hist)
    L = []
    for k in rng.sample(obs, min(len(obs), rng.randint(0, 2))):
        L.append("set %d %d" % (k, rng.randint(0, 5)))
    target = hist[pos].split(" ")[1]
    r = rng.random()
    if r < 0.5:
        L.append("build %s" % target)           # the interrupted build is simply repeated
    L += [l for l in hist[pos + 1:]]
    for _ in range(rng.randint(1, 2)):
        for k in rng.sample(obs, min(len(obs), rng.randint(0, 2))):
            L.append("set %d %d" % (k, rng.randint(0, 5)))
        L.append("build %s" % rng.choice([target] + [l.split(" ")[1] for l in hist if l.startswith("build ")]))
    return L


# ------------------------------------------------------------------ oracles on driver output

def disc_of(lines):
    d = {}
    for l in lines:
        if l.startswith("rule "):
            t = l.split(" ")
            d[int(t[1])] = [int(x) for f in t[2:] if f.startswith("disc=") for x in f[5:].split(",") if x]
    return d


def aborted(b):
    """the build was cancelled or failed on a cycle"""
    return (b["result"] or "").endswith(" cancelled") or any(x.startswith("cycle") for x in b["other"]) or \
        any("cancel-sent" in x for x in b["other"])


def window_suspects(out, scen):
    """The known C05 finding (KNOWN_FINDINGS: discovered-window): a task that completed in an aborted build while one of its
    discovered dependencies was never looked at in that build is persisted anyway; later builds may keep its stale value.
    Not a C04 matter: such staleness is noted, not reported."""
    disc = disc_of(scen)
    sus = []
    for b in enginelib.split_builds(out):
        if b["key"] is None or not aborted(b):
            continue
        seen = set(int(l.split(" ")[1]) for l in b["events"] if l.split(" ")[0] in ("valid", "need", "create"))
        for l in b["events"]:
            t = l.split(" ")
            if t[0] == "complete":
                for d in disc.get(int(t[1]), []):
                    if d not in seen:
                        sus.append((int(t[1]), d))
    return sus


def check_outputs(lines):
    """fresh-engine oracle + error lines of a driver run -> list of (key, text); a cancelled build has no result to compare"""
    bad = []
    last = None
    for l in lines:
        t = l.split(" ")
        if t[0] == "build":
            last = dict(hdr=l, result=None, cancelled=False)
        elif t[0] == "result" and last is not None:
            last["result"] = t[1]
            last["cancelled"] = len(t) > 2
        elif t[0] == "fresh" and last is not None:
            if not last["cancelled"] and last["result"] != t[2]:
                bad.append(("stale-result", "%s returned %s, a fresh engine on the same rules and external state returns %s" % (last["hdr"], last["result"], t[2])))
        elif t[0] in ("attach-error", "dberror") or (t[0] == "error") or l.startswith("LATE-CALLBACK"):
            bad.append(("db-unusable", "the engine reported: %s" % l[:300]))
    return bad


def report_uncrashed(chk, out, scen, where, rp, window=False):
    """all oracles over the output of a process that was NOT killed: fresh-engine oracle, engine errors, and after EVERY build
    the invariant on the driver's independent dump and the provenance of the rows stamped by that build"""
    window = window or bool(window_suspects(out, scen))
    for key, what in check_outputs(out):
        if key == "stale-result" and window:
            chk.notes["stale_in_discovered_window_C05_known"] = chk.notes.get("stale_in_discovered_window_C05_known", 0) + 1
            continue
        chk.violation("stale-result-uncrashed" if key == "stale-result" else key, "%s: %s" % (where, what), rp)
    for b in enginelib.split_builds(out):
        if b["key"] is None:
            continue
        for key, what in dump_inv(b["db"], b["epoch"]) + provenance_check(b):
            chk.violation(key, "%s, after %s (no kill involved): %s" % (where, b["hdr"], what), dict(rp, build=b["hdr"], dump=b["db"][:60]))
    return window


def dump_lines_of(build):
    return list(build["db"])


def dump_inv(lines, engine_epoch=None):
    """DbInv on a dbrow/dbepoch dump printed by the driver (its own read-only connection)"""
    bad = []
    ep = None
    for l in lines:
        if l.startswith("dbepoch "):
            ep = int(l.split(" ")[1])
    for l in lines:
        t = l.split(" ")
        if t[0] != "dbrow":
            continue
        if ep is None or int(t[4]) > ep or int(t[5]) > ep:
            bad.append(("db-inv-epoch", "committed row %r under stored iteration %s%s" % (l, ep, "" if engine_epoch is None else " (the engine was at epoch %s)" % engine_epoch)))
        if any(x.startswith("?") for x in t[6:]) or t[1] == "-1":
            bad.append(("db-inv-dangling-dep", "committed row %r refers to a key that is not stored" % l))
    return bad


def provenance_check(build):
    """clause 3 on an uncrashed build: every row stamped with this build's epoch carries the value the task completed with
    and the dependency list the engine recorded for that same execution"""
    bad = []
    ep = build.get("epoch")
    if ep is None:
        for l in build["db"]:
            if l.startswith("dbepoch "):
                ep = int(l.split(" ")[1])
    nodeps = any(l.startswith("deps-unavailable") for l in build["other"])     # the driver could not parse the engine's graph dump
    completed = {}
    for l in build["events"]:
        t = l.split(" ")
        if t[0] == "complete":
            completed[int(t[1])] = t[2]
    stored = {}
    for l in build["db"]:
        t = l.split(" ")
        if t[0] == "dbrow":
            stored[int(t[1])] = t
    for k, t in stored.items():
        if int(t[5]) == ep:
            if k not in completed:
                bad.append(("provenance", "row of key %d is stamped with epoch %d but no task for it completed in that build" % (k, ep)))
            elif completed[k] != t[2]:
                bad.append(("provenance", "row of key %d holds %s, its task completed with %s" % (k, t[2], completed[k])))
            deps = [int(x.split(":")[0]) if not x.startswith("?") else -1 for x in t[6:]]
            if not nodeps and build["deps"].get(k, []) != deps:
                bad.append(("provenance", "row of key %d stores dependencies %s, the engine recorded %s for that execution" % (k, deps, build["deps"].get(k, []))))
    for k in completed:
        if aborted(build):
            break       # a task may call complete() after the cancellation; the engine then drops it (only the other direction holds)
        if k not in stored or int(stored[k][5]) != ep:
            bad.append(("provenance", "task %d completed in the build of epoch %s but its row is missing or carries another epoch" % (k, ep)))
    return bad


def ops_of_build(prev_lines, build):
    """the dbop trace (vmodel_crash.ml syntax) of one uncrashed build, from its dump and the dump before it"""
    prev = set(l for l in prev_lines if l.startswith("dbrow "))
    ep = None
    rows = {}
    for l in build["db"]:
        t = l.split(" ")
        if t[0] == "dbepoch":
            ep = int(t[1])
        elif t[0] == "dbrow":
            rows[int(t[1])] = (l, t)
    order = [int(l.split(" ")[1]) for l in build["events"] if l.startswith("complete ")]
    changed = [k for k in order if k in rows and rows[k][0] not in prev]
    changed += sorted(k for k in rows if rows[k][0] not in prev and k not in changed)
    ops = ["B"]
    for k in changed:
        t = rows[k][1]
        ops.append("K%d" % k)
        deps = []
        for x in t[6:]:
            d, fl = x.split(":")
            ops.append("K%s" % d)
            deps.append("%s:%s" % (d, fl))
        ops.append("R%d=%s=%s=%s=%s=%s" % (k, "E" if t[2] == "EMPTY" else t[2], t[3], t[4], t[5], ",".join(deps) or "-"))
    ops += ["I%d" % ep, "C"]
    return ops


# ------------------------------------------------------------------ one (history, build) target

class Target:
    """history `hist`, the bi-th build of it is the one that gets killed"""

    def __init__(self, chk, drv, model, hist, bi, name):
        self.chk, self.drv, self.model, self.hist, self.bi, self.name = chk, drv, model, hist, bi, name
        self.d = os.path.join(RUN, name)
        shutil.rmtree(self.d, ignore_errors=True)
        os.makedirs(self.d)
        self.idx = build_indices(hist)
        self.pos = self.idx[bi]
        self.prefix = hist[:self.idx[bi - 1] + 1] if bi > 0 else []
        between = hist[(self.idx[bi - 1] + 1) if bi > 0 else 0:self.pos]
        self.crash_lines = ["db 2"] + carry(self.prefix) + [l for l in between if not l.startswith("restart")] + [hist[self.pos]]
        self.ok = False
        self.window = False          # an aborted build of this lineage falls under the known C05 discovered-window finding
        self.model_cache = {}

    def replay_base(self):
        return dict(history=self.hist, killed_build_index=self.bi, prefix_process=["db 1"] + self.prefix, crash_process=self.crash_lines,
                    shim="harness/cpp/crash_shim.c (LD_PRELOAD, CRASH_AT=N)")

    def prepare(self):
        """prefix process, reference run; -> False when the target cannot be used (reported)"""
        chk = self.chk
        d = self.d
        self.pre_dump = []
        self.traces = []
        if self.prefix:
            rc, out, err, sp, tp = enginelib.run_impl(self.drv, ["db 1"] + self.prefix, d, name="prefix")
            if rc != 0:
                chk.violation("driver-crash", "engine_driver failed on an uncrashed history prefix (rc %d)" % rc, dict(self.replay_base(), stderr=err[-1500:]))
                return False
            builds = [b for b in enginelib.split_builds(out) if b["key"] is not None]
            self.window = report_uncrashed(chk, out, self.prefix, "uncrashed history prefix", self.replay_base())
            prev = []
            for b in builds:
                self.traces.append(ops_of_build(prev, b))
                prev = b["db"]
            self.pre_dump = list(prev)
        else:
            clear_db(d)
        save_db(d, "pre")
        self.pre = read_db(os.path.join(d, "build.db"))
        # reference run of the build that will be killed, under the shim in counting mode
        cf, lf = os.path.join(d, "count.txt"), os.path.join(d, "calls.txt")
        for f in (cf, lf):
            if os.path.exists(f):
                os.unlink(f)
        rc, out, err, sp, tp = enginelib.run_impl(self.drv, self.crash_lines, d, keepdb=True, name="reference", env=shim_env(0, cf, lf))
        if rc != 0 or not os.path.exists(cf):
            chk.violation("driver-crash", "engine_driver failed on the uncrashed reference run (rc %d)" % rc, dict(self.replay_base(), stderr=err[-1500:]))
            return False
        self.total = int(open(cf).read().strip() or 0)
        self.calls = [l.split(" ") for l in open(lf).read().splitlines()]
        builds = [b for b in enginelib.split_builds(out) if b["key"] is not None]
        self.ref_build = builds[-1]
        self.window = report_uncrashed(chk, out, self.crash_lines, "uncrashed reference run of the build to be killed", self.replay_base(), self.window)
        self.post_dump = list(self.ref_build["db"])
        save_db(d, "post")
        self.post = read_db(os.path.join(d, "build.db"))
        for nm, db, dump in (("pre", self.pre, self.pre_dump), ("post", self.post, self.post_dump)):
            if not db["ok"]:
                chk.violation("db-unusable", "the %s-build database of an UNCRASHED run does not read back: %s" % (nm, db["problems"]), self.replay_base())
                return False
            if db["lines"] != dump and not (nm == "pre" and not dump and not db["rows"]):
                chk.violation("dump-mismatch", "Python's read of the %s-build database differs from engine_driver's dump_db" % nm,
                              dict(self.replay_base(), python=db["lines"][:20], driver=dump[:20]), found_input=False, broken="harness: read_db vs dump_db")
                return False
            for key, what in db_inv(db):
                chk.violation(key, "uncrashed %s-build database: %s" % (nm, what), dict(self.replay_base(), dump=db["lines"][:40]))
        if self.total == 0 or contents(self.pre) == contents(self.post):
            return False
        self.trace_i = ops_of_build(self.pre_dump, self.ref_build)
        self.trace_all = [o for t in self.traces for o in t] + self.trace_i
        self.len_prev = sum(len(t) for t in self.traces)
        # the model must accept the reference trace and reproduce both end states
        ts = ";".join(self.trace_all)
        wf = self.model.ask("wf " + ts)
        m_pre = self.model.ask("recover %d %s" % (self.len_prev, ts))
        m_post = self.model.ask("recover %d %s" % (len(self.trace_all), ts))
        if wf != "1" or m_pre != state_str(self.pre) + " inv=1" or m_post != state_str(self.post) + " inv=1":
            chk.violation("model-correspondence", "the Coq model (Engine/Crash.v) does not reproduce an UNCRASHED build: wf=%s" % wf,
                          dict(self.replay_base(), trace=ts[:4000], model_pre=m_pre[:1500], observed_pre=state_str(self.pre)[:1500],
                               model_post=m_post[:1500], observed_post=state_str(self.post)[:1500]),
                          found_input=False, broken="correspondence: Engine/Crash.v trace_of_build / apply_committed vs SQLiteBuildDB")
            return False
        # exactly ONE commit point per build: the call log of the uncrashed run must not remove the journal more often than
        # once per build (+ once for the creation of the schema when the file is new)
        cps = commit_points(self.calls)
        expected = 1 + (0 if self.pre["schema"] else 1)
        if len(cps) > expected:
            chk.violation("multiple-commit-points", "the uncrashed run of %s ends %d journal transactions (at calls %s) where one build%s allows %d: results become durable before the build's epoch does" % (
                self.hist[self.pos], len(cps), cps[:8], "" if self.pre["schema"] else " on a new file", expected),
                dict(self.replay_base(), calls=[" ".join(c) for c in self.calls if c[2] == "journal" and c[1] != "pwrite"][:60]),
                found_input=False, broken="single transaction per build (SQLiteBuildDB::buildStarted / buildComplete)")
        self.commit_at = None        # first N observed in post state
        self.last_pre = 0            # largest N observed in pre state
        self.ok = True
        return True

    # -- which kill points
    def boundaries(self):
        """N values in order of interest: first/last, around the removal of the journal (the commit point), around the sync
        calls and the first database write of each transaction, then around every other change of (syscall, file)"""
        first = [1, self.total, self.total + 1]
        commit, syncs, other = [], [], []
        prev = None
        for c in self.calls:
            n, sig = int(c[0]), (c[1], c[2])
            if c[2] == "journal" and c[1] in ("unlink", "unlinkat", "ftruncate", "rename"):
                commit += [n, n + 1, n - 1]
            elif sig != prev and (c[1] in ("fsync", "fdatasync") or (c[2] == "db" and c[1] in ("pwrite", "write"))):
                syncs += [n, n + 1]
            elif sig != prev:
                other += [n, n - 1]
            if c[2] == "db" and c[1] in ("pwrite", "write") and prev == sig:
                other.append(n)             # inside a multi-page commit
            prev = sig
        out = []
        for p in first + commit + syncs + other:
            if 1 <= p <= self.total + 1 and p not in out:
                out.append(p)
        return out

    def call_desc(self, n):
        if 1 <= n <= len(self.calls):
            c = self.calls[n - 1]
            return "%s(%s%s)" % (c[1], c[2], "" if c[3] == "-" else ", %s bytes%s" % (c[3], "" if c[4] == "-" else " at %s" % c[4]))
        return "process exit (no kill)"

    def model_state(self, n_ops):
        if n_ops not in self.model_cache:
            self.model_cache[n_ops] = self.model.ask("recover %d %s" % (n_ops, ";".join(self.trace_all)))
        return self.model_cache[n_ops]

    # -- one kill point
    def kill(self, N, cont_rng):
        """kill before the N-th database call; returns 'pre' | 'post' | 'other' | None (no verdict)"""
        chk, d = self.chk, self.d
        restore_db(d, "pre")
        rc, out, err, sp, tp = enginelib.run_impl(self.drv, self.crash_lines, d, keepdb=True, name="crash", env=shim_env(N))
        rp = dict(self.replay_base(), kill_before_call=N, call=self.call_desc(N), total_calls=self.total)
        if N <= self.total and rc != 77:
            chk.violation("kill-not-delivered", "the shim did not kill the process before call %d of %d (rc %d): the call sequence is not deterministic" % (N, self.total, rc),
                          dict(rp, stderr=err[-800:]), found_input=False, broken="harness: deterministic call numbering")
            return None
        if N > self.total and rc != 0:
            chk.violation("driver-crash", "engine_driver failed without a kill (rc %d)" % rc, dict(rp, stderr=err[-800:]))
            return None
        journal_left = os.path.exists(os.path.join(d, "build.db-journal"))
        self.journal_left = journal_left
        # (i)+(ii) independent read of a copy (so that the engine below meets the hot journal itself)
        pyd = os.path.join(d, "py")
        copy_db(d, pyd)
        db = read_db(os.path.join(pyd, "build.db"))
        verdict = "other"
        if not db["ok"]:
            chk.violation("db-unusable", "after a kill before call %d (%s) the database cannot be read: %s" % (N, self.call_desc(N), db["problems"]), rp)
        else:
            for key, what in db_inv(db):
                chk.violation(key, "after a kill before call %d (%s): %s" % (N, self.call_desc(N), what), dict(rp, dump=db["lines"][:60]))
            c = contents(db)
            if c == contents(self.pre):
                verdict = "pre"
            elif c == contents(self.post):
                verdict = "post"
            else:
                chk.violation("db-not-atomic", "after a kill before call %d (%s) the database is neither the pre-build nor the post-build snapshot" % (N, self.call_desc(N)),
                              dict(rp, found=db["lines"][:60], pre=self.pre["lines"][:60], post=self.post["lines"][:60]))
        if verdict == "pre":
            self.last_pre = max(self.last_pre, N)
        if verdict == "post" and (self.commit_at is None or N < self.commit_at):
            self.commit_at = N
        if self.commit_at is not None and self.last_pre > self.commit_at:
            chk.violation("db-nonmonotone", "a kill before call %d leaves the post-build state but a kill before the later call %d leaves the pre-build state" % (self.commit_at, self.last_pre), rp)
        # tie to the Coq model: monotone map from N to a prefix of the build's operation trace
        if verdict in ("pre", "post"):
            li = len(self.trace_i)
            if verdict == "post":
                n_ops = self.len_prev + li
            else:
                n_ops = self.len_prev + min(li - 1, (N - 1) * (li - 1) // max(1, self.total))
            m = self.model_state(n_ops)
            if m != state_str(db) + " inv=1":
                chk.violation("model-correspondence", "kill before call %d: observed state differs from the model's recover of the first %d operations" % (N, n_ops - self.len_prev),
                              dict(rp, model=m[:1500], observed=state_str(db)[:1500]), found_input=False, broken="correspondence: Engine/Crash.v recover vs SQLite")
            mi = self.model.ask("inv " + state_str(db))
            if mi != "1":
                chk.violation("model-correspondence", "kill before call %d: db_inv_b of the observed state is %s although the harness oracle accepts it" % (N, mi),
                              dict(rp, observed=state_str(db)[:1500]), found_input=False, broken="correspondence: db_inv_b vs harness DbInv")
        # (iii) the next process: attach, then the history goes on
        cont = continuation_lines(cont_rng, self.hist, self.bi)
        lines = ["db 2"] + carry(self.hist[:self.pos + 1]) + with_fresh(cont)
        rc2, out2, err2, sp2, tp2 = enginelib.run_impl(self.drv, lines, d, keepdb=True, name="continue")
        rp2 = dict(rp, state_after_kill=verdict, continuation_process=lines)
        if rc2 != 0:
            chk.violation("db-unusable", "the process continuing after a kill before call %d (%s) failed with rc %d" % (N, self.call_desc(N), rc2), dict(rp2, stderr=err2[-800:], stdout_tail=out2[-10:]))
        else:
            bad2 = check_outputs(out2)
            stale = [w for k, w in bad2 if k == "stale-result"]
            control = None
            if stale and verdict in ("pre", "post"):
                # is the kill to blame?  the same continuation on the uncrashed snapshot the file is equal to
                cd = os.path.join(d, "control")
                restore_db(d, verdict, to=cd)
                rc3, out3, err3, sp3, tp3 = enginelib.run_impl(self.drv, lines, cd, keepdb=True, name="control")
                control = [w for k, w in check_outputs(out3) if k == "stale-result"]
            for key, what in bad2:
                if key == "stale-result":
                    if control is not None and what in control:
                        if self.window or window_suspects(out2, lines):
                            chk.notes["stale_in_discovered_window_C05_known"] = chk.notes.get("stale_in_discovered_window_C05_known", 0) + 1
                        else:
                            chk.violation("stale-result-uncrashed", "the same continuation on the UNCRASHED %s-build database: %s" % (verdict, what), dict(rp2, note="no kill needed"))
                        continue
                    key = "stale-after-crash"
                chk.violation(key, "continuing after a kill before call %d (%s, database in %s-build state): %s" % (N, self.call_desc(N), verdict, what), rp2)
            nb = 0
            for b in enginelib.split_builds(out2):
                if b["key"] is None:
                    continue
                nb += 1
                for key, what in dump_inv(b["db"], b["epoch"]):
                    chk.violation(key, "continuing after a kill before call %d, after %s: %s" % (N, b["hdr"], what), rp2)
            if nb == 0:
                chk.violation("db-unusable", "the process continuing after a kill before call %d ran no build" % N, dict(rp2, stdout_tail=out2[-10:]))
        chk.count(("kill", self.name, N, self.call_desc(N).split("(")[0], verdict, journal_left) if N <= self.total else None)
        return verdict


class WholeTarget:
    """The whole history runs in ONE process (several builds, engine restarts, statement caches and key-id caches warm) and the
    process is killed before its N-th database call: the file must hold exactly the database as dumped after one of the
    completed builds (or the empty database), later kill points never show an earlier build, and the next process works on it."""

    def __init__(self, chk, drv, model, hist, name):
        self.chk, self.drv, self.model, self.hist, self.name = chk, drv, model, hist, name
        self.d = os.path.join(RUN, name)
        shutil.rmtree(self.d, ignore_errors=True)
        os.makedirs(self.d)
        self.lines = ["db 1"] + hist
        self.reached = 0
        self.journal_left = False

    def replay_base(self):
        return dict(history=self.hist, whole_history_process=self.lines, shim="harness/cpp/crash_shim.c (LD_PRELOAD, CRASH_AT=N)")

    def prepare(self):
        chk, d = self.chk, self.d
        cf, lf = os.path.join(d, "count.txt"), os.path.join(d, "calls.txt")
        rc, out, err, sp, tp = enginelib.run_impl(self.drv, self.lines, d, name="reference", env=shim_env(0, cf, lf))
        if rc != 0 or not os.path.exists(cf):
            chk.violation("driver-crash", "engine_driver failed on the uncrashed reference run (rc %d)" % rc, dict(self.replay_base(), stderr=err[-1500:]))
            return False
        self.total = int(open(cf).read().strip() or 0)
        self.calls = [l.split(" ") for l in open(lf).read().splitlines()]
        builds = [b for b in enginelib.split_builds(out) if b["key"] is not None]
        self.dumps = [[]]
        self.traces = []
        self.window = report_uncrashed(chk, out, self.lines, "uncrashed whole-history process", self.replay_base())
        for b in builds:
            self.traces.append(ops_of_build(self.dumps[-1], b))
            self.dumps.append(list(b["db"]))
        cps = commit_points(self.calls)
        if len(cps) > len(builds) + 1:
            chk.violation("multiple-commit-points", "the uncrashed whole-history process ends %d journal transactions for %d builds + schema creation" % (len(cps), len(builds)),
                          dict(self.replay_base(), commit_calls=cps[:40]), found_input=False, broken="single transaction per build (SQLiteBuildDB::buildStarted / buildComplete)")
        self.trace_all = [o for t in self.traces for o in t]
        if self.model.ask("wf " + ";".join(self.trace_all)) != "1":
            chk.violation("model-correspondence", "the Coq model rejects the operation trace rebuilt from an UNCRASHED history", dict(self.replay_base(), trace=";".join(self.trace_all)[:4000]),
                          found_input=False, broken="correspondence: Engine/Crash.v wf_trace vs SQLiteBuildDB")
            return False
        return self.total > 0

    def call_desc(self, n):
        if 1 <= n <= len(self.calls):
            c = self.calls[n - 1]
            return "%s(%s%s)" % (c[1], c[2], "" if c[3] == "-" else ", %s bytes%s" % (c[3], "" if c[4] == "-" else " at %s" % c[4]))
        return "process exit (no kill)"

    def kill(self, N, cont_rng):
        chk, d = self.chk, self.d
        rc, out, err, sp, tp = enginelib.run_impl(self.drv, self.lines, d, name="crash", env=shim_env(N))
        rp = dict(self.replay_base(), kill_before_call=N, call=self.call_desc(N), total_calls=self.total)
        if (N <= self.total and rc != 77) or (N > self.total and rc != 0):
            chk.violation("kill-not-delivered", "the shim did not kill the process before call %d of %d (rc %d)" % (N, self.total, rc), dict(rp, stderr=err[-800:]),
                          found_input=False, broken="harness: deterministic call numbering")
            return None
        self.journal_left = os.path.exists(os.path.join(d, "build.db-journal"))
        pyd = os.path.join(d, "py")
        copy_db(d, pyd)
        db = read_db(os.path.join(pyd, "build.db"))
        j = None
        if not db["ok"]:
            chk.violation("db-unusable", "after a kill before call %d (%s) the database cannot be read: %s" % (N, self.call_desc(N), db["problems"]), rp)
        else:
            for key, what in db_inv(db):
                chk.violation(key, "after a kill before call %d (%s): %s" % (N, self.call_desc(N), what), dict(rp, dump=db["lines"][:60]))
            cands = [i for i, dl in enumerate(self.dumps) if dl == db["lines"] or (i == 0 and not db["rows"] and db["iteration"] == 0)]
            if not cands:
                chk.violation("db-not-atomic", "after a kill before call %d (%s) the database is not the snapshot after any completed build of the history" % (N, self.call_desc(N)),
                              dict(rp, found=db["lines"][:60]))
            else:
                j = cands[-1]
                if j < self.reached:
                    chk.violation("db-nonmonotone", "a kill before call %d shows the database after build %d although an earlier kill point already showed build %d" % (N, j, self.reached), rp)
                self.reached = max(self.reached, j)
                n_ops = sum(len(t) for t in self.traces[:j]) + (len(self.traces[j]) - 1 if j < len(self.traces) else 0)
                m = self.model.ask("recover %d %s" % (n_ops, ";".join(self.trace_all)))
                if m != state_str(db) + " inv=1":
                    chk.violation("model-correspondence", "kill before call %d: observed state differs from the model's recover (build %d committed, next one cut before its Commit)" % (N, j),
                                  dict(rp, model=m[:1500], observed=state_str(db)[:1500]), found_input=False, broken="correspondence: Engine/Crash.v recover vs SQLite")
        obs = obs_keys(self.hist)
        cont = ["set %d %d" % (k, cont_rng.randint(0, 5)) for k in cont_rng.sample(obs, min(len(obs), cont_rng.randint(0, 2)))]
        roots = [l.split(" ")[1] for l in self.hist if l.startswith("build ")]
        cont.append("build %s" % cont_rng.choice(roots))
        for k in cont_rng.sample(obs, min(len(obs), cont_rng.randint(1, 2))):
            cont.append("set %d %d" % (k, cont_rng.randint(0, 5)))
        cont.append("build %s" % roots[-1])
        lines = ["db 2"] + carry(self.hist) + with_fresh(cont)
        rc2, out2, err2, sp2, tp2 = enginelib.run_impl(self.drv, lines, d, keepdb=True, name="continue")
        rp2 = dict(rp, builds_visible_after_kill=j, continuation_process=lines)
        if rc2 != 0:
            chk.violation("db-unusable", "the process continuing after a kill before call %d (%s) failed with rc %d" % (N, self.call_desc(N), rc2), dict(rp2, stderr=err2[-800:], stdout_tail=out2[-10:]))
        else:
            for key, what in check_outputs(out2):
                if key == "stale-result":
                    if self.window or window_suspects(out2, lines):
                        chk.notes["stale_in_discovered_window_C05_known"] = chk.notes.get("stale_in_discovered_window_C05_known", 0) + 1
                        continue
                    key = "stale-after-crash"
                chk.violation(key, "continuing after a kill before call %d (%s, %s builds visible): %s" % (N, self.call_desc(N), j, what), rp2)
            for b in enginelib.split_builds(out2):
                if b["key"] is not None:
                    for key, what in dump_inv(b["db"], b["epoch"]):
                        chk.violation(key, "continuing after a kill before call %d, after %s: %s" % (N, b["hdr"], what), rp2)
        chk.count(("killw", self.name, N, self.call_desc(N).split("(")[0], j, self.journal_left) if N <= self.total else None)
        return j


def chain_check(chk, drv, hist, name):
    """The history with every build in a process of its own and NO kill: after EVERY build (successful, cancelled, cycle-failed)
    the tables are read with Python's sqlite3 and must satisfy DbInv; every build is followed by the fresh-engine oracle.
    -> number of builds checked"""
    d = os.path.join(RUN, name)
    shutil.rmtree(d, ignore_errors=True)
    os.makedirs(d)
    idx = build_indices(hist)
    window = False
    for j, pos in enumerate(idx):
        lines = ["db 2"] + carry(hist[:pos]) + with_fresh([hist[pos]])
        rc, out, err, sp, tp = enginelib.run_impl(drv, lines, d, keepdb=True, name="chain%d" % j)
        rp = dict(history=hist, build_index=j, process=lines, note="no kill: every build of the history runs to its end in a process of its own")
        if rc != 0:
            chk.violation("driver-crash", "engine_driver failed on an uncrashed build (rc %d)" % rc, dict(rp, stderr=err[-1500:]))
            return j
        window = report_uncrashed(chk, out, lines, "uncrashed history, one process per build", rp, window)
        db = read_db(os.path.join(d, "build.db"))
        b = [x for x in enginelib.split_builds(out) if x["key"] is not None][-1]
        if not db["ok"]:
            chk.violation("db-unusable", "after the uncrashed %s the database does not read back: %s" % (hist[pos], db["problems"]), rp)
            return j
        for key, what in db_inv(db):
            chk.violation(key, "after the UNCRASHED %s (%s; engine epoch %s, stored iteration %s): %s" % (
                hist[pos], "cancelled or failed" if aborted(b) else "successful", b["epoch"], db["iteration"], what), dict(rp, dump=db["lines"][:60]))
        if db["lines"] != b["db"]:
            chk.violation("dump-mismatch", "Python's read of the database differs from engine_driver's dump_db", dict(rp, python=db["lines"][:20], driver=b["db"][:20]),
                          found_input=False, broken="harness: read_db vs dump_db")
        chk.count(("chain", name, j, aborted(b)))
    return len(idx)


def sync_protocol(calls):
    """write-ahead discipline visible in the call log of an uncrashed run: within each journal life time, the journal is synced
    before the first database write and the database is synced before the journal is removed -> list of texts"""
    bad = []
    jw = js = dw = ds = False
    for c in calls:
        op, kind = c[1], c[2]
        if kind == "journal" and op in ("open", "openat"):
            jw = js = dw = ds = False
        elif kind == "journal" and op in ("write", "pwrite"):
            jw, js = True, False
        elif kind == "journal" and op in ("fsync", "fdatasync"):
            js = True
        elif kind == "db" and op in ("write", "pwrite"):
            if jw and not js:
                bad.append("database page written at call %s before the journal was synced" % c[0])
            dw, ds = True, False
        elif kind == "db" and op in ("fsync", "fdatasync"):
            ds = True
        elif kind == "journal" and op in ("unlink", "unlinkat", "ftruncate"):
            if dw and not ds:
                bad.append("journal removed at call %s before the database was synced" % c[0])
            jw = js = dw = ds = False
    return bad


# ------------------------------------------------------------------ entry points

def setup(chk):
    shared = vlib.build_drivers(["engine_driver"])["engine_driver"]
    # a private copy: other checks running at the same time may relink the shared binary while thousands of processes are started here
    os.makedirs(RUN, exist_ok=True)
    drv = os.path.join(RUN, "engine_driver")
    with vlib.Lock("drv-hooks"):
        shutil.copy2(shared, drv)
    build_shim()
    model = vlib.Interactive(vlib.model_bin(AREA))
    return drv, model


def run(chk):
    drv, model = setup(chk)
    chk.proof_gate()
    rng = chk.rng
    # the counter-models must be refuted by the extracted model too (sanity of the executable invariant)
    cm = [model.ask("countermodel iter_after_commit 7"), model.ask("countermodel commit_per_result 4"), model.ask("countermodel single_txn 7"),
          model.ask("countermodel failed_no_iteration 7")]
    if not (cm[0].endswith("inv=0") and cm[1].endswith("inv=0") and cm[2].endswith("inv=1") and cm[3].endswith("inv=0")):
        chk.violation("model-correspondence", "extracted counter-models do not behave as proved: %s" % cm, dict(answers=cm), found_input=False, broken="extraction of Engine/Crash.v")

    def sched(r):
        x = r.random()
        return "sync" if x < 0.5 else ("defer:%d" % r.randint(1, 99) if x < 0.8 else "mixed:%d" % r.randint(1, 99))

    n_small = chk.n(7, 30)
    n_big = chk.n(1, 4)
    budget = chk.n(480, 10**9)          # kill points in the quick tier
    hists = [("big%d" % i, gen_hist(rng, big=True, sched=sched if i % 2 else None)) for i in range(n_big)]
    hists += [("h%d" % i, gen_hist(rng, sched=sched if i % 2 else None)) for i in range(n_small)]
    hists = [(name, place_cancels(rng, drv, hist, name)) for name, hist in hists]
    wide = [("wide%d" % i, gen_wide(rng)) for i in range(chk.n(1, 2))]
    targets = []
    for name, hist in hists:
        nb = len(build_indices(hist))
        blines = [l for l in hist if l.startswith("build ")]
        cyc = max(int(l.split(" ")[1]) for l in hist if l.startswith("rule ")) - 1
        failing = [i for i, l in enumerate(blines) if is_cancel_line(l)][:2] + [i for i, l in enumerate(blines) if l == "build %d" % cyc][:1]
        after_failing = [i + 1 for i in failing if i + 1 < nb][:1]
        if chk.quick():
            bis = sorted(set([0, nb - 1] + failing + after_failing + ([rng.randrange(nb)] if nb > 2 and not name.startswith("big") else [])))
        else:
            bis = list(range(nb))
        for bi in bis:
            targets.append(Target(chk, drv, model, hist, bi, "%s_b%d" % (name, bi)))
    for name, hist in wide:
        for bi in ([1] if chk.quick() else [0, 1, 2]):
            targets.append(Target(chk, drv, model, hist, bi, "%s_b%d" % (name, bi)))
    chained = sum(chain_check(chk, drv, hist, name + "_chain") for name, hist in hists + wide)
    usable = []
    for t in targets:
        if t.prepare():
            usable.append(t)
    nfail = dict(cancelled_builds=sum(1 for n_, h in hists for l in h if is_cancel_line(l)),
                 killed_builds_cancelled_or_cycle=sum(1 for t in usable if aborted(t.ref_build)),
                 killed_builds_cancelled_with_stored_results=sum(1 for t in usable if (t.ref_build["result"] or "").endswith(" cancelled") and stored_in_build(t.ref_build) >= 1))
    stats = dict(uncrashed_builds_checked_one_process_each=chained, failures=nfail, targets=len(usable), unchanged_or_unusable=len(targets) - len(usable), kill_points=0, total_calls=0, syscalls={}, pre=0, post=0, other=0,
                 multi_page_commits=0, max_db_writes_in_one_commit=0, journal_left_behind=0)
    if not usable or all(t.total == 0 for t in usable):
        chk.violation("shim-blind", "the fault injector sees no database system call: kill points cannot be enumerated (is SQLite still linked dynamically?)",
                      dict(shim=SHIM), found_input=False, broken="harness: LD_PRELOAD interposition")
    share = max(12, budget // max(1, len(usable)))
    for t in usable:
        stats["total_calls"] += t.total
        for c in t.calls:
            nm = "%s:%s" % (c[1], c[2])
            stats["syscalls"][nm] = stats["syscalls"].get(nm, 0) + 1
        run_len = best = 0
        for c in t.calls:
            if c[1] in ("pwrite", "write") and c[2] == "db":
                run_len += 1
                best = max(best, run_len)
            elif c[2] == "db" and c[1] in ("fsync", "fdatasync"):
                run_len = 0
        stats["max_db_writes_in_one_commit"] = max(stats["max_db_writes_in_one_commit"], best)
        if best > 1:
            stats["multi_page_commits"] += 1
        for what in sync_protocol(t.calls):
            chk.violation("no-sync-barrier", "uncrashed run: %s (write-ahead ordering, needed once the machine - not only the process - can die)" % what,
                          dict(t.replay_base(), calls=[" ".join(c) for c in t.calls][:80]), found_input=False, broken="durability protocol of the SQLite connection (synchronous / journal_mode)")
        allN = list(range(1, t.total + 2))
        if t.name.startswith("wide"):
            stats["wide_results_in_one_build"] = max(stats.get("wide_results_in_one_build", 0), sum(1 for o in t.trace_i if o.startswith("R")))
        if (chk.quick() or t.name.startswith("wide")) and len(allN) > share:
            # wide builds are never enumerated exhaustively: kill points come from the call log (around every journal removal and
            # every sync seen mid-build) plus a random sample
            if t.name.startswith("wide"):
                share_t = chk.n(34, 120)
            else:
                share_t = share
            b = t.boundaries()
            rest = [n for n in allN if n not in set(b)]
            rng.shuffle(rest)
            pick = sorted(set(b[:share_t - 2] + rest[:max(2, share_t - len(b))]))
        else:
            pick = allN
        crng = __import__("random").Random(rng.getrandbits(32))
        for N in pick:
            v = t.kill(N, crng)
            stats["kill_points"] += 1
            if v in ("pre", "post", "other"):
                stats[v] += 1
            if getattr(t, "journal_left", False):
                stats["journal_left_behind"] += 1
        if t.commit_at is None:
            chk.violation("db-never-committed", "no kill point of %s (not even process exit) shows the post-build state" % t.name, t.replay_base())
        elif len(chk.samples) < 4:
            chk.sample(dict(target=t.name, crash_process=t.crash_lines[-3:], database_calls=t.total, killed_at=len(pick),
                            commit_point="first post-build state at kill-before-call %d = just after %s" % (t.commit_at, t.call_desc(t.commit_at - 1)),
                            model_trace_ops=len(t.trace_i), pre=t.pre["lines"][-3:], post=t.post["lines"][-3:]))
    # the same for whole histories run in one process
    wstats = dict(histories=0, kill_points=0, total_calls=0)
    wh = hists[:chk.n(3, 16)]
    wshare = chk.n(30, 10**9)
    for name, hist in wh:
        t = WholeTarget(chk, drv, model, hist, name + "_whole")
        if not t.prepare():
            continue
        wstats["histories"] += 1
        wstats["total_calls"] += t.total
        allN = list(range(1, t.total + 2))
        if len(allN) > wshare:
            imp = [1, t.total, t.total + 1]
            for c in t.calls:
                if c[2] == "journal" and c[1] in ("unlink", "unlinkat", "ftruncate", "rename"):
                    imp += [int(c[0]), int(c[0]) + 1]
            rest = [n for n in allN if n not in set(imp)]
            rng.shuffle(rest)
            pick = sorted(set(imp[:wshare - 4] + rest[:max(4, wshare - len(imp))]))
        else:
            pick = allN
        crng = __import__("random").Random(rng.getrandbits(32))
        for N in pick:
            t.kill(N, crng)
            wstats["kill_points"] += 1
        nb = len(build_indices(hist))
        if t.reached != nb:
            chk.violation("db-never-committed", "whole-history process %s: the database after the last build was never observed (reached build %d of %d)" % (t.name, t.reached, nb), t.replay_base())
    stats["whole_history_processes"] = wstats
    model.close()
    shutil.rmtree(RUN, ignore_errors=True)
    chk.cov["fault_enumeration"] = stats
    chk.cov["exhaustive"] = not chk.quick()
    chk.cov["explanation"] = ("PARTIAL: process kill only. SQLite's rollback-journal implementation is exercised, not modelled; power loss (torn sector writes, "
                              "writes reordered across a missing fsync) is outside the enumeration - only the presence and order of the sync calls is checked. "
                              "In the quick tier big targets are sampled at every change of (syscall, file) plus random points; the thorough tier kills before every call.")
    chk.assumptions = ["atomicity of one SQLite transaction under process death is built into `recover` of coq/Engine/Crash.v (state as of the last Commit) and is "
                       "what the fault enumeration tests on the real library, call by call",
                       "the kill is delivered between system calls (a process cannot die inside one as far as the file contents are concerned)",
                       "libsqlite3 is linked dynamically and reaches the kernel through interposable libc symbols (verified on every run: the call counter moves)",
                       "the engine stamps every result it stores in the build of epoch e with builtAt = e and computedAt <= e (premise results_ok; checked on every observed row)",
                       "clean-build equality of continued builds is checked against the driver's fresh-engine oracle, not proved (the proof reduces it to an uncrashed history: c04_history_equiv_uncrashed)"]
    return chk.finish(level="proof",
                      rule="generated engine histories over a SQLite database (rule DAGs with requests/single-use/must-follow/branching/discovered inputs, external mutations incl. flip-flops, "
                           "restarts, signature edits; sync/deferred/mixed completion schedules; plus 60-76-rule histories with 12-40 dependencies per rule so that one commit spans many pages); "
                           "one WIDE history per run whose build stores 600+ results (kill points chosen from the call log); a case = (history, killed build, N) with the process killed before the N-th system call on build.db/-journal/-wal; non-trivial = the kill was delivered and the "
                           "killed build changes the database; distinct by (target, N)",
                      trusted=["hand-written model coq/Engine/Crash.v tied by correspondence (trace rebuilt from the uncrashed run's dumps; recover/wf/db_inv_b evaluated by the extracted model on every kill point)",
                               "harness/cpp/engine_driver.cpp, harness/cpp/crash_shim.c, Python sqlite3 as the independent reader",
                               "extraction (ExtrOcamlBasic) + ocaml/vmodel_crash.ml",
                               "SQLite transaction atomicity under process death: assumption of the proof, tested (not proved) by the enumeration"])


def replay(chk, rp):
    """re-run one recorded kill point (or the whole check when the replay carries none)"""
    print(json.dumps({k: rp[k] for k in rp if k in ("finding_key", "what", "kill_before_call", "call", "killed_build_index")}, indent=1))
    if "history" not in rp or ("killed_build_index" not in rp and "whole_history_process" not in rp and "build_index" not in rp):
        return run(chk)
    drv, model = setup(chk)
    chk.proof_gate()
    if "build_index" in rp and "killed_build_index" not in rp:
        # a finding without a kill: the history again, one process per build, the tables read after every build
        n = chain_check(chk, drv, rp["history"], "replay_chain")
        print("uncrashed history replayed: %d builds, invariant read from the tables after each" % n)
        model.close()
        shutil.rmtree(RUN, ignore_errors=True)
        return chk.finish(level="proof", rule="replay of one recorded uncrashed history")
    if "killed_build_index" in rp:
        t = Target(chk, drv, model, rp["history"], rp["killed_build_index"], "replay")
    else:
        t = WholeTarget(chk, drv, model, rp["history"], "replay")
    if t.prepare():
        pts = [rp["kill_before_call"]] if "kill_before_call" in rp else list(range(1, t.total + 2))
        crng = __import__("random").Random(chk.seed)
        for N in pts:
            for _ in range(3 if "kill_before_call" in rp else 1):
                print("kill before call %d (%s): %s" % (N, t.call_desc(N), t.kill(N, crng)))
    model.close()
    shutil.rmtree(RUN, ignore_errors=True)
    return chk.finish(level="proof", rule="replay of one recorded kill point")
