# C09 - null builds run nothing; a command re-runs exactly when its definition changed
#
# (a) proof gate (Props/Properties_C09.v)
# (b) exact tie of the token model: for every generated definition, Command::getSignature() of the command loaded by the
#     real loader == llvm::hash_combine folded over the model's token list (two 64-bit numbers)
# (c) property oracle on the implementation, independent of the model: definitions that differ in exactly one
#     signature-relevant attribute have different real signatures; the same definition (also respelled: attribute order,
#     defaults written out, another description) has the same signature, also in a second process
# (d) CLI oracle: build, null build in a new process, edit one attribute / damage one output, build again; the set of
#     commands that executed is observed through a log the commands append to
import os, json, shutil, copy
import vlib
from vlib import hx

AREA = "sig"
STYLES = {1: "makefile", 2: "dependency-info", 3: "makefile-ignoring-subsequent-outputs"}
SH = [b"/bin/sh", b"-c"]

# ---------------------------------------------------------------- definitions

def new_def(**kw):
    d = dict(tool="shell", name=b"C", inputs=[], outputs=[], ami=False, amo=False, aood=False, sigdata=b"",
             args=[b"true"], env=[], deps=[], ds=0, ie=True, csi=True,
             # spelling only (not part of the definition)
             desc=None, order=0, explicit_defaults=False, scalar_args=False, scalar_deps=False)
    d.update(kw)
    return d

def is_shell(d):
    return d["tool"] == "shell"

def relevant(d):
    """The signature-relevant part, from the property text: name, inputs, outputs, flags, then explicit signature or
    (arguments, environment, dependency-file settings, shell flags)."""
    base = (d["name"], tuple(d["inputs"]), tuple(d["outputs"]), d["ami"], d["amo"], d["aood"])
    if not is_shell(d):
        return base
    if d["sigdata"]:
        return base + (d["sigdata"],)
    return base + (tuple(d["args"]), tuple(d["env"]), tuple(d["deps"]), d["ds"], d["ie"], d["csi"])

def fl(l):
    return "." if not l else ",".join(hx(x) for x in l)

def model_fields(d):
    return " ".join([hx(d["name"]), fl(d["inputs"]), fl(d["outputs"]),
                     "%d%d%d" % (d["ami"], d["amo"], d["aood"]), hx(d["sigdata"]), fl(d["args"]),
                     fl([k for k, v in d["env"]]), fl([v for k, v in d["env"]]), fl(d["deps"]), str(d["ds"]),
                     "%d%d" % (d["ie"], d["csi"])])

def model_req(d):
    return ("tokens " if is_shell(d) else "ext_tokens ") + model_fields(d)

# ---------------------------------------------------------------- YAML

def yq(b):
    """A double-quoted YAML scalar for a valid UTF-8 byte string."""
    out = bytearray(b'"')
    for ch in b.decode("utf-8"):
        o = ord(ch)
        if ch == '"' or ch == "\\":
            out += b"\\" + ch.encode()
        elif o == 0:
            out += b"\\0"
        elif o < 0x20 or o == 0x7f:
            out += b"\\x%02x" % o
        else:
            out += ch.encode("utf-8")
    out += b'"'
    return bytes(out)

def yb(v):
    return b"true" if v else b"false"

def ylist(l):
    return b"[" + b", ".join(yq(x) for x in l) + b"]"

def render_command(d, rng=None):
    """YAML of one entry of the commands map. Attribute order and the spelling of defaults follow d['order'] etc."""
    attrs = []
    if d["inputs"] or d["explicit_defaults"]:
        attrs.append(b"inputs: " + ylist(d["inputs"]))
    if d["outputs"] or d["explicit_defaults"]:
        attrs.append(b"outputs: " + ylist(d["outputs"]))
    if d["desc"] is not None:
        attrs.append(b"description: " + yq(d["desc"]))
    for key, fld, default in ((b"allow-missing-inputs", "ami", False), (b"allow-modified-outputs", "amo", False),
                              (b"always-out-of-date", "aood", False)):
        if d[fld] != default or d["explicit_defaults"]:
            attrs.append(key + b": " + yb(d[fld]))
    if is_shell(d):
        if d["args"]:
            if d["scalar_args"] and len(d["args"]) == 3 and d["args"][:2] == SH:
                attrs.append(b"args: " + yq(d["args"][2]))
            else:
                attrs.append(b"args: " + ylist(d["args"]))
        if d["env"] or d["explicit_defaults"]:
            attrs.append(b"env: {" + b", ".join(yq(k) + b": " + yq(v) for k, v in d["env"]) + b"}")
        if d["deps"]:
            if d["scalar_deps"] and len(d["deps"]) == 1:
                attrs.append(b"deps: " + yq(d["deps"][0]))
            else:
                attrs.append(b"deps: " + ylist(d["deps"]))
        if d["ds"]:
            attrs.append(b"deps-style: " + STYLES[d["ds"]].encode())
        for key, fld, default in ((b"inherit-env", "ie", True), (b"can-safely-interrupt", "csi", True)):
            if d[fld] != default or d["explicit_defaults"]:
                attrs.append(key + b": " + yb(d[fld]))
        if d["sigdata"]:
            attrs.append(b"signature: " + yq(d["sigdata"]))
    if d["order"]:
        import random
        random.Random(d["order"]).shuffle(attrs)
    lines = [b"  " + yq(d["name"]) + b":", b"    tool: " + d["tool"].encode()] + [b"    " + a for a in attrs]
    return b"\n".join(lines) + b"\n"

def render_file(cmds, targets=None):
    out = bytearray(b"client:\n  name: basic\n\n")
    if targets is not None:
        out += b"targets:\n"
        for t, nodes in targets.items():
            out += b"  " + yq(t) + b": " + ylist(nodes) + b"\n"
        out += b"\n"
    out += b"commands:\n"
    for d in cmds:
        out += render_command(d)
    return bytes(out)

# ---------------------------------------------------------------- generators

ATOMS = [b"a", b"b", b"c", b"ab", b"K", b"V", b"x.c", b"x.o", b" ", b"a b", b'"', b"\\", b"'", b":", b": ", b",", b"#", b" #",
         b"{", b"}", b"[", b"]", b"&", b"*", b"!", b"|", b">", b"%", b"@", b"`", b"-", b"- ", b"?", b"~", b"null", b"true",
         b"\n", b"\t", b"\r", b"\x01", b"\x1b", b"\x7f", "é".encode(), "€".encode(), "\U0001F600".encode(),
         b"$X", b"=", b"k=v", b"<", b"<v>", b"d/", b"a/b", b".", b"..x", b"0", b"1", b"-c"]

def rnd_bytes(rng, allow_empty=True, nul=False):
    r = rng.random()
    if r < 0.08 and allow_empty:
        return b""
    n = rng.choice([1, 1, 1, 2, 2, 3, 5])
    parts = [rng.choice(ATOMS) for _ in range(n)]
    if nul and rng.random() < 0.05:
        parts.insert(rng.randrange(len(parts) + 1), b"\0")
    return b"".join(parts)

def rnd_node(rng):
    """A node name: any bytes, but never an absolute path (the driver may have the engine stat input nodes)."""
    for _ in range(20):
        s = rnd_bytes(rng, allow_empty=False)
        if not s.startswith(b"/") and not s.startswith(b"."):
            return s
    return b"n"

def rnd_list(rng, gen, maxn=4):
    r = rng.random()
    if r < 0.2:
        return []
    n = rng.randint(1, maxn)
    l = [gen(rng) for _ in range(n)]
    if l and rng.random() < 0.2:
        l.insert(rng.randrange(len(l) + 1), rng.choice(l))      # duplicate entry
    return l

def gen_def(rng, tool=None):
    tool = tool or rng.choice(["shell"] * 7 + ["phony", "phony", "mkdir"])
    d = new_def(tool=tool, name=rnd_bytes(rng, allow_empty=False))
    d["inputs"] = rnd_list(rng, rnd_node)
    d["outputs"] = rnd_list(rng, rnd_node)
    if tool == "mkdir" and not d["outputs"]:
        d["outputs"] = [rnd_node(rng)]
    if not d["outputs"]:
        # the command is reached by asking the engine for its key: keep the inputs to plain files
        d["inputs"] = [x for x in d["inputs"] if not x.endswith(b"/")]
    if rng.random() < 0.15 and d["inputs"] and d["outputs"]:
        d["outputs"].append(rng.choice(d["inputs"]))                 # same node on both sides
    d["ami"], d["amo"], d["aood"] = (rng.random() < 0.3, rng.random() < 0.3, rng.random() < 0.3)
    if tool != "shell":
        d["args"] = []
        return d
    d["args"] = [rnd_bytes(rng, nul=True) for _ in range(rng.randint(1, 5))]
    if rng.random() < 0.15:
        d["args"] = SH + [rnd_bytes(rng)]
        d["scalar_args"] = rng.random() < 0.7
    d["env"] = rnd_list(rng, lambda r: (rnd_bytes(r), rnd_bytes(r, nul=True)), 3)
    d["deps"] = rnd_list(rng, lambda r: rnd_bytes(r, allow_empty=False), 3)
    d["scalar_deps"] = rng.random() < 0.5
    d["ds"] = rng.choice([0, 0, 1, 2, 3])
    d["ie"], d["csi"] = (rng.random() < 0.7, rng.random() < 0.7)
    if rng.random() < 0.15:
        d["sigdata"] = rnd_bytes(rng, allow_empty=False)
    return d

def split_point(rng, s):
    """A split of a byte string at a character boundary, both parts non-empty; None if impossible."""
    t = s.decode("utf-8")
    if len(t) < 2:
        return None
    i = rng.randint(1, len(t) - 1)
    return t[:i].encode("utf-8"), t[i:].encode("utf-8")

def other_bytes(rng, s, allow_empty=True):
    for _ in range(50):
        t = rnd_bytes(rng, allow_empty=allow_empty)
        if t != s:
            return t
    return s + b"z"

def mutations(rng, d):
    """All applicable single-attribute edits of d: list of (kind, d'). Every d' differs from d in exactly one
    signature-relevant attribute (a boundary move touches the two lists on either side of the boundary)."""
    out = []
    def mk(kind, **kw):
        e = copy.deepcopy(d)
        e.update(kw)
        if relevant(e) != relevant(d):
            out.append((kind, e))
    mk("name", name=other_bytes(rng, d["name"], False))
    for fld in ("inputs", "outputs"):
        l = d[fld]
        pos = rng.randrange(len(l) + 1)
        mk(fld + "-add", **{fld: l[:pos] + [rnd_node(rng)] + l[pos:]})
        if l and not (fld == "outputs" and d["tool"] == "mkdir" and len(l) == 1):
            i = rng.randrange(len(l))
            mk(fld + "-remove", **{fld: l[:i] + l[i + 1:]})
        if l:
            i = rng.randrange(len(l))
            mk(fld + "-modify", **{fld: l[:i] + [l[i] + b"x"] + l[i + 1:]})
        if len(l) > 1:
            i = rng.randrange(len(l) - 1)
            mk(fld + "-swap", **{fld: l[:i] + [l[i + 1], l[i]] + l[i + 2:]})
    if d["inputs"]:
        mk("move-last-input-to-outputs", inputs=d["inputs"][:-1], outputs=[d["inputs"][-1]] + d["outputs"])
    if d["outputs"] and not (d["tool"] == "mkdir" and len(d["outputs"]) == 1):
        mk("move-first-output-to-inputs", inputs=d["inputs"] + [d["outputs"][0]], outputs=d["outputs"][1:])
    for fld in ("ami", "amo", "aood"):
        mk("flag-" + fld, **{fld: not d[fld]})
    if not is_shell(d):
        return out
    if d["sigdata"]:
        mk("signature-change", sigdata=other_bytes(rng, d["sigdata"], False))
        mk("signature-remove", sigdata=b"")
        return out
    mk("signature-add", sigdata=rnd_bytes(rng, allow_empty=False))
    for fld in ("ie", "csi"):
        mk("flag-" + fld, **{fld: not d[fld]})
    mk("deps-style", ds=rng.choice([s for s in (0, 1, 2, 3) if s != d["ds"]]))
    a = d["args"]
    mk("args-add", args=a + [rnd_bytes(rng)])
    if len(a) > 1:
        i = rng.randrange(len(a))
        mk("args-remove", args=a[:i] + a[i + 1:])
        i = rng.randrange(len(a) - 1)
        mk("args-swap", args=a[:i] + [a[i + 1], a[i]] + a[i + 2:])
        mk("args-merge-adjacent", args=a[:i] + [a[i] + a[i + 1]] + a[i + 2:])
        sp = split_point(rng, a[i])
        if sp:
            mk("args-shift-boundary", args=a[:i] + [sp[0], sp[1] + a[i + 1]] + a[i + 2:])
    i = rng.randrange(len(a))
    mk("args-modify", args=a[:i] + [other_bytes(rng, a[i])] + a[i + 1:])
    sp = split_point(rng, a[i])
    if sp:
        mk("args-split", args=a[:i] + [sp[0], sp[1]] + a[i + 1:])
    e = d["env"]
    if len(a) >= 3:
        mk("move-args-tail-to-env", args=a[:-2], env=e + [(a[-2], a[-1])])
    if e:
        mk("move-env-tail-to-args", args=a + [e[-1][0], e[-1][1]], env=e[:-1])
        mk("move-env-tail-to-deps", env=e[:-1], deps=[e[-1][0], e[-1][1]] + d["deps"])
        i = rng.randrange(len(e))
        mk("env-remove", env=e[:i] + e[i + 1:])
        mk("env-key", env=e[:i] + [(other_bytes(rng, e[i][0]), e[i][1])] + e[i + 1:])
        mk("env-value", env=e[:i] + [(e[i][0], other_bytes(rng, e[i][1]))] + e[i + 1:])
        mk("env-swap-key-value", env=e[:i] + [(e[i][1], e[i][0])] + e[i + 1:])
        sp = split_point(rng, e[i][0])
        if sp:
            mk("env-shift-key-value-boundary", env=e[:i] + [(sp[0], sp[1] + e[i][1])] + e[i + 1:])
        if len(e) > 1:
            i = rng.randrange(len(e) - 1)
            mk("env-swap", env=e[:i] + [e[i + 1], e[i]] + e[i + 2:])
    mk("env-add", env=e + [(rnd_bytes(rng), rnd_bytes(rng))])
    p = d["deps"]
    mk("deps-add", deps=p + [rnd_bytes(rng, allow_empty=False)])
    if len(p) >= 2:
        mk("move-deps-head-to-env", env=e + [(p[0], p[1])], deps=p[2:])
    if p:
        i = rng.randrange(len(p))
        mk("deps-remove", deps=p[:i] + p[i + 1:])
        mk("deps-modify", deps=p[:i] + [p[i] + b"x"] + p[i + 1:])
    return out

def respell(rng, d):
    """The same definition written differently: attribute order, defaults written out, another description."""
    e = copy.deepcopy(d)
    e["order"] = rng.randrange(1, 1 << 30)
    e["explicit_defaults"] = not d["explicit_defaults"]
    e["desc"] = rnd_bytes(rng)
    e["scalar_args"] = not d["scalar_args"]
    e["scalar_deps"] = not d["scalar_deps"]
    return e

# the inputs that collided before the repairs (coq: v0_w1a/b, v0_w2a/b, v0_w3a/b) - kept first in the corpus
def corpus_pairs():
    base = new_def(name=b"C", args=[b"e"])
    P = []
    P.append(("v0-inputs-outputs-boundary", dict(base, inputs=[b"a", b"b"], outputs=[b"c"]), dict(base, inputs=[b"a"], outputs=[b"b", b"c"])))
    P.append(("v0-args-env-boundary", dict(base, args=[b"e", b"K", b"V"], env=[]), dict(base, args=[b"e"], env=[(b"K", b"V")])))
    P.append(("v0-deps-style-makefile-vs-dependency-info", dict(base, deps=[b"d"], ds=1), dict(base, deps=[b"d"], ds=2)))
    P.append(("v0-deps-style-makefile-vs-ignoring", dict(base, deps=[b"d"], ds=1), dict(base, deps=[b"d"], ds=3)))
    P.append(("v0-outputs-args-boundary", dict(base, tool="shell", outputs=[b"o", b"x"], args=[b"e"]), dict(base, outputs=[b"o"], args=[b"x", b"e"])))
    return [(k, copy.deepcopy(a), copy.deepcopy(b)) for k, a, b in P]

# ---------------------------------------------------------------- (b) + (c)

def first_output_field(d):
    return hx(d["outputs"][0]) if d["outputs"] else "NONE"

def fix0(v):
    return 1 if v == 0 else v

def show_def(d):
    s = {k: (v.decode("utf-8", "replace") if isinstance(v, bytes) else v) for k, v in d.items() if k in ("tool", "ami", "amo", "aood", "ds", "ie", "csi")}
    for k in ("name", "sigdata"):
        s[k] = d[k].decode("utf-8", "replace")
    for k in ("inputs", "outputs", "args", "deps"):
        s[k] = [x.decode("utf-8", "replace") for x in d[k]]
    s["env"] = [[k.decode("utf-8", "replace"), v.decode("utf-8", "replace")] for k, v in d["env"]]
    return s

def run_signatures(chk, drv, model, base):
    rng = chk.rng
    ddir = os.path.join(base, "defs")
    os.makedirs(ddir)
    defs = []          # every definition that is written to a file
    pairs = []         # (kind, i, j): definitions that differ in exactly one relevant attribute
    same = []          # (i, j): the same definition spelled differently
    def add(d):
        defs.append(d)
        return len(defs) - 1
    for kind, a, b in corpus_pairs():
        pairs.append((kind, add(a), add(b)))
    nbase = chk.n(330, 4000)
    per_kind = {}
    for _ in range(nbase):
        d = gen_def(rng)
        i = add(d)
        ms = mutations(rng, d)
        # prefer kinds that were used least so far, so that every kind is exercised
        ms.sort(key=lambda m: (per_kind.get(m[0], 0), rng.random()))
        for kind, e in ms[:chk.n(4, 6)]:
            per_kind[kind] = per_kind.get(kind, 0) + 1
            pairs.append((kind, i, add(e)))
        if rng.random() < 0.5:
            same.append((i, add(respell(rng, d))))
    # files and requests
    sig_reqs, mreqs = [], []
    for i, d in enumerate(defs):
        path = os.path.join(ddir, "%d.llbuild" % i)
        with open(path, "wb") as f:
            f.write(render_file([d]))
        sig_reqs.append("sig %s %s %s" % (path, hx(d["name"]), first_output_field(d)))
        mreqs.append(model_req(d))
    cwd = os.path.join(base, "cwd")
    os.makedirs(cwd)
    def drive(reqs):
        rc, out, err = vlib.sh([drv], input="\n".join(reqs) + "\n", timeout=1800, cwd=cwd)
        return rc, out.split("\n")[:-1], err
    rc1, s1, e1 = drive(sig_reqs)
    if rc1 != 0 or len(s1) != len(sig_reqs):
        k = min(len(s1), len(defs) - 1)
        chk.violation("sig-driver-crash", "the implementation crashed or stopped while loading a generated build description",
                      dict(rc=rc1, stderr=e1[-1500:], answered=len(s1), definition=show_def(defs[k]), file=os.path.join(ddir, "%d.llbuild" % k)), found_input=True)
        return
    rc2, s2, e2 = drive(sig_reqs)            # a second process
    rcm, toks, em = vlib.run_lines(model, mreqs, timeout=1800)
    assert rcm == 0 and len(toks) == len(mreqs), em[-500:]
    rcf, folds, ef = drive(["fold " + t for t in toks])
    assert rcf == 0 and len(folds) == len(toks), ef[-500:]
    load_errors = [(i, a) for i, a in enumerate(s1) if a.startswith("ERR")]
    chk.cov["definitions"] = len(defs)
    chk.cov["definitions_rejected_by_loader"] = len(load_errors)
    if load_errors:
        chk.notes["loader_rejections"] = [dict(definition=show_def(defs[i]), answer=a[:300]) for i, a in load_errors[:3]]
    ok = lambda i: not s1[i].startswith("ERR")
    sigv = lambda i: int(s1[i].split()[0])
    # (c1) process independence
    nproc = 0
    for i, (a, b) in enumerate(zip(s1, s2)):
        if ok(i):
            nproc += 1
            chk.count()
            if a != b:
                chk.violation("sig-differs-between-processes", "the same definition loaded in two processes has two signatures (%s, %s)" % (a, b),
                              dict(definition=show_def(defs[i]), file=os.path.join(ddir, "%d.llbuild" % i), first_process=a, second_process=b),
                              found_input=True, broken="c09 oracle: signature is process independent")
    # (b) the exact tie
    ntie, dis = 0, []
    for i, d in enumerate(defs):
        if not ok(i):
            continue
        ntie += 1
        want = int(folds[i]) if not folds[i].startswith("ERR") else None
        if want is not None and is_shell(d):
            want = fix0(want)
        chk.count(("tie", toks[i]))
        if want != sigv(i):
            dis.append((i, want))
    # (c2) single-attribute pairs must differ; (c3) respellings must agree
    npairs, oracle_failed = 0, False
    kinds_seen = {}
    for kind, i, j in pairs:
        if not (ok(i) and ok(j)):
            continue
        npairs += 1
        kinds_seen[kind] = kinds_seen.get(kind, 0) + 1
        chk.count(("pair", kind, toks[i], toks[j]))
        assert relevant(defs[i]) != relevant(defs[j])
        if sigv(i) == sigv(j):
            oracle_failed = True
            chk.violation("sig-collision-" + kind, "two command definitions that differ in one signature-relevant attribute (%s) have the same signature %d: the edited command would not re-run" % (kind, sigv(i)),
                          dict(edit=kind, definition1=show_def(defs[i]), definition2=show_def(defs[j]), signature=sigv(i),
                               files=[os.path.join(ddir, "%d.llbuild" % i), os.path.join(ddir, "%d.llbuild" % j)],
                               model_tokens=[toks[i], toks[j]]),
                          found_input=True, broken="c09 oracle: different definitions have different signatures")
    nsame = 0
    for i, j in same:
        if not (ok(i) and ok(j)):
            continue
        nsame += 1
        chk.count(("same", toks[i]))
        if sigv(i) != sigv(j):
            oracle_failed = True
            chk.violation("sig-unstable-respelling", "the same command definition written with another attribute order / explicit defaults / description has another signature (%d vs %d): a null build would re-run it" % (sigv(i), sigv(j)),
                          dict(definition=show_def(defs[i]), files=[os.path.join(ddir, "%d.llbuild" % i), os.path.join(ddir, "%d.llbuild" % j)]),
                          found_input=True, broken="c09 oracle: an unchanged definition has an unchanged signature")
    # model-side sanity of `relevant`: the model's notion of "same relevant part" must agree with the harness's
    rreq = ["rel_eq %s %s" % (model_fields(defs[i]), model_fields(defs[j])) for _, i, j in pairs if is_shell(defs[i]) and is_shell(defs[j])]
    rreq += ["rel_eq %s %s" % (model_fields(defs[i]), model_fields(defs[j])) for i, j in same if is_shell(defs[i])]
    nshell_pairs = sum(1 for _, i, j in pairs if is_shell(defs[i]) and is_shell(defs[j]))
    rcm, rel, em = vlib.run_lines(model, rreq, timeout=1800)
    bad_rel = [k for k, a in enumerate(rel) if a != ("0" if k < nshell_pairs else "1")]
    if bad_rel:
        chk.violation("relevant-correspondence", "the model's `relevant` projection disagrees with the harness about which attributes are signature-relevant",
                      dict(request=rreq[bad_rel[0]], model=rel[bad_rel[0]]), found_input=False, broken="correspondence: BSys.Sig.relevant")
    if dis and not oracle_failed:
        i, want = min(dis, key=lambda x: len(toks[x[0]]))
        chk.violation("sig-token-correspondence",
                      "Command::getSignature() of a loaded command (%d) differs from llvm::hash_combine folded over the model's token list (%s) on %d of %d definitions; the oracle found no property failure" % (sigv(i), want, len(dis), ntie),
                      dict(definition=show_def(defs[i]), file=os.path.join(ddir, "%d.llbuild" % i), implementation=sigv(i), fold_of_model_tokens=want, model_tokens=toks[i],
                           broken="correspondence sig_tokens (BSys/Sig.v) vs ExternalCommand::getSignature / ShellCommand::getSignature"),
                      found_input=False, broken="correspondence: BSys.Sig.sig_tokens")
    chk.cov["tie_definitions"] = ntie
    chk.cov["tie_disagreements"] = len(dis)
    chk.cov["single_attribute_pairs"] = npairs
    chk.cov["pair_kinds"] = kinds_seen
    chk.cov["respelled_pairs"] = nsame
    chk.cov["two_process_comparisons"] = nproc
    k = next((i for i, d in enumerate(defs) if i > 12 and ok(i) and is_shell(d) and d["env"] and d["inputs"]), 0)
    chk.sample(dict(kind="tie", definition=show_def(defs[k]), model_tokens=toks[k], implementation_signature=s1[k], fold_of_model_tokens=folds[k]))
    kind, i, j = pairs[0]
    chk.sample(dict(kind="pair", edit=kind, signatures=[s1[i], s1[j]], model_tokens=[toks[i], toks[j]]))
    run_nodes(chk, drive, model, base)
    run_other_tools(chk, drive, model, base)

def run_nodes(chk, drive, model, base):
    """BuildNode::getSignature: type and producers' names (tie + pairs)."""
    rng = chk.rng
    ndir = os.path.join(base, "nodes")
    os.makedirs(ndir)
    cases = []
    for n in range(chk.n(120, 1500)):
        kind = rng.choice(["plain", "dir", "virtual"])
        name = rnd_node(rng).rstrip(b"/") or b"n"
        if kind == "dir":
            name += b"/"
        elif kind == "virtual":
            name = b"<" + name + b">"
        elif name.startswith(b"<") and name.endswith(b">"):
            name = b"p" + name
        etype = {"plain": 0, "dir": 1, "virtual": 3}[kind]
        nprod = rng.choice([0, 1, 1, 2, 3])
        prods = []
        while len(prods) < nprod:
            p = rnd_bytes(rng, allow_empty=False)
            if p not in prods:
                prods.append(p)
        cmds = [new_def(tool="phony", name=p, outputs=[name], args=[]) for p in prods]
        if not cmds:
            cmds = [new_def(tool="phony", name=b"user", inputs=[name], outputs=[b"<u>"], args=[])]
        path = os.path.join(ndir, "%d.llbuild" % n)
        with open(path, "wb") as f:
            f.write(render_file(cmds))
        cases.append((path, name, etype, prods))
    rc, ans, err = drive(["nodesig %s %s" % (p, hx(nm)) for (p, nm, t, pr) in cases])
    if rc != 0 or len(ans) != len(cases):
        chk.violation("nodesig-driver-crash", "the implementation crashed while loading a generated description (node signatures)", dict(rc=rc, stderr=err[-1500:]), found_input=True)
        return
    rcm, toks, em = vlib.run_lines(model, ["node_tokens %d %s" % (t, fl(pr)) for (p, nm, t, pr) in cases])
    rcf, folds, ef = drive(["fold0 " + t for t in toks])
    seen = {}
    dis = 0
    for (path, nm, t, pr), a, tk, fo in zip(cases, ans, toks, folds):
        if a.startswith("ERR"):
            chk.notes.setdefault("node_rejections", []).append(a[:200])
            continue
        sv, rt, rp = a.split(" ")
        chk.count(("node", tk))
        if int(rt) != t or rp != fl(pr):
            chk.violation("node-shape-correspondence", "a loaded node has another type or producer list than the description says: %s vs type %d producers %s" % (a, t, fl(pr)),
                          dict(file=path, node=nm.decode("utf-8", "replace")), found_input=False, broken="correspondence: node type / producers")
            continue
        key = (t, tuple(pr))
        if sv in seen and seen[sv] != key:
            chk.violation("node-sig-collision", "two nodes with different (type, producers) have the same signature %s: %r and %r" % (sv, seen[sv], key),
                          dict(file=path, node=nm.decode("utf-8", "replace"), signature=sv, other=repr(seen[sv])), found_input=True,
                          broken="c09 oracle: node signatures separate type and producers")
        seen[sv] = key
        if sv != fo:
            dis += 1
            if dis == 1:
                chk.violation("node-token-correspondence", "BuildNode::getSignature() (%s) differs from the fold of the model's node tokens (%s)" % (sv, fo),
                              dict(file=path, node=nm.decode("utf-8", "replace"), model_tokens=tk), found_input=False, broken="correspondence: BSys.Sig.node_sig_tokens")
    chk.cov["node_cases"] = len(cases)
    chk.cov["node_disagreements"] = dis

def render_symlink(d):
    text = b"  " + yq(d["name"]) + b":\n    tool: symlink\n"
    attrs = []
    if d["inputs"]:
        attrs.append(b"inputs: " + ylist(d["inputs"]))
    attrs.append(b"outputs: " + ylist(d["outputs"]))
    attrs.append(b"contents: " + yq(d["contents"]))
    if d["lop"]:
        attrs.append(b"link-output-path: " + yq(d["lop"]))
    if d["repair"] is not None:
        attrs.append(b"repair-via-ownership-analysis: " + yb(d["repair"]))
    if d.get("desc") is not None:
        attrs.append(b"description: " + yq(d["desc"]))
    if d.get("order"):
        import random
        random.Random(d["order"]).shuffle(attrs)
    return text + b"".join(b"    " + x + b"\n" for x in attrs)

def symlink_relevant(d):
    """From the property text: declared outputs, contents (the tool's argument), declared inputs."""
    return (tuple(d["outputs"]), d["contents"], tuple(d["inputs"]))

def gen_symlink(rng):
    d = dict(name=rnd_bytes(rng, allow_empty=False), inputs=rnd_list(rng, rnd_node, 3), contents=rnd_bytes(rng), lop=b"", repair=None, desc=None, order=0)
    pattern = rng.choice(["plain", "virtual+lop", "virtual+lop", "plain+lop"])
    if pattern == "plain":
        d["outputs"] = [rnd_node(rng)]
    elif pattern == "virtual+lop":
        d["outputs"] = [b"<" + rnd_node(rng).strip(b"<>/") + b"x>"]
        d["lop"] = rnd_node(rng)
    else:
        d["outputs"] = [rnd_node(rng)]
        d["lop"] = rnd_node(rng)
    d["repair"] = rng.choice([None, True, False])
    return d

def symlink_mutations(rng, d):
    """(kind, d', relevant?) - relevant edits must change the signature; the others are what the current code leaves
    out of the signature (model: sdef_unhashed_parts)"""
    out = []
    def mk(kind, rel, **kw):
        e = copy.deepcopy(d)
        e.update(kw)
        out.append((kind, e, rel))
    o = d["outputs"][0]
    mk("symlink-output", True, outputs=[(b"<" + o.strip(b"<>") + b"2>") if o.startswith(b"<") else o + b"2"])
    mk("symlink-contents", True, contents=other_bytes(rng, d["contents"]))
    i = d["inputs"]
    mk("symlink-inputs-add", True, inputs=i + [rnd_node(rng)])
    if i:
        k = rng.randrange(len(i))
        mk("symlink-inputs-remove", True, inputs=i[:k] + i[k + 1:])
        mk("symlink-inputs-modify", True, inputs=i[:k] + [i[k] + b"x"] + i[k + 1:])
    if len(i) > 1 and i[0] != i[1]:
        mk("symlink-inputs-swap", True, inputs=[i[1], i[0]] + i[2:])
    mk("symlink-link-output-path", False, lop=other_bytes(rng, d["lop"], False) if d["lop"] else rnd_node(rng))
    if d["lop"]:
        mk("symlink-link-output-path-remove", False, lop=b"")
    mk("symlink-repair-flag", False, repair=(not d["repair"]) if d["repair"] is not None else True)
    mk("symlink-respelled", False, desc=rnd_bytes(rng), order=rng.randrange(1, 1 << 30))
    return [(k, e, r) for (k, e, r) in out if (symlink_relevant(e) != symlink_relevant(d)) == r]

def run_other_tools(chk, drive, model, base):
    """symlink (own chain: first output, contents, inputs; link-output-path, the repair flag and the name are not
    hashed) and stale-file-removal (Command::getSignature: the name)."""
    rng = chk.rng
    odir = os.path.join(base, "other")
    os.makedirs(odir)
    cases = []
    def emit(text):
        path = os.path.join(odir, "%d.llbuild" % len(cases))
        with open(path, "wb") as f:
            f.write(b"client:\n  name: basic\n\ncommands:\n" + text)
        return path
    def add_symlink(d):
        cases.append(dict(kind="symlink", d=d, path=emit(render_symlink(d)), name=d["name"], out=d["outputs"][0], fold="fold ",
                          mreq="sdef_tokens %s %s %s %s %s %d" % (hx(d["name"]), fl(d["inputs"]), fl(d["outputs"]), hx(d["contents"]), hx(d["lop"]), 1 if d["repair"] else 0)))
        return len(cases) - 1
    pairs = []
    # corpus: the documented pattern (virtual declared output + link-output-path), declared output renamed
    a = dict(name=b"C.link", inputs=[], outputs=[b"<link-a>"], contents=b"target.txt", lop=b"link", repair=None, desc=b"LINK", order=0)
    pairs.append(("symlink-output", add_symlink(a), add_symlink(dict(a, outputs=[b"<link-b>"])), True))
    per_kind = {}
    for n in range(chk.n(70, 700)):
        d = gen_symlink(rng)
        i = add_symlink(d)
        ms = symlink_mutations(rng, d)
        ms.sort(key=lambda m: (per_kind.get(m[0], 0), rng.random()))
        for kind, e, rel in ms[:chk.n(4, 6)]:
            per_kind[kind] = per_kind.get(kind, 0) + 1
            pairs.append((kind, i, add_symlink(e), rel))
    for n in range(chk.n(30, 300)):
        name = rnd_bytes(rng, allow_empty=False)
        text = b"  " + yq(name) + b":\n    tool: stale-file-removal\n    expectedOutputs: " + ylist([rnd_node(rng) for _ in range(rng.randint(0, 3))]) + b'\n    outputs: ["<sfr>"]\n'
        cases.append(dict(kind="stale-file-removal", path=emit(text), name=name, out=b"<sfr>", mreq="plain_tokens %s" % hx(name), fold="fold0 "))
    rc, ans, err = drive(["sig %s %s %s" % (c["path"], hx(c["name"]), hx(c["out"])) for c in cases])
    if rc != 0 or len(ans) != len(cases):
        chk.violation("sig-driver-crash-other-tools", "the implementation crashed while loading a generated symlink / stale-file-removal description",
                      dict(rc=rc, stderr=err[-1500:], file=cases[min(len(ans), len(cases) - 1)]["path"]), found_input=True)
        return
    rc2, ans2, err2 = drive(["sig %s %s %s" % (c["path"], hx(c["name"]), hx(c["out"])) for c in cases])     # second process
    rcm, toks, em = vlib.run_lines(model, [c["mreq"] for c in cases])
    assert rcm == 0 and len(toks) == len(cases) and not any(t.startswith(("ERR", "EXC", "OVERREAD")) for t in toks), (em[-300:], [t for t in toks if t[:3] in ("ERR", "EXC", "OVE")][:2])
    rcf, folds, ef = drive([c["fold"] + t for c, t in zip(cases, toks)])
    ok = lambda i: not ans[i].startswith("ERR")
    for i, a in enumerate(ans):
        if not ok(i):
            chk.notes.setdefault("other_tool_rejections", []).append(a[:200])
    show = lambda d: {k: ([x.decode("utf-8", "replace") for x in v] if isinstance(v, list) else v.decode("utf-8", "replace") if isinstance(v, bytes) else v) for k, v in d.items() if k not in ("order",)}
    oracle_failed = False
    npairs = 0
    for kind, i, j, rel in pairs:
        if not (ok(i) and ok(j)):
            continue
        npairs += 1
        chk.count(("pair", kind, toks[i], toks[j]))
        if rel and ans[i] == ans[j]:
            oracle_failed = True
            chk.violation("sig-collision-" + kind, "two symlink commands that differ in one signature-relevant attribute (%s) have the same signature %s: the edited command would not re-run" % (kind, ans[i]),
                          dict(edit=kind, definition1=show(cases[i]["d"]), definition2=show(cases[j]["d"]), signature=ans[i], files=[cases[i]["path"], cases[j]["path"]],
                               model_tokens=[toks[i], toks[j]]),
                          found_input=True, broken="c09 oracle: different definitions have different signatures")
        elif kind == "symlink-respelled" and ans[i] != ans[j]:
            oracle_failed = True
            chk.violation("sig-unstable-respelling", "the same symlink command written with another attribute order / description has another signature (%s vs %s)" % (ans[i], ans[j]),
                          dict(definition=show(cases[i]["d"]), files=[cases[i]["path"], cases[j]["path"]]), found_input=True,
                          broken="c09 oracle: an unchanged definition has an unchanged signature")
    dis = 0
    for i, (c, a, a2, tk, fo) in enumerate(zip(cases, ans, ans2, toks, folds)):
        if not ok(i):
            continue
        chk.count((c["kind"], tk))
        if a != a2:
            chk.violation("sig-differs-between-processes", "the same %s definition loaded in two processes has two signatures (%s, %s)" % (c["kind"], a, a2),
                          dict(file=c["path"]), found_input=True, broken="c09 oracle: signature is process independent")
        if a != fo:
            dis += 1
            if dis == 1 and not oracle_failed:
                chk.violation("other-tool-token-correspondence", "%s command: getSignature() (%s) differs from the fold of the model's tokens (%s); %s" % (
                                  c["kind"], a, fo, "the oracle found no property failure"),
                              dict(file=c["path"], model_tokens=tk, definition=show(c["d"]) if "d" in c else c["name"].decode("utf-8", "replace")),
                              found_input=False, broken="correspondence: BSys.Sig.sdef_sig_tokens / plain_sig_tokens")
    chk.cov["other_tool_cases"] = len(cases)
    chk.cov["other_tool_disagreements"] = dis
    chk.cov["symlink_pairs"] = npairs
    chk.cov["symlink_pair_kinds"] = per_kind

# ---------------------------------------------------------------- (d) CLI

def script(tag, outs, extra=""):
    s = "echo %s >> runs.log; " % tag
    for o in outs:
        if not o.startswith("<"):
            s += "[ -f %s ] || echo %s > %s; " % (o, tag, o)
    return (s + extra).encode()

DEPS_SCRIPT = ("if [ -f use-di ]; then printf '\\000v\\000\\020src.txt\\000' > c1.d; else echo 'mid.txt: src.txt' > c1.d; fi; "
               "echo 'mid.txt: src.txt' > c1b.d")

def pipeline():
    c1 = new_def(name=b"C1", inputs=[b"src.txt"], outputs=[b"mid.txt"], args=SH + [script("C1", ["mid.txt"], DEPS_SCRIPT), b"ab", b"c"],
                 env=[(b"A", b"1")])
    c2 = new_def(name=b"C2", inputs=[b"mid.txt"], outputs=[b"out.txt"], args=SH + [script("C2", ["out.txt"])])
    c3 = new_def(name=b"C3", inputs=[b"other.txt"], outputs=[b"o3.txt"], args=SH + [script("C3", ["o3.txt"])])
    return [c1, c2, c3]

def S(cmds, i, **kw):
    out = copy.deepcopy(cmds)
    out[i].update(kw)
    return out

def scenarios():
    """(key, setup(cmds)->cmds0, edit(cmds0)->cmds1 or None, file action or None, expected set after the edit,
        expected set of the build after that, strict)"""
    c1args = pipeline()[0]["args"]
    L = []
    def add(key, setup=None, edit=None, action=None, expect=(), then=(), strict=True):
        L.append(dict(key=key, setup=setup, edit=edit, action=action, expect=set(expect), then=set(then), strict=strict))
    add("null")
    # corpus first: the three collisions of the unrepaired chain, through the CLI
    add("deps-style-makefile-to-ignoring", setup=lambda c: S(c, 0, deps=[b"c1.d"], ds=1), edit=lambda c: S(c, 0, ds=3), expect=["C1"])
    add("move-input-to-outputs", setup=lambda c: S(c, 0, inputs=[b"src.txt", b"aux.txt"]),
        edit=lambda c: S(c, 0, inputs=[b"src.txt"], outputs=[b"aux.txt", b"mid.txt"]), expect=["C1"])
    add("move-args-tail-to-env", setup=lambda c: S(c, 0, args=c1args + [b"K", b"V"], env=[]),
        edit=lambda c: S(c, 0, args=c1args, env=[(b"K", b"V")]), expect=["C1"])
    add("deps-style-makefile-to-dependency-info", setup=lambda c: S(c, 0, deps=[b"c1.d"], ds=1), edit=lambda c: S(c, 0, ds=2),
        action=lambda sb: open(os.path.join(sb, "use-di"), "w").close(), expect=["C1"])
    add("args-append", edit=lambda c: S(c, 0, args=c1args + [b"x"]), expect=["C1"])
    add("args-shift-boundary", edit=lambda c: S(c, 0, args=c1args[:-2] + [b"a", b"bc"]), expect=["C1"])
    add("args-merge-adjacent", edit=lambda c: S(c, 0, args=c1args[:-2] + [b"abc"]), expect=["C1"])
    add("env-value", edit=lambda c: S(c, 0, env=[(b"A", b"2")]), expect=["C1"])
    add("env-add", edit=lambda c: S(c, 0, env=[(b"A", b"1"), (b"B", b"1")]), expect=["C1"])
    add("env-key-value-boundary", setup=lambda c: S(c, 0, env=[(b"AB", b"1")]), edit=lambda c: S(c, 0, env=[(b"A", b"B1")]), expect=["C1"])
    add("inputs-add", edit=lambda c: S(c, 0, inputs=[b"src.txt", b"extra.txt"]), expect=["C1"])
    add("inputs-swap", setup=lambda c: S(c, 0, inputs=[b"src.txt", b"aux.txt"]), edit=lambda c: S(c, 0, inputs=[b"aux.txt", b"src.txt"]), expect=["C1"])
    add("outputs-add-virtual", edit=lambda c: S(c, 0, outputs=[b"mid.txt", b"<c1-done>"]), expect=["C1"])
    add("flag-allow-missing-inputs", edit=lambda c: S(c, 0, ami=True), expect=["C1"])
    add("flag-allow-modified-outputs", edit=lambda c: S(c, 0, amo=True), expect=["C1"])
    add("flag-always-out-of-date", edit=lambda c: S(c, 2, aood=True), expect=["C3"], then=["C3"])
    add("flag-inherit-env", edit=lambda c: S(c, 0, ie=not c[0]["ie"]), expect=["C1"])
    add("flag-can-safely-interrupt", edit=lambda c: S(c, 0, csi=not c[0]["csi"]), expect=["C1"])
    add("deps-add-path", setup=lambda c: S(c, 0, deps=[b"c1.d"], ds=1), edit=lambda c: S(c, 0, deps=[b"c1.d", b"c1b.d"]), expect=["C1"])
    add("deps-introduce", edit=lambda c: S(c, 0, deps=[b"c1.d"], ds=1), expect=["C1"])
    add("signature-add", edit=lambda c: S(c, 0, sigdata=b"s1"), expect=["C1"])
    add("signature-change", setup=lambda c: S(c, 0, sigdata=b"s1"), edit=lambda c: S(c, 0, sigdata=b"s2"), expect=["C1"])
    add("rename-command", edit=lambda c: S(c, 2, name=b"C3b"), expect=["C3"])
    add("second-command-args", edit=lambda c: S(c, 1, args=c[1]["args"] + [b"y"]), expect=["C2"])
    # not signature relevant: nothing may run
    add("description-only", edit=lambda c: S(c, 0, desc=b"another description"), expect=[])
    add("respelled", edit=lambda c: [dict(d, order=7 + i, explicit_defaults=True) for i, d in enumerate(c)], expect=[])
    # documented exception: with an explicit signature the arguments do not count (model: explicit_signature_hides)
    add("explicit-signature-hides-args", setup=lambda c: S(c, 0, sigdata=b"s1"), edit=lambda c: S(c, 0, args=c1args + [b"x"]), expect=[], strict=False)
    # outputs damaged between builds
    add("delete-intermediate-output", action=lambda sb: os.remove(os.path.join(sb, "mid.txt")), expect=["C1", "C2"])
    add("delete-final-output", action=lambda sb: os.remove(os.path.join(sb, "out.txt")), expect=["C2"])
    add("modify-output-content", action=lambda sb: open(os.path.join(sb, "o3.txt"), "a").write("more\n"), expect=["C3"])
    add("touch-output", action=lambda sb: os.utime(os.path.join(sb, "o3.txt"), ns=(10**18, 10**18)), expect=["C3"])
    add("always-out-of-date-from-start", setup=lambda c: S(c, 2, aood=True), expect=[], then=["C3"])
    add("stale-file-removal-present", setup=lambda c: c + [dict(new_def(tool="stale-file-removal", name=b"SFR", outputs=[b"<sfr>"], args=[]), raw=True)], expect=[])
    return L

def render_cli_file(cmds):
    normal = [d for d in cmds if not d.get("raw")]
    text = render_file(normal, targets={b"": [b"out.txt", b"o3.txt"] + ([b"<sfr>"] if len(normal) != len(cmds) else [])})
    for d in cmds:
        if d.get("raw"):
            text += b'  "SFR":\n    tool: stale-file-removal\n    expectedOutputs: ["gone.txt"]\n    outputs: ["<sfr>"]\n'
    return text

def run_cli(chk, base):
    llb = vlib.llbuild_bin()
    rng = chk.rng
    scs = scenarios()
    reps = chk.n(1, 6)
    nrun = nbuilds = 0
    for rep in range(reps):
        for sc in scs:
            sb = os.path.join(base, "cli", "%s-%d" % (sc["key"], rep))
            os.makedirs(sb)
            for f in ("src.txt", "other.txt", "aux.txt", "extra.txt"):
                open(os.path.join(sb, f), "w").write(f + "\n")
            cmds0 = pipeline()
            if rep > 0:
                # vary the base definition: the edit must have the same effect whatever the other attributes are
                for d in cmds0:
                    d["env"] = d["env"] + [(b"Z%d" % k, rnd_bytes(rng).replace(b"\0", b"")) for k in range(rng.randint(0, 2))]
                    d["csi"] = rng.random() < 0.5
                    d["ie"] = rng.random() < 0.7
                    d["order"] = rng.randrange(1 << 20)
                    d["explicit_defaults"] = rng.random() < 0.5
            if sc["setup"]:
                cmds0 = sc["setup"](cmds0)
            always = set(d["name"].decode() for d in cmds0 if d.get("aood"))
            cmds1 = sc["edit"](cmds0) if sc["edit"] else cmds0
            log = os.path.join(sb, "runs.log")
            history = []
            def build(cmds, label):
                nonlocal nbuilds
                bf = os.path.join(sb, "build-%s.llbuild" % label)
                open(bf, "wb").write(render_cli_file(cmds))
                if os.path.exists(log):
                    os.remove(log)
                rc, out, err = vlib.sh([llb, "buildsystem", "build", "--serial", "--chdir", sb, "--db", "build.db", "-f", bf], timeout=120)
                nbuilds += 1
                ran = sorted(open(log).read().split()) if os.path.exists(log) else []
                history.append(dict(step=label, file=bf, rc=rc, executed=ran, stdout=out[-400:], stderr=err[-400:]))
                return rc, ran
            def fail(key, what, found=True):
                chk.violation(key, what, dict(scenario=sc["key"], sandbox=sb, history=history,
                                              how="llbuild buildsystem build --serial --chdir <sandbox> --db build.db -f <file>, one process per step; executed = tags appended to runs.log"),
                              found_input=found, broken="c09 oracle on llbuild buildsystem build" if found else "correspondence: explicit signature hides arguments")
            nrun += 1
            rc, ran = build(cmds0, "1-first")
            allc = sorted(d["name"].decode() for d in cmds0 if d["tool"] == "shell")
            if rc != 0 or ran != allc:
                fail("cli-first-build", "the first build of the scenario did not execute every command exactly once (executed %s, exit %d)" % (ran, rc))
                continue
            rc, ran = build(cmds0, "2-null")
            chk.count(("cli", sc["key"], "null"))
            if rc != 0 or set(ran) - always or len(ran) != len(set(ran)) or set(ran) != always:
                fail("cli-null-build-executes", "a build immediately after a successful build, in a new process, executed %s (expected %s)" % (ran, sorted(always)))
                continue
            if sc["edit"] is None and sc["action"] is None:
                shutil.rmtree(sb, ignore_errors=True)
                continue
            if sc["action"]:
                sc["action"](sb)
            always1 = set(d["name"].decode() for d in cmds1 if d.get("aood"))
            rc, ran = build(cmds1, "3-edited")
            expect = set(sc["expect"]) | always1
            if sc["key"] == "rename-command":
                expect = {"C3"} | always1        # the renamed command's script still logs the tag C3
            chk.count(("cli", sc["key"], "edit"))
            if rc != 0:
                fail("cli-edited-build-fails", "the build after the edit `%s` failed (exit %d)" % (sc["key"], rc))
                continue
            if set(ran) != expect or len(ran) != len(set(ran)):
                missing, extra = sorted(expect - set(ran)), sorted(set(ran) - expect)
                if not sc["strict"]:
                    fail("cli-explicit-signature-args", "with an explicit signature, a change of the arguments executed %s; the model says the arguments are not part of the signature then" % ran, found=False)
                elif missing:
                    fail("cli-not-rerun-" + sc["key"], "after `%s` the command(s) %s did not execute (executed: %s)" % (sc["key"], missing, ran))
                else:
                    fail("cli-spurious-rerun-" + sc["key"], "after `%s` the command(s) %s executed although nothing they depend on changed (executed: %s)" % (sc["key"], extra, ran))
                continue
            rc, ran = build(cmds1, "4-null-again")
            chk.count(("cli", sc["key"], "null-again"))
            expect2 = set(sc["then"]) | always1
            if rc != 0 or set(ran) != expect2 or len(ran) != len(set(ran)):
                fail("cli-null-build-executes", "the build after the re-run, with nothing changed, executed %s (expected %s)" % (ran, sorted(expect2)))
                continue
            if rep == 0 and sc["key"] in ("move-input-to-outputs", "delete-intermediate-output"):
                chk.sample(dict(kind="cli", scenario=sc["key"], executed_per_step=[(h["step"], h["executed"]) for h in history]))
            shutil.rmtree(sb, ignore_errors=True)
    chk.cov["cli_scenarios"] = nrun
    chk.cov["cli_builds"] = nbuilds

def run_cli_symlink(chk, base):
    """Symlink tool through the CLI: executions are the lines LINK (the description) that llbuild prints."""
    llb = vlib.llbuild_bin()
    A = dict(name=b"C.link", inputs=[], outputs=[b"<link-a>"], contents=b"target.txt", lop=b"link", repair=None, desc=b"LINK", order=0)
    B = dict(A, outputs=[b"plain-a"], lop=b"")
    TA, TB = [b"<link-a>", b"<link-b>"], [b"plain-a", b"plain-b"]
    def rm(name):
        return lambda sb: os.remove(os.path.join(sb, name))
    def relink(sb):
        os.remove(os.path.join(sb, "link"))
        os.symlink("elsewhere", os.path.join(sb, "link"))
    # (key, base, targets, edit, action, expected executions after the edit, strict)
    SC = [("sym-null", A, TA, None, None, 0, True),
          ("sym-output-virtual-with-link-output-path", A, TA, dict(outputs=[b"<link-b>"]), None, 1, True),
          ("sym-contents-with-link-output-path", A, TA, dict(contents=b"target2.txt"), None, 1, True),
          ("sym-inputs-add-with-link-output-path", A, TA, dict(inputs=[b"src.txt"]), None, 1, True),
          ("sym-link-output-path-change", A, TA, dict(lop=b"link2"), None, 1, True),
          ("sym-link-deleted", A, TA, None, rm("link"), 1, True),
          ("sym-link-replaced", A, TA, None, relink, 1, True),
          ("sym-description-only", A, TA, dict(desc=b"LINK", order=5), None, 0, True),
          ("sym-repair-flag", A, TA, dict(repair=True), None, 0, False),
          ("sym-output-plain", B, TB, dict(outputs=[b"plain-b"]), rm("plain-b"), 1, True),
          ("sym-contents-plain", B, TB, dict(contents=b"target2.txt"), None, 1, True),
          ("sym-inputs-add-plain", B, TB, dict(inputs=[b"src.txt"]), None, 1, True)]
    n = 0
    for key, d0, targets, edit, action, expect, strict in SC:
        sb = os.path.join(base, "cli", key)
        os.makedirs(sb)
        for f in ("target.txt", "target2.txt", "src.txt"):
            open(os.path.join(sb, f), "w").write(f + "\n")
        if d0 is B:
            open(os.path.join(sb, "plain-b"), "w").write("x\n")
        history = []
        def build(d, label):
            bf = os.path.join(sb, "build-%s.llbuild" % label)
            open(bf, "wb").write(b"client:\n  name: basic\n\ntargets:\n  \"\": " + ylist(targets) + b"\n\ncommands:\n" + render_symlink(d))
            rc, out, err = vlib.sh([llb, "buildsystem", "build", "--serial", "--chdir", sb, "--db", "build.db", "-f", bf], timeout=120)
            runs = sum(1 for l in out.split("\n") if l.strip() == "LINK")
            history.append(dict(step=label, file=bf, rc=rc, executions=runs, stdout=out[-300:], stderr=err[-300:]))
            return rc, runs
        def fail(k, what, found=True):
            chk.violation(k, what, dict(scenario=key, sandbox=sb, history=history,
                                        how="llbuild buildsystem build --serial --chdir <sandbox> --db build.db -f <file>, one process per step; executions = lines `LINK` on stdout"),
                          found_input=found, broken="c09 oracle on llbuild buildsystem build (symlink tool)" if found else "correspondence: symlink unhashed parts")
        n += 1
        rc, runs = build(d0, "1-first")
        if rc != 0 or runs != 1:
            fail("cli-first-build", "the first build of the symlink scenario executed the command %d times (exit %d)" % (runs, rc)); continue
        rc, runs = build(d0, "2-null")
        chk.count(("cli", key, "null"))
        if rc != 0 or runs != 0:
            fail("cli-null-build-executes", "a build immediately after a successful build, in a new process, executed the symlink command %d times" % runs); continue
        if edit is None and action is None:
            shutil.rmtree(sb, ignore_errors=True); continue
        if action:
            action(sb)
        d1 = dict(d0, **(edit or {}))
        rc, runs = build(d1, "3-edited")
        chk.count(("cli", key, "edit"))
        if rc != 0:
            fail("cli-edited-build-fails", "the build after `%s` failed (exit %d)" % (key, rc)); continue
        if runs != expect:
            if not strict:
                fail("cli-symlink-unhashed-part", "after `%s` the symlink command executed %d times; the model says this attribute is not part of the signature" % (key, runs), found=False)
            elif runs < expect:
                fail("cli-not-rerun-" + key, "after `%s` the symlink command did not execute although a signature-relevant part of its definition (or its output) changed" % key)
            else:
                fail("cli-spurious-rerun-" + key, "after `%s` the symlink command executed %d times although nothing relevant changed" % (key, runs))
            continue
        want = (d1["lop"] or d1["outputs"][0]).decode()
        if not want.startswith("<") and not os.path.islink(os.path.join(sb, want)):
            fail("cli-link-missing-" + key, "after `%s` there is no symbolic link at %s" % (key, want)); continue
        rc, runs = build(d1, "4-null-again")
        chk.count(("cli", key, "null-again"))
        if rc != 0 or runs != 0:
            fail("cli-null-build-executes", "the build after the re-run, with nothing changed, executed the symlink command %d times" % runs); continue
        if key == "sym-output-virtual-with-link-output-path":
            chk.sample(dict(kind="cli-symlink", scenario=key, executions_per_step=[(h["step"], h["executions"]) for h in history]))
        shutil.rmtree(sb, ignore_errors=True)
    chk.cov["cli_symlink_scenarios"] = n

def layouts(chk):
    base = ["VF", "FV", "FVF", "VFF", "FFV", "VVF", "VFV", "FVV", "V", "VV", "FVFVF", "VFVF"]
    if not chk.quick():
        import itertools
        base += ["".join(t) for n in (3, 4) for t in itertools.product("VF", repeat=n)]
    return sorted(set(base), key=lambda x: (len(x), x))

def run_cli_layouts(chk, base):
    """Output lists mixing virtual and file nodes in every order: null builds run nothing; damaging the file output at
    each position re-runs the producer exactly once (stored info i belongs to declared output i)."""
    llb = vlib.llbuild_bin()
    nl = nb = 0
    for lay in layouts(chk):
        sb = os.path.join(base, "cli", "layout-" + lay)
        os.makedirs(sb)
        outs = [("<v%d>" % i) if k == "V" else ("f%d.txt" % i) for i, k in enumerate(lay)]
        files = [o for o in outs if not o.startswith("<")]
        g = new_def(name=b"G", outputs=[o.encode() for o in outs], args=SH + [script("G", outs)])
        h = new_def(name=b"H", inputs=[b"h.in"], outputs=[b"h.out"], args=SH + [script("H", ["h.out"])])
        allc = new_def(tool="phony", name=b"all", inputs=[o.encode() for o in outs] + [b"h.out"], outputs=[b"<all>"], args=[])
        open(os.path.join(sb, "h.in"), "w").write("h\n")
        bf = os.path.join(sb, "build.llbuild")
        open(bf, "wb").write(render_file([g, h, allc], targets={b"": [b"<all>"]}))
        log = os.path.join(sb, "runs.log")
        history = []
        def build(label):
            nonlocal nb
            if os.path.exists(log):
                os.remove(log)
            rc, out, err = vlib.sh([llb, "buildsystem", "build", "--serial", "--chdir", sb, "--db", "build.db", "-f", bf], timeout=120)
            nb += 1
            ran = sorted(open(log).read().split()) if os.path.exists(log) else []
            history.append(dict(step=label, rc=rc, executed=ran, stderr=err[-300:]))
            return rc, ran
        def fail(key, what):
            chk.violation(key, what, dict(outputs=outs, layout=lay, sandbox=sb, file=bf, history=history,
                                          how="llbuild buildsystem build --serial --chdir <sandbox> --db build.db -f build.llbuild, one process per step; executed = tags appended to runs.log"),
                          found_input=True, broken="c09 oracle on llbuild buildsystem build (output list mixing virtual and file nodes)")
        nl += 1
        rc, ran = build("first")
        if rc != 0 or ran != ["G", "H"]:
            fail("cli-first-build", "the first build with outputs %s executed %s (exit %d)" % (outs, ran, rc)); continue
        bad = False
        for k in range(2):
            rc, ran = build("null-%d" % k)
            chk.count(("cli-layout", lay, "null"))
            if rc != 0 or ran:
                fail("cli-null-build-executes", "a command with outputs %s executed again (%s) in a build immediately after a successful build with nothing changed" % (outs, ran))
                bad = True
                break
        if bad:
            continue
        for n, f in enumerate(files):
            path = os.path.join(sb, f)
            how = ["delete", "modify", "touch"][(n + len(lay)) % 3]
            if how == "delete":
                os.remove(path)
            elif how == "modify":
                open(path, "a").write("tampered\n")
            else:
                os.utime(path, ns=(10**18 + n, 10**18 + n))
            rc, ran = build("%s-%s" % (how, f))
            chk.count(("cli-layout", lay, how, outs.index(f)))
            if rc != 0 or ran != ["G"]:
                fail("cli-not-rerun-damaged-output" if "G" not in ran else "cli-spurious-rerun-damaged-output",
                     "after `%s` of output %s (position %d of %s) the build executed %s instead of exactly the producer G" % (how, f, outs.index(f), outs, ran))
                bad = True
                break
            rc, ran = build("null-after-%s" % f)
            chk.count(("cli-layout", lay, "null-after", outs.index(f)))
            if rc != 0 or ran:
                fail("cli-null-build-executes", "after the producer of %s re-ran, a build with nothing changed executed %s" % (outs, ran))
                bad = True
                break
        if not bad:
            if lay == "FVF":
                chk.sample(dict(kind="cli-layout", outputs=outs, executed_per_step=[(x["step"], x["executed"]) for x in history]))
            shutil.rmtree(sb, ignore_errors=True)
    chk.cov["cli_output_layouts"] = nl
    chk.cov["cli_layout_builds"] = nb

def run_cli_dirs(chk, base):
    """Commands whose declared output is a DIRECTORY: the output no longer matches what was produced when an entry is
    removed / added inside (the directory's time stamp moves), when it is touched, or when it is replaced by a file."""
    import time
    llb = vlib.llbuild_bin()
    n = nb = 0
    for dname in ("gen.d", "out/"):
        for tamper in ("remove-entry", "add-entry", "touch-directory", "replace-by-file", "none"):
            sb = os.path.join(base, "cli", "dir-%s-%s" % (dname.strip("/"), tamper))
            os.makedirs(sb)
            D = dname.rstrip("/")
            scr = ("echo GEN >> runs.log; [ -d %s ] || { rm -f %s; mkdir -p %s; }; [ -f %s/data.txt ] || echo payload > %s/data.txt" % (D, D, D, D, D)).encode()
            g = new_def(name=b"GEN", outputs=[dname.encode()], args=SH + [scr])
            h = new_def(name=b"H", inputs=[b"h.in"], outputs=[b"h.out"], args=SH + [script("H", ["h.out"])])
            allc = new_def(tool="phony", name=b"all", inputs=[dname.encode(), b"h.out"], outputs=[b"<all>"], args=[])
            open(os.path.join(sb, "h.in"), "w").write("h\n")
            bf = os.path.join(sb, "build.llbuild")
            open(bf, "wb").write(render_file([g, h, allc], targets={b"": [b"<all>"]}))
            log = os.path.join(sb, "runs.log")
            history = []
            def build(label):
                nonlocal nb
                if os.path.exists(log):
                    os.remove(log)
                rc, out, err = vlib.sh([llb, "buildsystem", "build", "--serial", "--chdir", sb, "--db", "build.db", "-f", bf], timeout=120)
                nb += 1
                ran = sorted(open(log).read().split()) if os.path.exists(log) else []
                history.append(dict(step=label, rc=rc, executed=ran, stderr=err[-300:]))
                return rc, ran
            def fail(key, what):
                chk.violation(key, what, dict(output=dname, tamper=tamper, sandbox=sb, file=bf, history=history,
                                              how="llbuild buildsystem build --serial --chdir <sandbox> --db build.db -f build.llbuild, one process per step; executed = tags appended to runs.log"),
                              found_input=True, broken="c09 oracle on llbuild buildsystem build (directory output)")
            n += 1
            rc, ran = build("first")
            if rc != 0 or ran != ["GEN", "H"]:
                fail("cli-first-build", "the first build with the directory output %s executed %s (exit %d)" % (dname, ran, rc)); continue
            rc, ran = build("null")
            chk.count(("cli-dir", dname, tamper, "null"))
            if rc != 0 or ran:
                fail("cli-null-build-executes", "a command whose output is the directory %s executed again (%s) in a build right after a successful build" % (dname, ran)); continue
            if tamper == "none":
                shutil.rmtree(sb, ignore_errors=True); continue
            time.sleep(0.03)     # coarse file system clock: the tampering must not fall into the tick of the command's own writes
            dp = os.path.join(sb, D)
            if tamper == "remove-entry":
                os.remove(os.path.join(dp, "data.txt"))
            elif tamper == "add-entry":
                open(os.path.join(dp, "extra.txt"), "w").write("x\n")
            elif tamper == "touch-directory":
                os.utime(dp, ns=(10**18, 10**18))
            else:
                shutil.rmtree(dp)
                open(dp, "w").write("now a file\n")
            rc, ran = build(tamper)
            chk.count(("cli-dir", dname, tamper, "edit"))
            if rc != 0 or ran != ["GEN"]:
                fail("cli-not-rerun-directory-output-" + tamper if "GEN" not in ran else "cli-spurious-rerun-directory-output-" + tamper,
                     "after `%s` on the directory output %s the build executed %s instead of exactly its producer GEN (exit %d)" % (tamper, dname, ran, rc))
                continue
            if not os.path.isfile(os.path.join(dp, "data.txt")):
                fail("cli-directory-output-not-regenerated", "after `%s` the producer ran but %s/data.txt is missing" % (tamper, D)); continue
            rc, ran = build("null-again")
            chk.count(("cli-dir", dname, tamper, "null-again"))
            if rc != 0 or ran:
                fail("cli-null-build-executes", "after the producer of the directory %s re-ran, a build with nothing changed executed %s" % (dname, ran)); continue
            shutil.rmtree(sb, ignore_errors=True)
    chk.cov["cli_directory_output_scenarios"] = n
    chk.cov["cli_directory_output_builds"] = nb

# ---------------------------------------------------------------- entry points

def run(chk):
    drv = vlib.build_drivers(["sig_driver"])["sig_driver"]
    model = vlib.model_bin(AREA)
    chk.proof_gate()
    base = os.path.join(vlib.WORK, "tmp", "c09")
    shutil.rmtree(base, ignore_errors=True)
    os.makedirs(base)
    run_signatures(chk, drv, model, base)
    run_cli(chk, base)
    run_cli_symlink(chk, base)
    run_cli_layouts(chk, base)
    run_cli_dirs(chk, base)
    if not chk.violations:
        shutil.rmtree(os.path.join(base, "defs"), ignore_errors=True)
        shutil.rmtree(os.path.join(base, "nodes"), ignore_errors=True)
        shutil.rmtree(os.path.join(base, "other"), ignore_errors=True)
    chk.assumptions = ["ideal hash: llvm::hash_value / llvm::hash_combine are collision-free on the token lists compared (premise of every c09_*sig* theorem; 64-bit values in the implementation)",
                       "list lengths are below 2^64 (uint64_t(size()) does not wrap)",
                       "generated byte strings are valid UTF-8 without U+0085/U+2028/U+2029 (they must survive the YAML loader unchanged); node names are relative paths",
                       "custom tools (clang, swift-compiler, archive, shell tool plug-ins) are not modelled; shell, phony, mkdir, symlink and stale-file-removal signatures are modelled and tied",
                       "re-run decision model (rerun_decision) is tied to the code by the CLI scenarios only"]
    return chk.finish(level="proof",
                      rule="signatures: random shell / phony / mkdir definitions over an alphabet of YAML-hostile atoms (quotes, escapes, control bytes, multi-byte UTF-8, empty strings, duplicate and shared node names, explicit signature) loaded by the real loader; "
                           "every definition: getSignature() == fold of llvm::hash_combine over the model tokens; pairs: every applicable single-attribute edit kind incl. every list-boundary move and adjacent-argument boundary move; "
                           "symlink commands with and without link-output-path (virtual declared output pattern), repair flag, one-attribute pairs (output, contents, inputs relevant; link-output-path, repair flag, name unhashed); non-trivial = every definition / pair (distinct by model token list); cli: one scenario per edit kind, each = first build, null build, edited build, null build in four processes over one database; 12 symlink scenarios (executions read from the LINK lines llbuild prints); output lists mixing virtual and file nodes in every order (quick: 12 layouts, thorough: all of length <= 4): two null builds, then each file output deleted / modified / touched in turn; directory outputs (plain node `gen.d` and directory node `out/`): entry removed / added inside, directory touched, directory replaced by a file",
                      trusted=["ideal hash: llvm::hash_combine collision-free on compared token lists",
                               "hand-written model coq/BSys/Sig.v, tied by the exact 64-bit correspondence check",
                               "harness/cpp/sig_driver.cpp", "extraction (ExtrOcamlBasic) + ocaml/vmodel_sig.ml"])

def replay(chk, rp):
    print(json.dumps({k: v for k, v in rp.items() if k not in ("history",)}, indent=1, default=str)[:6000])
    return run(chk)
