# C16 - every job runs exactly once within the lane limit; every process is accounted for (PARTIAL: see `extra`)
import os, json, shutil, time
import vlib
from vlib import hx, unhx

STATUS_CODE = {"Succeeded": 0, "Failed": 1, "Cancelled": 2}
K_BUILD, K_LANE, K_TASK, K_CFD = b"LLBUILD_BUILD_ID", b"LLBUILD_LANE_ID", b"LLBUILD_TASK_ID", b"LLBUILD_CONTROL_FD"
def drv_env():
    # the driver's own environment = the "inherited" base when the queue is created with environment == nullptr
    return {"PATH": "/usr/bin:/bin", "LLBUILD_TEST": "1", "HOME": "/nonexistent", "C16_MARK": "from-environ", "LC_ALL": "C"}

def fnv1a(b):
    h = 1469598103934665603
    for c in b:
        h ^= c
        h = (h * 1099511628211) & 0xFFFFFFFFFFFFFFFF
    return h

# ------------------------------------------------------------------ status table (probe -> coq/gen)
def probe(drv):
    rc, out, err = vlib.run_lines(drv, ["probe_status"], timeout=120, env=drv_env())
    if rc != 0 or not out or not out[0].startswith("PROBE"):
        raise vlib.BuildError("queue_driver probe_status failed: rc=%s %s %s" % (rc, out[:1], err[-500:]))
    ent = []
    for t in out[0].split()[1:]:
        k, a, raw, st = t.split(":")
        ent.append((0 if k == "e" else 1, int(a), int(raw), st))
    return ent

def write_gen(ent):
    rows = "; ".join("(%d, %d, %d, %d)" % (k, a, raw if raw >= 0 else 4294967295, STATUS_CODE.get(st, 9)) for (k, a, raw, st) in ent)
    body = ("(* REGENERATED on every run by harness/py/props/c16.py from real children run through the rebuilt /repo. *)\n"
            "From Coq Require Import List NArith.\nImport ListNotations.\nLocal Open Scope N_scope.\n"
            "(* (kind, argument, raw wait status in ProcessResult.exitCode, status): kind 0 = child ran `exit <argument>`,\n"
            "   kind 1 = child ran `kill -<argument> $$; exit 77`; status 0 Succeeded / 1 Failed / 2 Cancelled *)\n"
            "Definition probed_fates : list (N * N * N * N) := [%s].\n") % rows
    return vlib.write_if_changed(os.path.join(vlib.COQ, "gen", "Gen_ProcStatus.v"), body)

def fate_oracle(k, a, raw, st):
    """The property's own reading of a fate (independent of the Coq model). Returns None if fine, else text."""
    ignored = (17, 18, 23, 28)
    if raw < 0:
        return "completion callback did not fire exactly once"
    if k == 0:
        want = "Succeeded" if a == 0 else "Failed"
        if raw != a << 8:
            return "child exited with %d but the reported raw status is %d" % (a, raw)
    elif a in ignored:
        want = "Failed"          # the signal is ignored, the script goes on to `exit 77`
        if raw != 77 << 8:
            return "signal %d is ignored by default yet the raw status is %d" % (a, raw)
    else:
        want = "Cancelled" if a in (2, 9) else "Failed"
        if raw & 0x7f != a:
            return "child killed itself with signal %d but the raw status is %d" % (a, raw)
    if st != want:
        return "fate %s %d: status %s, the property asks for %s" % ("exit" if k == 0 else "signal", a, st, want)
    return None

# ------------------------------------------------------------------ queue scenarios
ORDS = [b"", b"a", b"b", b"ab", b"b\xff", b"\x80", b"a", b"zz", b"z", b"m"]

def gen_scenario(rng, big=False):
    lanes = rng.randint(1, 8)
    alg = rng.choice(["fifo", "prio"])
    n = rng.randint(2, 40 if big else 22)
    nthreads = rng.randint(1, 3)
    jobs = []
    for i in range(n):
        high = rng.random() < 0.2
        ord_ = rng.choice(ORDS) if rng.random() < 0.8 else bytes(rng.randrange(256) for _ in range(rng.randint(1, 3)))
        dur = rng.choice([0, 0, 30, 100, 300, 800, 2000])
        if i > 0 and rng.random() < 0.3:
            parent = rng.randrange(i)
            delay = rng.choice([0, 0, 50, 200, 3000])
        else:
            parent = -1 - rng.randrange(nthreads)
            delay = rng.choice([0, 0, 0, 50, 200, 600])
        proc = 1 if rng.random() < 0.12 else 0
        jobs.append((i, high, ord_, dur, parent, delay, proc))
    cancel = -1 if rng.random() < 0.45 else rng.choice([0, 0, 100, 300, 800, 1500, 3000, 6000])
    settle = rng.choice([0, 0, 0, 300, 2000])
    return dict(lanes=lanes, alg=alg, cancel=cancel, settle=settle, jobs=jobs)

def scenario_line(sc):
    return "queue %d %s %d %d " % (sc["lanes"], sc["alg"], sc["cancel"], sc["settle"]) + " ".join(
        "%d:%s:%s:%d:%d:%d:%d" % (i, "h" if h else "n", hx(o), d, p, dl, pr) for (i, h, o, d, p, dl, pr) in sc["jobs"])

def parse_trace(ans):
    """-> dict(events=[token], counts, started, finished, procs={j:(cb,status)}, copies, err) or None.
    events are what the queue's API shows (see harness/cpp/queue_driver.cpp): P/Q around addJob, B queueJobStarted,
    S/E body begin/end, f queueJobFinished, s process started, c, d, x."""
    if not ans.startswith("TRACE "):
        return None
    parts = ans.split(" | ")
    def tab(s):
        body = s.split(" ", 1)[1] if " " in s else "."
        return {} if body == "." else {int(x.split("=")[0]): x.split("=")[1] for x in body.split(",")}
    labs = parts[0][6:]
    events = [] if not labs else [x.split("=", 1)[1] for x in labs.split(",")]
    procs = {j: (int(v.split("/")[0]), v.split("/")[1]) for j, v in tab(parts[4]).items()}
    rest = {p.split("=", 1)[0]: p.split("=", 1)[1] for p in parts[5:] if "=" in p}
    return dict(events=events, counts={k: int(v) for k, v in tab(parts[1]).items()},
                started={k: int(v) for k, v in tab(parts[2]).items()}, finished={k: int(v) for k, v in tab(parts[3]).items()},
                procs=procs, copies=int(rest.get("copies", "0")), err=rest.get("err", "?"))

def model_events(tr):
    """the events the transition system talks about (body begin/end are the harness's own in-flight measure)"""
    return [e for e in tr["events"] if e[0] in "PQBfscdx"]

def queue_oracle(sc, tr):
    """Property oracle computed from API-observable events and counters only (no model, no guess about the instants
    at which the queue enqueued / dequeued). -> (key, text) or None"""
    n, lanes, serial = len(sc["jobs"]), sc["lanes"], sc["alg"] == "serial"
    for j in range(n):
        c = tr["counts"].get(j, 0)
        if c == 0 and serial:
            return ("serial-job-dropped", "serial queue: job %d was submitted (by running job %s) but never executed; the queue was destroyed normally" % (j, sc["jobs"][j][4]))
        if c != 1:
            return ("job-not-exactly-once", "job %d was executed %d times (submitted once, queue destroyed)" % (j, c))
        if tr["started"].get(j, 0) != 1 or tr["finished"].get(j, 0) != 1:
            return ("job-callbacks-unpaired", "job %d: queueJobStarted x%d, queueJobFinished x%d" % (j, tr["started"].get(j, 0), tr["finished"].get(j, 0)))
    P, Q, B, S, E = {}, {}, {}, {}, {}
    fin_by_lane, lane_of_tid, tid_of_lane = {}, {}, {}
    open_body, cancelled_at, per_lane = {}, None, {}
    for pos, ev in enumerate(tr["events"]):
        f = ev.split(":")
        k = f[0]
        if k in ("P", "Q", "B", "S", "E"):
            j = int(f[2]) if k in ("B", "S", "E") else int(f[1])
            tbl = dict(P=P, Q=Q, B=B, S=S, E=E)[k]
            if j in tbl:
                return ("job-not-exactly-once" if k in ("B", "S", "E") else "job-added-twice", "event %s reported twice for job %d" % (k, j))
            tbl[j] = pos
        if k in ("B", "S", "E", "f"):
            l = int(f[1])
            if k == "B" and l < 0:
                return ("job-callbacks-unpaired", "queueJobStarted(job %s) was not followed by the job's body on that thread" % f[2])
            if l < 0 or l >= lanes:
                return ("lane-out-of-range", "lane %d reported by a %d-lane queue (%s)" % (l, lanes, ev))
            per_lane.setdefault(l, []).append((k, int(f[2]) if k != "f" else None, pos))
        if k == "S":
            l, j, tid = int(f[1]), int(f[2]), int(f[3])
            if lane_of_tid.setdefault(tid, l) != l or tid_of_lane.setdefault(l, tid) != tid:
                return ("lane-bound", "lane %d / thread %d: a lane is one thread (lane %s was thread %s, thread %s was lane %s)" % (l, tid, l, tid_of_lane.get(l), tid, lane_of_tid.get(tid)))
            if l in open_body:
                return ("lane-bound", "lane %d started job %d while job %d was still running on it" % (l, j, open_body[l]))
            if j not in P:
                return ("job-before-add", "job %d started before addJob was called for it" % j)
            open_body[l] = j
            if len(open_body) > lanes:
                return ("lane-bound", "%d jobs in flight on a %d-lane queue" % (len(open_body), lanes))
        elif k == "E":
            l = int(f[1])
            if open_body.get(l) != int(f[2]):
                return ("finish-without-start", "lane %d ended job %s which it was not running" % (l, f[2]))
            del open_body[l]
        elif k == "f":
            fin_by_lane.setdefault(int(f[1]), []).append(pos)
        elif k == "s":
            if cancelled_at is not None:
                return ("spawn-after-cancel", "a process was spawned on lane %s after cancelAllJobs had returned" % f[1])
        elif k == "c":
            cancelled_at = pos
    if open_body:
        return ("job-never-finished", "jobs %s were still running when the queue was destroyed" % sorted(open_body.values()))
    for j in range(n):
        for name, tbl in (("addJob entered", P), ("addJob returned", Q), ("queueJobStarted", B), ("body begin", S), ("body end", E)):
            if j not in tbl:
                return ("job-not-exactly-once", "job %d: no '%s' event although the queue was destroyed" % (j, name))
        if not (P[j] < B[j] < S[j] < E[j]):
            return ("job-before-add", "job %d: events out of order (addJob entered %d, queueJobStarted %d, body %d..%d)" % (j, P[j], B[j], S[j], E[j]))
    for l, evs in per_lane.items():
        want = ["B", "S", "E", "f"]
        for i, (k, j, pos) in enumerate(evs):
            if k != want[i % 4] or (i % 4 and k != "f" and j != evs[i - i % 4][1]):
                return ("job-callbacks-unpaired", "lane %d: callbacks not in the order started/body/finished (%s)" % (l, [x[0] + (str(x[1]) if x[1] is not None else "") for x in evs[max(0, i - 4):i + 2]]))
        if len(evs) % 4:
            return ("job-callbacks-unpaired", "lane %d: last job has no queueJobFinished" % l)
    # scheduler order: only what is DEFINITE given the intervals.  The take of job j lies between the previous
    # queueJobFinished on its lane (avail) and queueJobStarted(j) (B); its enqueue between P and Q.
    lane_of = {}
    for l, evs in per_lane.items():
        for (k, j, pos) in evs:
            if k == "B": lane_of[j] = l
    avail = {}
    for j in range(n):
        prev = [p for p in fin_by_lane.get(lane_of[j], []) if p < B[j]]
        avail[j] = prev[-1] if prev else -1
    high = {j: (sc["jobs"][j][1] and not serial) for j in range(n)}
    name = {j: sc["jobs"][j][2] for j in range(n)}
    for b in range(n):
        for a in range(n):
            if a == b or not (B[b] < avail[a]):          # b was certainly dequeued before a
                continue
            if high[a] and not high[b] and Q[a] < avail[b]:
                return ("order-high-first", "normal job %d was taken although high-priority job %d had been queued before that lane was free, and %d was only taken later" % (b, a, a))
            if high[a] == high[b] and Q[a] < P[b] and (high[a] or sc["alg"] in ("fifo", "serial")):
                return ("order-fifo", "%s: job %d was taken before job %d although addJob(%d) had returned before addJob(%d) was entered" % ("high-priority list" if high[a] else "FIFO queue", b, a, a, b))
            if not high[a] and not high[b] and sc["alg"] == "prio" and name[a] > name[b] and Q[a] < avail[b]:
                return ("order-name-priority", "name-priority queue gave job %d (%r) although job %d (%r) had been queued before that lane was free, and %d was only taken later" % (b, name[b], a, name[a], a))
    for j, (cb, st) in tr["procs"].items():
        if cb != 1:
            return ("completion-not-once", "the completion callback of job %d's process fired %d times" % (j, cb))
        if st not in ("Succeeded", "Cancelled") or (st == "Cancelled" and sc["cancel"] < 0):
            return ("proc-status", "/bin/true run by job %d ended as %s (cancellation %s)" % (j, st, "requested" if sc["cancel"] >= 0 else "never requested"))
    if tr["err"] != "-":
        return ("process-error", "processHadError during a plain /bin/true launch: %s" % tr["err"][:200])
    return None

def nontrivial_key(sc, tr):
    conc, running, child = 0, 0, any(p >= 0 for (_, _, _, _, p, _, _) in sc["jobs"])
    for ev in tr["events"]:
        if ev.startswith("S:"): running += 1; conc = max(conc, running)
        elif ev.startswith("E:"): running -= 1
    if conc >= 2 or child or "c" in tr["events"]:
        return ("q", sc["lanes"], sc["alg"], ",".join(e.rsplit(":", 1)[0] if e.startswith("S:") else e for e in tr["events"]))
    return None

def run_queue_scenarios(chk, drv, model, scs, tag):
    lines = [scenario_line(s) for s in scs]
    rc, out, err = vlib.run_lines(drv, lines, timeout=900, env=drv_env())
    if rc != 0 or len(out) != len(lines):
        i = min(len(out), len(lines) - 1)
        chk.violation("queue-driver-crash", "the real queue crashed or hung on a job mix (rc=%s)" % rc,
                      dict(scenario=lines[i], rc=rc, stderr=err[-1500:], kind="queue"), found_input=True, broken="c16 oracle: queue run completes")
        return 0
    traces = [parse_trace(a) for a in out]
    mreq, idx = [], []
    for k, (sc, tr, a) in enumerate(zip(scs, traces, out)):
        if tr is None:
            chk.violation("queue-driver-answer", "unparsable driver answer", dict(scenario=lines[k], answer=a[:500], kind="queue"), found_input=False, broken="harness/cpp/queue_driver.cpp")
            continue
        evs = model_events(tr)
        if sc["alg"] == "serial":
            mreq.append("saccepts_iv v1 %s" % (",".join(evs) if evs else "."))
        else:
            mreq.append("accepts_iv %d %s %s" % (sc["lanes"], sc["alg"], ",".join(evs) if evs else "."))
        idx.append(k)
    rc2, mo, e2 = vlib.run_lines(model, mreq, timeout=900)
    assert rc2 == 0 and len(mo) == len(mreq), (rc2, e2[-500:])
    ok = 0
    for k, m in zip(idx, mo):
        sc, tr = scs[k], traces[k]
        chk.count(nontrivial_key(sc, tr))
        chk.cov["closure_copies_seen"] = chk.cov.get("closure_copies_seen", 0) + tr["copies"]
        bad = queue_oracle(sc, tr)
        rp = dict(kind="queue", scenario=lines[k], events=tr["events"], counts=tr["counts"], procs=tr["procs"], driver_err=tr["err"], model=m[:4000])
        alljobs = list(range(len(sc["jobs"])))
        mp = m.split(" ")
        ints = lambda x: sorted(int(v) for v in x.split(",") if v != ".")
        if sc["alg"] == "serial":
            # the serial model says exactly which jobs are lost; the oracle decides whether losing any is a violation
            dropped = [j for j in alljobs if tr["counts"].get(j, 0) == 0]
            model_ok = (m.startswith("OK 1 ") and len(mp) == 5 and ints(mp[3]) == dropped and ints(mp[2]) == [j for j in alljobs if tr["counts"].get(j, 0) == 1])
            what = "the events of the real serial queue admit no run of the serial model in Queue/Lanes.v (%s)"
            key, corr = "serial-correspondence", "correspondence: Queue.Lanes.saccepts"
        else:
            model_ok = m.startswith("OK 1 ") and len(mp) == 4 and ints(mp[2]) == alljobs
            what = "the events of the real queue admit no run of the model Queue/Lanes.v, wherever the enqueue/dequeue instants are placed inside their observed intervals (%s), although every oracle holds"
            key, corr = "lanes-correspondence", "correspondence: Queue.Lanes.accepts"
        if bad:
            rp["model_accepts"] = model_ok
            chk.violation(bad[0], bad[1], rp, found_input=True, broken="c16 oracle on the real %squeue" % ("serial " if sc["alg"] == "serial" else ""))
        elif model_ok:
            ok += 1
        else:
            chk.violation(key, what % m[:60], rp, found_input=False, broken=corr)
    if scs and traces[0] is not None:
        chk.sample(dict(kind="queue-" + tag, scenario=lines[0], events=",".join(traces[0]["events"]), model=(mo[0] if mo else "")[:1500]))
    return ok

CORPUS = [
    # one lane, everything serial; child added after shutdown started (settle 0, long parent)
    dict(lanes=1, alg="fifo", cancel=-1, settle=0, jobs=[(0, False, b"a", 3000, -1, 0, 0), (1, False, b"b", 0, 0, 2500, 0), (2, True, b"c", 0, 0, 2600, 1)]),
    # ties in the name-priority scheduler, more jobs than lanes
    dict(lanes=2, alg="prio", cancel=-1, settle=0, jobs=[(i, False, b"same", 200, -1, 0, 0) for i in range(12)]),
    # cancellation before anything runs: queued jobs still execute, processes are refused
    dict(lanes=2, alg="prio", cancel=0, settle=0, jobs=[(i, i % 3 == 0, bytes([97 + i % 5]), 500, -1, 100, 1) for i in range(10)]),
    # a chain of jobs each adding the next one while the destructor is already waiting
    dict(lanes=3, alg="fifo", cancel=200, settle=0, jobs=[(0, False, b"", 500, -1, 0, 0)] + [(i, i % 2 == 0, b"x", 300, i - 1, 250, i % 2) for i in range(1, 9)]),
    dict(lanes=8, alg="prio", cancel=-1, settle=300, jobs=[(i, False, bytes([255 - i]), 100, -1 - (i % 3), 0, 0) for i in range(30)]),
]

CORPUS_SERIAL = [
    # serial-add-after-shutdown: job 0 is still running when the destructor queues its sentinel, then adds jobs 1 and 2
    dict(lanes=1, alg="serial", cancel=-1, settle=0, jobs=[(0, False, b"a", 3000, -1, 0, 0), (1, False, b"b", 0, 0, 2500, 0), (2, True, b"c", 0, 0, 2600, 1)]),
    dict(lanes=1, alg="serial", cancel=-1, settle=6000, jobs=[(0, False, b"a", 3000, -1, 0, 0), (1, False, b"b", 0, 0, 2500, 0), (2, True, b"c", 0, 0, 2600, 1)]),
    dict(lanes=1, alg="serial", cancel=100, settle=0, jobs=[(i, i % 2 == 0, b"x", 200, -1 - (i % 2), 0, 1) for i in range(8)]),
]

def gen_serial(rng):
    sc = gen_scenario(rng)
    sc["alg"], sc["lanes"] = "serial", 1
    return sc

# ------------------------------------------------------------------ real children
def sh_argv(script, shell="/bin/sh"):
    return [shell.encode(), b"-c", script.encode() if isinstance(script, str) else script]

def proc_job(argv, inherit=True, control=False, interruptible=True, reqenv=(), mark=None, starve=None):
    env = ";".join("%s=%s" % (hx(k), hx(v)) for k, v in reqenv) if reqenv else "."
    return "%d%d%d%s:%s:%s" % (inherit, control, interruptible, "" if starve is None else str(starve), env, ",".join(hx(a) for a in argv)) + ((":" + hx(mark.encode())) if mark else "")

def proc_line(lanes, cancel, base, jobs):
    b = "environ" if base is None else ("." if not base else ",".join(hx(x) for x in base))
    return "proc %s %s %s %s" % (lanes, cancel, b, " ".join(jobs))

def parse_proc(ans):
    res, tail = [], {}
    for part in ans.split(" | "):
        if part.startswith("J"):
            d = dict(kv.split("=", 1) for kv in part.split(" ")[1:])
            d["out_bytes"] = None if d["out"] == "~" else unhx(d["out"])
            res.append(d)
        elif "=" in part:
            tail[part.split("=", 1)[0]] = part.split("=", 1)[1]
    for d in res:
        d["_tail"] = tail
    return res

def pattern(n):
    unit = b"0123456789abcdef\n"
    return (unit * (n // len(unit) + 1))[:n]

def run_children(chk, drv, model, tmp):
    E = drv_env()
    viol = lambda key, what, rp: chk.violation(key, what, dict(kind="proc", **rp), found_input=True, broken="c16 oracle on real children")
    cases = []   # (name, line, checker(results) -> (key, text) or None)

    def expect(name, line, checks):
        cases.append((name, line, checks))

    def std(r, status, raw=None, out=None, spawned="1"):
        if r["cb"] != "1":
            return ("completion-not-once", "completion callback fired %s times" % r["cb"])
        if r["started"] != "1" and spawned == "1":
            return ("process-callbacks", "processStarted fired %s times" % r["started"])
        if r["started"] != r["finished"]:
            return ("process-callbacks", "processStarted x%s but processFinished x%s" % (r["started"], r["finished"]))
        if r["spawned"] != spawned:
            return ("spawn-unexpected", "spawned=%s, expected %s" % (r["spawned"], spawned))
        if r["status"] != status:
            return ("status-not-fate", "status %s (raw %s), the child's fate asks for %s" % (r["status"], r["exit"], status))
        if raw is not None and int(r["exit"]) != raw:
            return ("status-not-fate", "raw status %s, expected %d" % (r["exit"], raw))
        if r.get("cblen", "-1") not in ("-1", r["len"]):
            return ("output-after-completion", "%s of %s output bytes had been delivered when the completion callback ran" % (r["cblen"], r["len"]))
        if out is not None:
            if int(r["len"]) != len(out) or int(r["hash"]) != fnv1a(out) or (r["out_bytes"] is not None and r["out_bytes"] != out):
                return ("output-not-delivered", "output of %s bytes (hash %s) delivered, the child wrote %d bytes (hash %d)" % (r["len"], r["hash"], len(out), fnv1a(out)))
        return None

    # output volume 0 .. 256 KiB, then a non-zero exit: everything must be there before the completion
    sizes = [0, 1, 4095, 4096, 4097, 65535, 65536, 65537, 100000, 262144]
    if not chk.quick():
        sizes += [8191, 8192, 131072, 200001, 524288]
    for i, n in enumerate(sizes):
        code = i % 4
        scr = "yes 0123456789abcdef | head -c %d; exit %d" % (n, code)
        expect("output-%d" % n, proc_line(2, -1, None, [proc_job(sh_argv(scr), control=(i % 2 == 0))]),
               lambda rs, n=n, code=code: std(rs[0], "Succeeded" if code == 0 else "Failed", code << 8, pattern(n)))
    # stdout and stderr share one pipe: order of writes preserved
    expect("interleave", proc_line(1, -1, None, [proc_job(sh_argv("echo o1; echo e1 >&2; echo o2; echo e2 >&2"))]),
           lambda rs: std(rs[0], "Succeeded", 0, b"o1\ne1\no2\ne2\n"))
    # several big writers at once on several lanes
    expect("parallel-output", proc_line(4, -1, None, [proc_job(sh_argv("yes 0123456789abcdef | head -c %d" % n)) for n in (70000, 140000, 99999, 65536, 3)]),
           lambda rs: next((x for x in (std(r, "Succeeded", 0, pattern(n)) for r, n in zip(rs, (70000, 140000, 99999, 65536, 3))) if x), None))
    # self-signals after some output
    for sig, st in ((15, "Failed"), (2, "Cancelled"), (9, "Cancelled"), (11, "Failed"), (1, "Failed"), (6, "Failed")):
        expect("selfsig-%d" % sig, proc_line(1, -1, None, [proc_job(sh_argv("echo before; kill -%d $$; echo after" % sig))]),
               lambda rs, sig=sig, st=st: std(rs[0], st, None, b"before\n") or (None if int(rs[0]["exit"]) & 0x7f == sig else ("status-not-fate", "raw status %s for a child killed by signal %d" % (rs[0]["exit"], sig))))
    # exit codes (all 256 are in the probed table; here with output and both control settings)
    for code in (0, 1, 2, 126, 127, 128, 255):
        expect("exit-%d" % code, proc_line(1, -1, None, [proc_job(sh_argv("echo x; exit %d" % code), control=True)]),
               lambda rs, code=code: std(rs[0], "Succeeded" if code == 0 else "Failed", code << 8, b"x\n"))
    # closes stdout/stderr early and keeps running: completion only after the real exit, with the real code
    for ctl in (False, True):
        expect("early-close-%d" % ctl, proc_line(1, -1, None, [proc_job(sh_argv("echo hi; exec >&- 2>&-; sleep 0.15; exit 5"), control=ctl)]),
               lambda rs: std(rs[0], "Failed", 5 << 8, b"hi\n"))
    # spawn errors
    expect("spawn-enoent", proc_line(1, -1, None, [proc_job([b"/nonexistent/program", b"x"])]),
           lambda rs: std(rs[0], "Failed", None, b"", spawned="0") or (None if rs[0]["err"] != "-" else ("spawn-error-silent", "spawn failure without processHadError")))
    expect("spawn-noexec", proc_line(1, -1, None, [proc_job([b"/etc/passwd"])]),
           lambda rs: std(rs[0], "Failed", None, b"", spawned="0"))
    # lane release over the control channel: with ONE lane, J1 can only run while J0 is alive if J0's lane was released
    flag = os.path.join(tmp, "released.flag")
    rel = ("printf 'llbuild.1\\n%%s\\n' \"$LLBUILD_TASK_ID\" >&$LLBUILD_CONTROL_FD; i=0; while [ ! -e %s ] && [ $i -lt 1000 ]; do sleep 0.01; i=$((i+1)); done; "
           "[ -e %s ] && echo got && exit 4; exit 9") % (flag, flag)
    expect("lane-release", proc_line(1, -1, None, [proc_job(sh_argv(rel, "/bin/bash"), control=True), proc_job(sh_argv("echo j1; : > %s" % flag))]),
           lambda rs: std(rs[0], "Failed", 4 << 8, b"got\n") or std(rs[1], "Succeeded", 0, b"j1\n"))
    # wrong id on the control channel: no release, still exactly one completion
    expect("control-bad-id", proc_line(1, -1, None, [proc_job(sh_argv("printf 'llbuild.1\\nnope\\n' >&$LLBUILD_CONTROL_FD; echo z; exit 3", "/bin/bash"), control=True)]),
           lambda rs: std(rs[0], "Failed", 3 << 8, b"z\n"))
    expect("control-garbage", proc_line(1, -1, None, [proc_job(sh_argv("printf 'hello there this is not the protocol\\n' >&$LLBUILD_CONTROL_FD; echo z", "/bin/bash"), control=True)]),
           lambda rs: std(rs[0], "Succeeded", 0, b"z\n"))
    # cancellation before any job: nothing is spawned, every completion says Cancelled
    marks = [os.path.join(tmp, "pre-%d" % i) for i in range(3)]
    expect("cancel-before", proc_line(2, -2, None, [proc_job(sh_argv(": > %s" % m)) for m in marks]),
           lambda rs: next((x for x in (std(r, "Cancelled", None, b"", spawned="0") for r in rs) if x), None) or
                      (("spawn-after-cancel", "a child ran after cancelAllJobs") if any(os.path.exists(m) for m in marks) else None))
    # cancellation while children run: signalled, reaped, later jobs never start
    marks2 = [os.path.join(tmp, "run-%d" % i) for i in range(5)]
    def chk_cancel_running(rs):
        for i, r in enumerate(rs):
            if i < 2:
                x = std(r, "Cancelled", None, None)
                if x: return x
                if int(r["exit"]) & 0x7f not in (2, 9):
                    return ("cancel-not-signalled", "running child %d ended with raw status %s after cancellation" % (i, r["exit"]))
                if r["alive"] != "0":
                    return ("child-not-reaped", "child %s still exists after the queue was destroyed" % r["pid"])
            else:
                x = std(r, "Cancelled", None, b"", spawned="0")
                if x: return x
                if os.path.exists(marks2[i]):
                    return ("spawn-after-cancel", "job %d's child ran although the queue had been cancelled" % i)
        return None
    expect("cancel-running", proc_line(2, 20000, None, [proc_job(sh_argv(": > %s; sleep 30" % m)) for m in marks2]), chk_cancel_running)
    # a child that ignores SIGINT, and one that must not be interrupted: both get SIGKILL after the (test) timeout
    def chk_kill(rs):
        for r in rs:
            x = std(r, "Cancelled", 9, None)
            if x: return x
            if r["alive"] != "0":
                return ("child-not-reaped", "child %s still exists after the queue was destroyed" % r["pid"])
        return None
    expect("cancel-escalate", proc_line(2, 20000, None, [proc_job(sh_argv("trap '' INT; sleep 30")), proc_job(sh_argv("sleep 30"), interruptible=False)]), chk_kill)

    # cancellation racing spawn and exit: short children, cancel at a random moment; every launch is accounted for
    def chk_race(rs):
        for i, r in enumerate(rs):
            if r["cb"] != "1":
                return ("completion-not-once", "job %d: completion callback fired %s times" % (i, r["cb"]))
            if r["started"] != r["finished"]:
                return ("process-callbacks", "job %d: processStarted x%s but processFinished x%s" % (i, r["started"], r["finished"]))
            if r["spawned"] == "0" and r["status"] != "Cancelled":
                return ("status-not-fate", "job %d: no child was created yet the status is %s" % (i, r["status"]))
            if r["spawned"] == "1":
                raw = int(r["exit"])
                want = "Succeeded" if raw == 0 else "Cancelled" if (raw & 0x7f) in (2, 9) else "Failed"
                if r["status"] != want or (raw != 0 and (raw & 0x7f) not in (2, 9)):
                    return ("status-not-fate", "job %d: raw status %d reported as %s" % (i, raw, r["status"]))
                if r["alive"] != "0":
                    return ("child-not-reaped", "child %s still exists after the queue was destroyed" % r["pid"])
        return None
    for k in range(chk.n(8, 60)):
        lanes = chk.rng.randint(1, 6)
        njobs = chk.rng.randint(lanes, 4 * lanes)
        cancel = chk.rng.choice([0, 0, 200, 1000, 3000, 8000, 20000])
        expect("cancel-race-%d" % k, proc_line(lanes, cancel, None, [proc_job(sh_argv(chk.rng.choice(["exit 0", "sleep 0.01", "sleep 0.003; exit 0", "echo x; sleep 0.02"])),
                                                                        control=chk.rng.random() < 0.5) for _ in range(njobs)]), chk_race)

    # a released process keeps writing: several chunks with pauses, and more than a pipe buffer, after the release
    relmsg = "printf 'llbuild.1\\n%s\\n' \"$LLBUILD_TASK_ID\" >&$LLBUILD_CONTROL_FD; "
    expect("release-then-chunks", proc_line(2, -1, None, [
        proc_job(sh_argv("echo pre; " + relmsg + "for i in 1 2 3 4; do sleep 0.08; echo chunk$i; done; sleep 0.05; exit 3", "/bin/bash"), control=True),
        proc_job(sh_argv(relmsg + "echo a; sleep 0.1; yes 0123456789abcdef | head -c 200000; sleep 0.1; echo tail", "/bin/bash"), control=True)]),
           lambda rs: std(rs[0], "Failed", 3 << 8, b"pre\nchunk1\nchunk2\nchunk3\nchunk4\n") or std(rs[1], "Succeeded", 0, b"a\n" + pattern(200000) + b"tail\n"))
    # the same on one lane with a second job that can only run if the lane really was released
    expect("release-then-chunks-1lane", proc_line(1, -1, None, [
        proc_job(sh_argv(relmsg + "for i in 1 2 3; do sleep 0.1; echo c$i; done", "/bin/bash"), control=True),
        proc_job(sh_argv("echo second"))]),
           lambda rs: std(rs[0], "Succeeded", 0, b"c1\nc2\nc3\n") or std(rs[1], "Succeeded", 0, b"second\n"))
    # cancellation, then the queue is destroyed INSIDE the SIGKILL grace period (1 s under LLBUILD_TEST): the children that
    # get no SIGINT (not safely interruptible) or ignore it must still be killed and reaped; the destructor must not
    # sit out their natural 8 s
    def chk_destroy(rs):
        for i, r in enumerate(rs):
            x = std(r, "Cancelled", 9, None)
            if x:
                return (x[0], "job %d (queue destroyed right after cancelAllJobs): %s" % (i, x[1]))
            if r["alive"] != "0":
                return ("child-not-reaped", "child %s still exists after the queue was destroyed" % r["pid"])
        ms = int(rs[0]["_tail"].get("destroy_ms", "-1"))
        if ms < 0 or ms > 6000:
            return ("destroy-waits-for-children", "destroying the queue after cancelAllJobs took %d ms: the 8 s children were not killed after the 1 s grace period" % ms)
        return None
    for dly in (0, 50000, 300000):
        expect("cancel-then-destroy-%dms" % (dly // 1000), proc_line(2, "20000+%d" % dly, None, [proc_job(sh_argv("sleep 8"), interruptible=False), proc_job(sh_argv("trap '' INT; sleep 8"))]), chk_destroy)

    # cancellation of a child that has closed its descriptors and runs on (the lane is already blocked in wait4): it must
    # still be in the process group, i.e. be signalled; with and without destroying the queue right away; both queues
    def chk_cancel_closed(sigs, timekey):
        def f(rs):
            for i, (r, sg) in enumerate(zip(rs, sigs)):
                if sg is None:
                    x = std(r, "Cancelled", None, b"", spawned="0")
                else:
                    x = std(r, "Cancelled", None, None)
                    if not x and int(r["exit"]) & 0x7f not in sg:
                        x = ("cancel-not-signalled", "raw status %s, expected death by signal %s" % (r["exit"], sg))
                    if not x and r["alive"] != "0":
                        x = ("child-not-reaped", "child %s still exists after the queue was destroyed" % r["pid"])
                if x:
                    return (x[0], "job %d (closed its descriptors, then cancelled while running): %s" % (i, x[1]))
            ms = int(rs[0]["_tail"].get(timekey, "-1"))
            if ms < 0 or ms > 4500:
                return ("cancel-waits-for-children", "%s=%d ms: the cancelled 6 s children were not killed (SIGINT at once, SIGKILL after the 1 s grace period)" % (timekey, ms))
            return None
        return f
    closed = "exec >&- 2>&-; sleep 6"
    for q in (2, "serial"):
        for destroy in ("", "+0"):
            if q == 2:
                jobs_, sigs = [proc_job(sh_argv(closed)), proc_job(sh_argv("trap '' INT; " + closed))], [(2,), (9,)]
            else:
                jobs_, sigs = [proc_job(sh_argv(closed)), proc_job(sh_argv("echo never"))], [(2,), None]
            expect("cancel-closed-child-%s%s" % (q, destroy), proc_line(q, "300000" + destroy, None, jobs_), chk_cancel_closed(sigs, "destroy_ms" if destroy else "elapsed_ms"))
    # the "spawn error" fate: pipe() fails with EMFILE exactly when the launch creates its pipes (0-1 free descriptors: the
    # output pipe, 2-3: the control pipe); exactly one completion (Failed, with a process error), and the next launch is fine
    def chk_starve(rs):
        r = rs[0]
        if r["cb"] != "1":
            return ("completion-not-once", "launch with the descriptor table full: completion callback fired %s times" % r["cb"])
        if r["started"] != r["finished"] or r["started"] != "1":
            return ("process-callbacks", "launch with the descriptor table full: processStarted x%s, processFinished x%s" % (r["started"], r["finished"]))
        if r["status"] == "Failed":
            if r["spawned"] != "0" or r["err"] == "-":
                return ("spawn-error-silent", "failed launch: spawned=%s, processHadError %r" % (r["spawned"], r["err"]))
        elif r["status"] != "Succeeded":
            return ("status-not-fate", "launch with the descriptor table full ended as %s" % r["status"])
        x = std(rs[1], "Succeeded", 0, b"hi\n")
        return (x[0], "the launch after the starved one: " + x[1]) if x else None
    for q in (1, "serial"):
        for free, ctl in ((0, True), (1, True), (2, True), (3, True), (0, False), (1, False)):
            expect("fd-starved-%s-%d-%d" % (q, free, ctl), proc_line(q, -1, None, [proc_job(sh_argv("echo hi; exit 0"), control=ctl, starve=free), proc_job(sh_argv("echo hi; exit 0"), control=ctl)]), chk_starve)

    # A client's ordinary signal handler (no SA_RESTART) must not change any child's fate: SIGUSR1 is sent every 2 ms to the
    # thread executing the job, from processStarted to the completion callback.  The interesting child closes its
    # descriptors early and runs on, so that thread sits blocked in wait4() when the signals arrive (EINTR must be retried).
    def storm_jobs(tag, with_bash):
        mk = lambda i: os.path.join(tmp, "storm-%s-%d" % (tag, i))
        js = [(proc_job(sh_argv("exec >&- 2>&-; sleep 0.5; : > %s; exit 0" % mk(0)), mark=mk(0)), "Succeeded", lambda raw: raw == 0, b"", True),
              (proc_job(sh_argv("exec >&- 2>&-; sleep 0.2; : > %s; exit 3" % mk(1)), mark=mk(1)), "Failed", lambda raw: raw == 3 << 8, b"", True),
              (proc_job(sh_argv("exec >&- 2>&-; sleep 0.2; : > %s; kill -TERM $$" % mk(2)), mark=mk(2)), "Failed", lambda raw: raw & 0x7f == 15, b"", True),
              (proc_job(sh_argv("yes 0123456789abcdef | head -c 100000")), "Succeeded", lambda raw: raw == 0, pattern(100000), False)]
        if with_bash:
            js.append((proc_job(sh_argv("echo hi; exec >&- 2>&-; eval \"exec $LLBUILD_CONTROL_FD>&-\"; sleep 0.4; : > %s; exit 0" % mk(4), "/bin/bash"), control=True, mark=mk(4)),
                       "Succeeded", lambda raw: raw == 0, b"hi\n", True))
        return js
    def chk_storm(js):
        def f(rs):
            if len(rs) != len(js):
                return ("proc-driver-answer", "expected %d job results, got %d" % (len(js), len(rs)))
            for i, (r, (_, status, rawok, out_, marked)) in enumerate(zip(rs, js)):
                x = std(r, status, None, out_)
                if x:
                    return (x[0], "job %d under the signal storm: %s" % (i, x[1]))
                if not rawok(int(r["exit"])):
                    return ("status-not-fate", "job %d under the signal storm: raw status %s does not match the child's fate" % (i, r["exit"]))
                if r["err"] != "-":
                    return ("process-error", "job %d under the signal storm: processHadError %r" % (i, unhx(r["err"])[:200]))
                if marked and r["mark"] != "1":
                    return ("completion-before-exit", "job %d: the completion callback ran before the child had reached its exit (its exit marker file did not exist yet)" % i)
                if r["alive"] != "0":
                    return ("child-not-reaped", "job %d: child %s still exists (running or zombie) after the queue was destroyed" % (i, r["pid"]))
            return None
        return f
    jl = storm_jobs("lanes", True)
    expect("signal-storm-lanes", "pstorm 4 2000 " + " ".join(j[0] for j in jl), chk_storm(jl))
    js_ = storm_jobs("serial", False)
    expect("signal-storm-serial", "pstorm serial 2000 " + " ".join(j[0] for j in js_), chk_storm(js_))

    lines = [c[1] for c in cases]
    t0 = time.time()
    rc, out, err = vlib.run_lines(drv, lines, timeout=900, env=E)
    if rc != 0 or len(out) != len(lines):
        i = min(len(out), len(lines) - 1)
        viol("proc-driver-crash", "the driver crashed or hung while running real children (case %s, rc=%s)" % (cases[i][0], rc),
             dict(case=cases[i][0], line=lines[i], stderr=err[-1500:]))
        return
    for (name, line, checks), a in zip(cases, out):
        rs = parse_proc(a)
        chk.count(("proc", name))
        if rs and rs[0]["_tail"].get("hung") == "1":
            bad = ("child-hang", "a process launch had not completed after 40 s (children of this case run for at most a few seconds); the driver had to kill the process groups")
        else:
            bad = checks(rs) if rs else ("proc-driver-answer", "unparsable answer %r" % a[:200])
        if bad:
            viol(bad[0], "%s: %s" % (name, bad[1]), dict(case=name, line=line, answer=a[:3000]))
    chk.sample(dict(kind="proc", case=cases[0][0], line=cases[0][1], answer=out[0][:300]))
    chk.cov["child_cases"] = len(cases)
    chk.cov["child_cases_wall_s"] = round(time.time() - t0, 2)

# ------------------------------------------------------------------ environment
def first_wins(pairs):
    seen, out = set(), []
    for k, v in pairs:
        if k not in seen:
            seen.add(k); out.append((k, v))
    return out

def split_eq(s):
    i = s.find(b"=")
    return (s, b"") if i < 0 else (s[:i], s[i + 1:])

def gen_env_case(rng):
    keys = [b"A", b"B", b"C", b"PATH", b"", b"X_Y", K_LANE, K_BUILD] + ([K_TASK, K_CFD] if rng.random() < 0.35 else [])
    # names that are equal up to letter case are DIFFERENT variables on POSIX
    keys += [b"a", b"b", b"path", b"Path", b"x_y", b"http_proxy", b"HTTP_PROXY", b"Mode", b"MODE", b"mode", K_TASK.lower(), K_LANE.lower()]
    vals = [b"", b"1", b"two words", b"x=y", b"line\nbreak", b"\xff\xfe", b"/usr/bin:/bin"]
    req = [(rng.choice(keys), rng.choice(vals)) for _ in range(rng.randint(0, 5))]
    inherit = rng.random() < 0.6
    if rng.random() < 0.25:
        base = None
    else:
        base = [rng.choice(keys) + b"=" + rng.choice(vals) for _ in range(rng.randint(0, 6))]
        if rng.random() < 0.3: base.append(b"NOEQUALS")
        if rng.random() < 0.2: base.append(b"=lead")
        if rng.random() < 0.2: base.append(b"")
    control = rng.random() < 0.5
    lanes = rng.randint(1, 3)
    return dict(req=req, inherit=inherit, base=base, control=control, lanes=lanes, q="serial" if rng.random() < 0.25 else lanes)

def run_env(chk, drv, model, ncases):
    E = drv_env()
    environ_list = [("%s=%s" % kv).encode() for kv in E.items()]
    rng = chk.rng
    cases = [gen_env_case(rng) for _ in range(ncases)]
    # corpus: ids cannot be overridden (LLBUILD_TASK_ID=outer in the base environment is the witness of the repaired defect a51183e); duplicates; entries without '='
    # letter case: lower / UPPER / Mixed, requested vs inherited in both directions and within one source; both queues
    for q in (2, "serial"):
        cases += [dict(req=[(b"http_proxy", b"req-lower")], inherit=True, base=[b"HTTP_PROXY=base-upper", b"Http_Proxy=base-mixed"], control=False, lanes=2, q=q),
                  dict(req=[(b"MODE", b"req-upper")], inherit=True, base=[b"Mode=base-mixed", b"mode=base-lower", b"MODE=base-upper"], control=True, lanes=2, q=q),
                  dict(req=[(b"Path", b"req-mixed"), (b"PATH", b"/usr/bin:/bin"), (b"path", b"req-lower")], inherit=True, base=None, control=False, lanes=2, q=q),
                  dict(req=[], inherit=True, base=[b"abc=1", b"ABC=2", b"Abc=3", b"aBC=4", b"abc=5"], control=False, lanes=2, q=q),
                  dict(req=[(b"abc", b"1"), (b"ABC", b"2"), (b"Abc", b"3")], inherit=False, base=[b"ABC=no"], control=True, lanes=2, q=q),
                  dict(req=[(K_TASK.lower(), b"lower-is-mine"), (K_LANE.lower(), b"x")], inherit=True, base=[K_BUILD.lower() + b"=y", K_CFD.lower() + b"=7"], control=True, lanes=2, q=q)]
    cases += [dict(req=[(K_LANE, b"bogus"), (K_BUILD, b"bogus"), (b"A", b"req"), (b"A", b"req2")], inherit=True, base=[b"A=base", b"B=base", b"B=base2", b"NOEQ"], control=True, lanes=2),
              # nested llbuild: the outer task's ids arrive through the inherited / requested environment
              dict(req=[], inherit=True, base=[K_TASK + b"=z", K_CFD + b"=99", b"A=1"], control=True, lanes=1),
              dict(req=[], inherit=True, base=[K_TASK + b"=z", K_CFD + b"=99", b"A=1"], control=False, lanes=1),
              dict(req=[(K_TASK, b"z"), (K_CFD, b"99"), (b"A", b"2")], inherit=True, base=[b"A=1"], control=True, lanes=2),
              dict(req=[(K_TASK, b"z"), (K_CFD, b"99")], inherit=False, base=[], control=False, lanes=1),
              dict(req=[(K_TASK, b"mine")], inherit=False, base=[b"Z=1"], control=False, lanes=1),
              dict(req=[(b"A", b"1")], inherit=False, base=None, control=False, lanes=1),
              dict(req=[], inherit=True, base=None, control=True, lanes=1)]
    for c in cases:
        if c.get("q") == "serial":
            c["lanes"] = 1
    lines = [proc_line(c.get("q", c["lanes"]), -1, c["base"], [proc_job([b"/usr/bin/env", b"-0"], inherit=c["inherit"], control=c["control"], reqenv=c["req"])]) for c in cases]
    rc, out, err = vlib.run_lines(drv, lines, timeout=600, env=E)
    if rc != 0 or len(out) != len(lines):
        chk.violation("env-driver-crash", "the driver crashed while launching /usr/bin/env", dict(kind="env", line=lines[min(len(out), len(lines) - 1)], stderr=err[-1500:]), found_input=True,
                      broken="c16 oracle: launch completes")
        return
    mreq, meta = [], []
    shadow_seen = 0
    for c, line, a in zip(cases, lines, out):
        rs = parse_proc(a)
        rp = dict(kind="env", line=line, requested=[(k.decode("latin1"), v.decode("latin1")) for k, v in c["req"]], inherit=c["inherit"],
                  base=None if c["base"] is None else [b.decode("latin1") for b in c["base"]], answer=a[:3000])
        if not rs or rs[0]["cb"] != "1" or rs[0]["status"] != "Succeeded" or rs[0]["out_bytes"] is None:
            chk.violation("env-launch", "launching /usr/bin/env did not succeed exactly once", rp, found_input=True, broken="c16 oracle on real children")
            continue
        child = [x for x in rs[0]["out_bytes"].split(b"\0") if x != b""] if rs[0]["out_bytes"] else []
        # an entry that is the empty string cannot be told from the separator: compare without empty entries
        cpairs = [split_eq(x) for x in child]
        cd = dict(first_wins(cpairs))
        base = environ_list if c["base"] is None else c["base"]
        inh = [split_eq(x) for x in base] if c["inherit"] else []
        # ---- O: the property's precedence, computed here
        bad = None
        names = [k for k, _ in cpairs]
        if len(set(names)) != len(names):
            bad = ("env-duplicate-name", "a variable name appears twice in the child's environment: %r" % sorted(set(n for n in names if names.count(n) > 1)))
        lane_ok = cd.get(K_LANE, b"").isdigit() and int(cd[K_LANE]) < c["lanes"]
        if not bad and (not lane_ok or not cd.get(K_BUILD, b"").isdigit()):
            bad = ("env-ids", "LLBUILD_LANE_ID=%r LLBUILD_BUILD_ID=%r are not the queue's own (a requested/inherited value won?)" % (cd.get(K_LANE), cd.get(K_BUILD)))
        IDS = (K_LANE, K_BUILD, K_TASK, K_CFD)
        supplied = c["req"] + inh
        want = dict(first_wins([(k, v) for k, v in supplied if k not in IDS]))
        for k, v in want.items():
            if bad: break
            if cd.get(k) != v:
                bad = ("env-precedence", "variable %r is %r in the child; requested-over-inherited first-writer-wins gives %r" % (k, cd.get(k), v))
        if not bad:
            extra = [k for k in cd if k not in want and k not in IDS]
            if extra:
                bad = ("env-leak", "the child has variables nobody supplied: %r (inherit=%s)" % (extra, c["inherit"]))
        # the per-process ids are the process's own: a hex task id, a descriptor number; never a supplied value
        tid_ok = (K_TASK in cd and len(cd[K_TASK]) >= 1 and all(ch in b"0123456789abcdef" for ch in cd[K_TASK]) and
                  (len(cd[K_TASK]) >= 5 or cd[K_TASK] not in [v for k, v in supplied if k == K_TASK]))
        if not bad and not tid_ok:
            who = "requested" if K_TASK in dict(c["req"]) else "inherited" if K_TASK in dict(inh) else None
            bad = ("env-task-id-shadowed", "LLBUILD_TASK_ID in the child is %r%s, not the id of this task" % (cd.get(K_TASK), (", supplied by the %s environment" % who) if who else ""))
        if not bad and c["control"] and not (cd.get(K_CFD, b"").isdigit() and int(cd[K_CFD]) > 2 and cd[K_CFD] not in [v for k, v in supplied if k == K_CFD]):
            bad = ("env-task-id-shadowed", "control channel enabled but LLBUILD_CONTROL_FD in the child is %r, not this process's descriptor" % cd.get(K_CFD))
        if not bad and not c["control"] and K_CFD in cd:
            bad = ("env-ids", "control channel disabled but LLBUILD_CONTROL_FD=%r in the child" % cd[K_CFD])
        if any(k in (K_TASK, K_CFD) for k, _ in supplied):
            shadow_seen += 1
        chk.count(("env", tuple(c["req"]), c["inherit"], None if c["base"] is None else tuple(c["base"]), c["control"]) if (c["req"] or c["base"]) else None)
        if bad:
            chk.violation(bad[0], bad[1], rp, found_input=True, broken="c16 oracle on the child's environment")
            continue
        # ---- correspondence with the model (order included)
        tid = cd.get(K_TASK, b"")
        cfd = cd.get(K_CFD) if c["control"] else None
        req_f = ";".join("%s=%s" % (hx(k), hx(v)) for k, v in c["req"]) if c["req"] else "."
        base_f = ",".join(hx(x) for x in base) if base else "."
        mreq.append("env %s %s %s %s %d %s %s" % (hx(cd[K_BUILD]), hx(cd[K_LANE]), hx(tid), req_f, c["inherit"], base_f, "none" if cfd is None else hx(cfd)))
        meta.append((rp, child))
    rc2, mo, e2 = vlib.run_lines(model, mreq, timeout=300)
    assert rc2 == 0 and len(mo) == len(mreq), (rc2, e2[-500:])
    ndis = 0
    for (rp, child), m in zip(meta, mo):
        ml = [] if m == "." else [unhx(x) for x in m.split(",")]
        # the model renders ("", "") as "=", the child's env -0 output shows it as "=" too; empty entries were dropped above
        if [x for x in ml if x != b""] != child:
            ndis += 1
            if ndis <= 2:
                rp2 = dict(rp); rp2["model_envp"] = [x.decode("latin1") for x in ml]; rp2["child_envp"] = [x.decode("latin1") for x in child]
                chk.violation("env-correspondence", "the child's envp differs from Queue/Env.v build_env (order or content) although the precedence oracle holds",
                              rp2, found_input=False, broken="correspondence: Queue.Env.build_env")
    chk.cov["env_cases"] = len(cases)
    chk.cov["env_cases_matching_model_exactly"] = len(meta) - ndis
    chk.cov["env_cases_trying_to_shadow_process_ids"] = shadow_seen
    if cases:
        chk.sample(dict(kind="env", line=lines[-5], child_envp=[x.decode("latin1") for x in (meta[-1][1] if meta else [])][:12]))

# ------------------------------------------------------------------ thorough only: the same runs under ThreadSanitizer
import re

def tsan_reports(err):
    """-> list of (key, first lines) for every ThreadSanitizer report in a stderr text"""
    out = []
    for blk in err.split("==================")[0:]:
        m = re.search(r"WARNING: ThreadSanitizer: ([^\n(]+)", blk)
        if not m:
            continue
        kind = m.group(1).strip().replace(" ", "-")
        # key: the place TSan names in its SUMMARY line (else the first /repo frame of the first stack)
        sm = re.search(r"SUMMARY: ThreadSanitizer: [^/\n]*(/\S+?)([A-Za-z0-9_]+)\.(?:cpp|h):(\d+)", blk)
        if sm:
            where = "%s.%s" % (sm.group(2), sm.group(3))
        else:
            f = re.search(r"/repo/(?:lib|include)/\S*?([A-Za-z0-9_]+)\.(?:cpp|h):(\d+)", blk)
            where = "%s.%s" % (f.group(1), f.group(2)) if f else "driver-only"
        key = "tsan-%s-%s" % (kind, where)
        keep = [l for l in blk.strip().splitlines() if re.search(r"WARNING|SUMMARY|of size|Previous|Location|/repo/", l)]
        out.append((key, "\n".join(l[:260] for l in keep[:24])))
    return out

def run_tsan(chk, tmp):
    drv = vlib.build_drivers(["queue_driver"], "tsan")["queue_driver"]
    E = dict(drv_env()); E["TSAN_OPTIONS"] = "halt_on_error=0 exitcode=0 report_signal_unsafe=0"
    rng = chk.rng
    flag = os.path.join(tmp, "tsan-released.flag")
    rel = ("printf 'llbuild.1\\n%%s\\n' \"$LLBUILD_TASK_ID\" >&$LLBUILD_CONTROL_FD; i=0; while [ ! -e %s ] && [ $i -lt 1000 ]; do sleep 0.01; i=$((i+1)); done; echo got") % flag
    groups = []   # (name, [lines]) each group = one driver process
    scs = list(CORPUS) + list(CORPUS_SERIAL) + [gen_scenario(rng) for _ in range(240)] + [gen_serial(rng) for _ in range(40)]
    for i in range(0, len(scs), 35):
        groups.append(("queue-mixes-%d" % (i // 35), [scenario_line(x) for x in scs[i:i + 35]]))
    groups.append(("lane-release", [proc_line(1, -1, None, [proc_job(sh_argv(rel, "/bin/bash"), control=True), proc_job(sh_argv("echo j1; : > %s" % flag))])]))
    groups.append(("lane-release-many", [proc_line(2, -1, None, [proc_job(sh_argv("printf 'llbuild.1\\n%s\\n' \"$LLBUILD_TASK_ID\" >&$LLBUILD_CONTROL_FD; sleep 0.05; echo r", "/bin/bash"), control=True) for _ in range(6)])]))
    groups.append(("cancel-running", [proc_line(2, 20000, None, [proc_job(sh_argv("sleep 30")) for _ in range(5)])]))
    groups.append(("parallel-output", [proc_line(4, -1, None, [proc_job(sh_argv("yes 0123456789abcdef | head -c %d" % n), control=(n % 2 == 0)) for n in (70000, 140000, 99999, 4096)])]))
    groups.append(("signal-storm", ["pstorm 3 2000 " + " ".join(proc_job(sh_argv(x)) for x in ("exec >&- 2>&-; sleep 0.3; exit 0", "exec >&- 2>&-; sleep 0.1; exit 3", "yes 0123456789abcdef | head -c 70000")),
                                    "pstorm serial 2000 " + " ".join(proc_job(sh_argv(x)) for x in ("exec >&- 2>&-; sleep 0.2; exit 0", "echo x"))]))
    groups.append(("spawn-errors", [proc_line(3, -1, None, [proc_job([b"/nonexistent/x"]), proc_job(sh_argv("exit 3")), proc_job([b"/etc/passwd"])])]))
    nrep = 0
    for name, lines in groups:
        rc, out, err = vlib.run_lines(drv, lines, timeout=900, env=E)
        chk.count(("tsan", name))
        if rc != 0 or len(out) != len(lines):
            chk.violation("tsan-run-crash", "the ThreadSanitizer build of the driver crashed or hung in group %s (rc=%s)" % (name, rc),
                          dict(kind="tsan", group=name, line=lines[min(len(out), len(lines) - 1)], stderr=err[-3000:]), found_input=True, broken="c16 oracle: run completes (tsan build)")
            continue
        for key, head in tsan_reports(err):
            nrep += 1
            line = lines[0]
            if len(lines) > 1:      # find one line of the group that reproduces it on its own
                for l in lines:
                    rc1, o1, e1 = vlib.run_lines(drv, [l], timeout=300, env=E)
                    if any(k == key for k, _ in tsan_reports(e1)):
                        line = l
                        break
            chk.violation(key, "ThreadSanitizer: %s (group %s)" % (key, name), dict(kind="tsan", group=name, line=line, report=head, variant="tsan"),
                          found_input=True, broken="c16 oracle: no data race / use after free between queue threads (tsan build)")
    chk.cov["tsan_groups"] = len(groups)
    chk.cov["tsan_reports"] = nrep

# ------------------------------------------------------------------ entry points
def run(chk):
    T = {}
    t0 = time.time()
    drv = vlib.build_drivers(["queue_driver"])["queue_driver"]
    T["build_drivers"] = round(time.time() - t0, 1); t0 = time.time()
    ent = probe(drv)
    write_gen(ent)
    T["probe"] = round(time.time() - t0, 1); t0 = time.time()
    model = vlib.model_bin("queue")
    T["model_bin"] = round(time.time() - t0, 1); t0 = time.time()

    def search(res):
        for (k, a, raw, st) in ent:
            why = fate_oracle(k, a, raw, st)
            if why:
                return dict(key="status-not-fate", what=why, replay=dict(kind="fate", fate=("exit %d" % a) if k == 0 else ("kill -%d $$" % a), raw=raw, status=st))
        return None
    chk.proof_gate(search=search)
    T["proof_gate"] = round(time.time() - t0, 1); t0 = time.time()

    tmp = os.path.join(vlib.WORK, "tmp", "c16")
    shutil.rmtree(tmp, ignore_errors=True)
    os.makedirs(tmp, exist_ok=True)

    # fates: oracle on the implementation + the model's mapping on the same raw statuses
    mreq = ["status %d" % max(raw, 0) for (_, _, raw, _) in ent]
    rc, mo, e = vlib.run_lines(model, mreq, timeout=120)
    assert rc == 0 and len(mo) == len(ent)
    for (k, a, raw, st), m in zip(ent, mo):
        chk.count(("fate", k, a))
        why = fate_oracle(k, a, raw, st)
        if why:
            chk.violation("status-not-fate", why, dict(kind="fate", fate=("exit %d" % a) if k == 0 else ("kill -%d $$" % a), raw=raw, status=st),
                          found_input=True, broken="c16 oracle on real children")
        elif m != st:
            chk.violation("status-correspondence", "status_of_wait(%d) = %s in the model, the implementation reported %s" % (raw, m, st),
                          dict(kind="fate", raw=raw, model=m, implementation=st), found_input=False, broken="correspondence: Queue.ProcStatus.status_of_wait")
    chk.cov["fates_probed"] = len(ent)

    # queue traces
    rng = chk.rng
    nmix = chk.n(170, 2500)
    scs = list(CORPUS) + [gen_scenario(rng, big=(i % 10 == 0)) for i in range(nmix)]
    ok = 0
    for i in range(0, len(scs), 50):
        ok += run_queue_scenarios(chk, drv, model, scs[i:i + 50], "mix" if i else "corpus")
    sscs = list(CORPUS_SERIAL) + [gen_serial(rng) for _ in range(chk.n(40, 500))]
    for i in range(0, len(sscs), 50):
        ok += run_queue_scenarios(chk, drv, model, sscs[i:i + 50], "serial")
    chk.cov["job_mixes"] = len(scs)
    chk.cov["serial_job_mixes"] = len(sscs)
    chk.cov["traces_validated_against_impl"] = ok
    T["queue_traces"] = round(time.time() - t0, 1); t0 = time.time()

    run_children(chk, drv, model, tmp)
    T["children"] = round(time.time() - t0, 1); t0 = time.time()
    run_env(chk, drv, model, chk.n(60, 1500))
    T["environment"] = round(time.time() - t0, 1); t0 = time.time()
    if not chk.quick():
        run_tsan(chk, tmp)
        T["tsan"] = round(time.time() - t0, 1)
    chk.cov["phase_wall_s"] = T
    shutil.rmtree(tmp, ignore_errors=True)

    chk.assumptions = [
        "Linux/glibc wait-status layout (WIFEXITED/WIFSIGNALED/WTERMSIG as in <bits/waitstatus.h>)",
        "the instants at which the queue enqueues / dequeues a job are not observable through its API: the acceptance check treats Add and Take as internal steps "
        "placed anywhere inside [addJob entered, addJob returned] resp. [previous queueJobFinished of the lane, queueJobStarted] (search in ocaml/vmodel_queue.ml, "
        "judged by the extracted step function only); the order oracles only report orders that are definite given those intervals",
        "children are /bin/sh (dash), /bin/bash, coreutils of this image",
        "jobs terminate; addJob from outside is not called once the destructor has started (client contract)"]
    return chk.finish(level="proof",
                      rule="queue: random job mixes (2-40 jobs, durations 0-2 ms, 20% high priority, ordinal names with ties, 30% of jobs added by running jobs, 1-3 client threads, "
                           "cancellation at a random time in 55%, destruction with 0-2 ms settle) on the real queue with 1-8 lanes and both schedulers; the observed trace is checked by "
                           "oracles (exactly once, lane bound, order, no spawn after cancel) and must be accepted by the extracted model; non-trivial = >= 2 jobs in flight or a job adding a job or "
                           "a cancellation, distinct by the full label sequence; the same mixes on the serial queue (createSerialQueue) against the serial model. children: one case per fate (256 exit codes, 27 signals) and per behaviour listed in `child_cases`; "
                           "cancellation racing spawn/exit of short children at random moments; "
                           "environment: random requested/inherited/base lists (incl. the nested-llbuild ids) compared with the property's precedence and with the model's envp; "
                           "thorough tier: queue mixes, serial mixes, lane release, cancellation and parallel output again under ThreadSanitizer",
                      extra=dict(partial="PARTIAL: the proofs cover the bookkeeping transition system (Queue/Lanes.v), the wait-status mapping and the environment construction. "
                                         "Real thread interleavings, pipe ordering, signal delivery and reaping are SAMPLED by this run, not proved.",
                                 exhaustive_tables="status_of_wait proved over all 65536 16-bit wait statuses by computation and characterised for every N; all 256 exit codes and all terminating/ignored signals 1..31 probed on real children"),
                      trusted=["hand-written models coq/Queue/{Lanes,ProcStatus,Env}.v tied to the code by acceptance / differential runs only",
                               "harness/cpp/queue_driver.cpp; the interval search of ocaml/vmodel_queue.ml (iv_search)",
                               "extraction (ExtrOcamlBasic) + ocaml/vmodel_queue.ml"])

def replay(chk, rp):
    print(json.dumps({k: v for k, v in rp.items() if k not in ("answer",)}, indent=1)[:6000])
    variant = rp.get("variant", "hooks")
    drv = vlib.build_drivers(["queue_driver"], variant)["queue_driver"]
    line = rp.get("scenario") or rp.get("line")
    E = dict(drv_env())
    if variant == "tsan":
        E["TSAN_OPTIONS"] = "halt_on_error=0 exitcode=0 report_signal_unsafe=0"
    if line:
        for i in range(5):
            rc, out, err = vlib.run_lines(drv, [line], timeout=300, env=E)
            print("replay run %d: rc=%s %s" % (i, rc, (out[0] if out else err)[:2000]))
            for key, head in (tsan_reports(err) if variant == "tsan" else []):
                print("  " + key + "\n" + head)
    return run(chk)
