# Shared machinery of the engine properties (C01-C07, C20): scenario generator, canonical observations,
# model/implementation runs and the implementation-level oracles (fresh engine, shadow epochs).
import os, random, subprocess, json
import vlib


# ------------------------------------------------------------------ generator

def gen_rules(rng, nmin=5, nmax=14, cyclic=False, dup_single=True):
    """A layered rule set. Keys 0..ni-1 are observing input rules; later keys request earlier ones."""
    ni = rng.randint(2, 4)
    n = rng.randint(max(ni + 2, nmin), nmax)
    rules = {}
    for i in range(ni):
        rules[i] = dict(sig=0, obs=1)
    for i in range(ni, n):
        lower = list(range(i))
        inputs = list(range(ni))
        cnt = rng.randint(0, min(3, len(lower)))
        req = rng.sample(lower, cnt)
        rest = [x for x in lower if x not in req]
        r = dict(sig=rng.randint(0, 3), obs=1 if rng.random() < 0.2 else 0, req=req)

        def take(p, m):
            nonlocal rest
            if rng.random() < p and rest:
                c = rng.sample(rest, rng.randint(1, min(m, len(rest))))
                rest = [x for x in rest if x not in c]
                return c
            return []
        si = take(0.15, 1)
        fo = take(0.25, 2)
        if si: r["single"] = si
        if fo: r["follow"] = fo
        if req and rng.random() < 0.35 and rest:
            a = take(1, 2)
            b = take(1, 2)
            r["br"] = (rng.randrange(len(req)), a, b)
        di = [x for x in inputs if x in rest]
        if di and rng.random() < 0.25:
            r["disc"] = rng.sample(di, 1)
        # the same key in two roles with different flags (generated-header pattern: mustFollow(h) ... discoveredDependency(h);
        # single-use and regular request of one key): the recorded list then holds the key twice
        if fo and not r.get("disc") and rng.random() < 0.3:
            cand = [x for x in fo if x < ni]
            if cand:
                r["disc"] = [rng.choice(cand)]
        if si and dup_single and rng.random() < 0.3:
            # only with a database: the in-memory dump has no flags, so the recorded order of two entries of one key would be ambiguous
            r["req"] = r["req"] + [si[0]]
        if (si or fo) and rng.random() < 0.6:
            r["ord"] = rng.choice(["rsf", "rfs", "srf", "sfr", "frs", "fsr"])
        rules[i] = r
    return ni, n, rules


def rule_line(k, r):
    parts = ["rule %d sig=%d obs=%d" % (k, r.get("sig", 0), r.get("obs", 0))]
    for f in ("req", "single", "follow", "disc"):
        if r.get(f):
            parts.append("%s=%s" % (f, ",".join(map(str, r[f]))))
    if r.get("ord"):
        parts.append("ord=%s" % r["ord"])
    if "br" in r:
        s, a, b = r["br"]
        parts.append("br=%d:%s:%s" % (s, ",".join(map(str, a)), ",".join(map(str, b))))
    return " ".join(parts)


def gen_history(rng, usedb=None, nops=(3, 10), sched=None, allow_rule_edits=True):
    """Returns list of scenario lines. sched: None (sync), or a function rng -> sched string per build."""
    if usedb is None:
        usedb = rng.random() < 0.5
    ni, n, rules = gen_rules(rng, dup_single=bool(usedb))
    L = ["db %d" % (1 if usedb else 0)]
    for k in sorted(rules):
        L.append(rule_line(k, rules[k]))
    obs_keys = [k for k in rules if rules[k].get("obs")]
    hist = {k: [rng.randint(0, 5)] for k in obs_keys}
    for k in obs_keys:
        L.append("set %d %d" % (k, hist[k][0]))
    roots = list(range(ni, n))
    nb = 0
    for _ in range(rng.randint(*nops)):
        x = rng.random()
        if x < 0.35:
            k = rng.choice(obs_keys)
            # biased towards flip-flop to an earlier value
            v = rng.choice(hist[k]) if rng.random() < 0.4 else rng.randint(0, 5)
            hist[k].append(v)
            L.append("set %d %d" % (k, v))
        elif x < 0.5:
            L.append("restart")
        elif x < 0.57 and allow_rule_edits:
            # signature change (takes effect at the next engine instance), optionally with a rewiring
            k = rng.choice(roots)
            r = dict(rules[k])
            r["sig"] = r.get("sig", 0) + 1 + rng.randint(0, 2)
            if rng.random() < 0.5 and r.get("req"):
                lower = [x for x in range(k) if x not in r.get("single", []) + r.get("follow", []) + (r["br"][1] + r["br"][2] if "br" in r else []) + r.get("disc", [])]
                if lower:
                    r["req"] = rng.sample(lower, min(len(lower), rng.randint(1, 3)))
                    if "br" in r and r["br"][0] >= len(r["req"]):
                        del r["br"]
            rules[k] = r
            L.append(rule_line(k, r))
            L.append("restart")
        else:
            nb += 1
            L.append("build %d%s" % (rng.choice(roots), (" sched=" + sched(rng)) if sched else ""))
    L.append("build %d%s" % (n - 1, (" sched=" + sched(rng)) if sched else ""))
    return L


# ------------------------------------------------------------------ running

def run_impl(drv, lines, wd, timeout=60, env=None, keepdb=False, name="scenario"):
    os.makedirs(wd, exist_ok=True)
    sp = os.path.join(wd, name + ".txt")
    open(sp, "w").write("\n".join(lines) + "\n")
    if not keepdb:
        for f in ("build.db", "build.db-journal"):
            try:
                os.unlink(os.path.join(wd, f))
            except OSError:
                pass
    rc, out, err = vlib.sh([drv, sp, wd], timeout=timeout, env=env)
    tp = os.path.join(wd, name + ".impl.txt")
    open(tp, "w").write(out)
    return rc, out.splitlines(), err, sp, tp


class Model:
    def __init__(self, area="engine"):
        self.it = vlib.Interactive(vlib.model_bin(area))

    def run(self, scenario_path, trace_path="-"):
        # the handler answers with several lines terminated by the mainloop's newline; we frame with a marker request
        self.it.p.stdin.write(("scenario %s %s\nEND-OF-ANSWER\n" % (scenario_path, trace_path)).encode())
        self.it.p.stdin.flush()
        out = []
        while True:
            l = self.it.p.stdout.readline()
            if not l:
                raise RuntimeError("model died: " + self.it.p.stderr.read().decode()[-2000:])
            l = l.decode().rstrip("\n")
            if l == "ERR unknown END-OF-ANSWER":
                break
            out.append(l)
        return out

    def close(self):
        self.it.close()


# ------------------------------------------------------------------ canonical observations

def split_builds(lines):
    """-> list of dict(hdr, events=[...], result, epoch, deps={k: [..]}, other=[...])"""
    builds = []
    cur = None
    for l in lines:
        t = l.split(" ")
        if t[0] == "build":
            cur = dict(hdr=l, events=[], result=None, epoch=None, deps={}, other=[], db=[], key=int(t[2]))
            builds.append(cur)
        elif t[0] == "restart":
            builds.append(dict(hdr="restart", events=[], result=None, epoch=None, deps={}, other=[], db=[], key=None))
            cur = None
        elif cur is None:
            continue
        elif t[0] == "result":
            cur["result"] = l
        elif t[0] == "epoch":
            cur["epoch"] = int(t[1])
        elif t[0] == "deps":
            cur["deps"][int(t[1])] = [int(x) for x in t[2:]]
        elif t[0] in ("dbrow", "dbepoch"):
            cur["db"].append(l)
        elif t[0] in ("need", "valid", "create", "start", "prior", "provide", "avail", "complete"):
            cur["events"].append(l)
        else:
            cur["other"].append(l)
    return builds


def canon_build(b, with_deps_order=True, only_keys=None):
    """Canonical observations of one build: per task key the sequence of its callbacks with the provide events
    sorted (delivery order is unspecified), the result, the epoch and the recorded dependencies."""
    per = {}
    for l in b["events"]:
        per.setdefault(int(l.split(" ")[1]), []).append(l)
    out = [b["hdr"]]
    for k in sorted(per):
        ev = per[k]
        prov = sorted(x for x in ev if x.startswith("provide"))
        rest = [x for x in ev if not x.startswith("provide")]
        # position of the provide block: after start/prior, before avail - keep rest order and append provides before avail
        seq = []
        for x in rest:
            if x.startswith("avail"):
                seq += prov
                prov = []
            seq.append(x)
        seq += prov
        out += ["  " + x for x in seq]
    out.append(str(b["result"]))
    out.append("epoch %s" % b["epoch"])
    for k in sorted(b["deps"]):
        if only_keys is not None and k not in only_keys:
            continue        # the implementation loads results lazily after a restart: rules it has not looked at are not dumped
        d = b["deps"][k]
        out.append("deps %d %s" % (k, " ".join(map(str, d if with_deps_order else sorted(d)))))
    out += b["db"]
    out += sorted(x for x in b["other"] if x.startswith(("cycle ", "ORDER-MISMATCH", "LATE-CALLBACK", "error", "leftover", "dberror", "attach-error")))
    return out


def canon(lines, with_deps_order=True):
    out = []
    for b in split_builds(lines):
        out += canon_build(b, with_deps_order)
    return out


def canon_pair(impl_lines, model_lines):
    """Canonical observations of both sides, build by build; the model's in-memory dependency dump is restricted to the
    rules the implementation has loaded (lazy loading from the database is unobservable to a client)."""
    bi, bm = split_builds(impl_lines), split_builds(model_lines)
    a, b = [], []
    for i in range(max(len(bi), len(bm))):
        x = bi[i] if i < len(bi) else None
        y = bm[i] if i < len(bm) else None
        if x is not None:
            a += canon_build(x)
        if y is not None:
            b += canon_build(y, only_keys=set(x["deps"]) if x is not None else None)
    return a, b


# ------------------------------------------------------------------ oracles on the implementation trace

REASONS = {0: "NeverBuilt", 1: "SignatureChanged", 2: "InvalidValue", 3: "InputRebuilt", 4: "Forced"}


def protocol_check(b):
    """C06 protocol automaton over one build's events: per task start, [prior], provides, avail exactly once, complete."""
    errs = []
    st = {}
    for l in b["events"]:
        t = l.split(" ")
        k = int(t[1])
        s = st.setdefault(k, dict(created=0, started=0, prior=0, provides=[], avail=0, complete=0, need=0))
        if t[0] == "need":
            s["need"] += 1
            if s["created"]:
                errs.append("need after create for %d" % k)
        elif t[0] == "create":
            s["created"] += 1
            if s["created"] > 1:
                errs.append("rule %d executed more than once in one build" % k)
            if not s["need"]:
                errs.append("task created for %d without a reported reason" % k)
        elif t[0] == "start":
            if not s["created"] or s["started"]:
                errs.append("start out of order for %d" % k)
            s["started"] += 1
        elif t[0] == "prior":
            if not s["started"] or s["provides"] or s["avail"]:
                errs.append("prior value out of order for %d" % k)
            s["prior"] += 1
        elif t[0] == "provide":
            if not s["started"] or s["avail"]:
                errs.append("provide outside start..inputsAvailable for %d" % k)
            if int(t[2]) in [p[0] for p in s["provides"]]:
                errs.append("slot %s of %d provided twice" % (t[2], k))
            s["provides"].append((int(t[2]), int(t[3]), t[4]))
        elif t[0] == "avail":
            if not s["started"] or s["avail"]:
                errs.append("inputsAvailable out of order / twice for %d" % k)
            s["avail"] += 1
        elif t[0] == "complete":
            if not s["avail"] or s["complete"]:
                errs.append("complete out of order for %d" % k)
            s["complete"] += 1
    return errs, st
