// In-process multi-build driver (property C11): ONE buildsystem::BuildSystemFrontend - one loaded build description,
// one BuildSystem, one set of long-lived Command objects - is used for a SEQUENCE of builds in this process, the way an
// IDE or a build service drives llbuild.  The harness changes discovered paths between the builds.
//
// Line protocol (one request per line, one answer line):
//   open <hexdir> <hexfile> <hexdb|-> <lanes (0 = serial)>   -> "ok"        (the frontend is created; nothing is loaded yet)
//   build <hextarget|->                                       -> "ok=<0|1> ran=<name,name|.> errors=<n> failed=<n> msgs=<hex|->"
//        ran: the commands whose commandStarted callback fired during THIS build, in order
//   close                                                     -> "ok"        (the frontend is destroyed)
#include "common.h"
#include "llbuild/Basic/ExecutionQueue.h"
#include "llbuild/Basic/FileSystem.h"
#include "llbuild/BuildSystem/BuildSystem.h"
#include "llbuild/BuildSystem/BuildSystemFrontend.h"
#include "llbuild/BuildSystem/Command.h"
#include "llbuild/BuildSystem/Tool.h"
#include "llbuild/Core/BuildEngine.h"
#include "llvm/Support/SourceMgr.h"
#include "llvm/Support/raw_ostream.h"
#include <memory>
#include <mutex>

using namespace llbuild;
using namespace llbuild::basic;
using namespace llbuild::buildsystem;

namespace {

class DepsDelegate : public BuildSystemFrontendDelegate {
  using super = BuildSystemFrontendDelegate;
public:
  std::mutex mu;
  std::vector<std::string> ran;
  std::string msgs;
  unsigned errors = 0, failed = 0;

  DepsDelegate(llvm::SourceMgr& sm) : BuildSystemFrontendDelegate(sm, "basic", 0) {}

  void say(const std::string& s) { std::lock_guard<std::mutex> l(mu); if (!msgs.empty()) msgs += "\n"; msgs += s; }
  void reset() { std::lock_guard<std::mutex> l(mu); ran.clear(); msgs.clear(); errors = 0; failed = 0; }

  virtual std::unique_ptr<Tool> lookupTool(StringRef) override { return nullptr; }
  virtual void cycleDetected(const std::vector<core::Rule*>&) override { say("cycle detected"); }
  virtual void error(StringRef filename, const Token& at, const Twine& message) override {
    { std::lock_guard<std::mutex> l(mu); errors++; }
    say("error: " + message.str());
    super::error("", Token{nullptr, 0}, message);     // counted by the frontend: build() then returns false (text goes to stderr)
  }
  virtual void hadCommandFailure() override {
    { std::lock_guard<std::mutex> l(mu); failed++; }
    super::hadCommandFailure();
  }
  virtual void commandStatusChanged(Command*, CommandStatusKind) override {}
  virtual void commandPreparing(Command*) override {}
  virtual bool shouldCommandStart(Command*) override { return true; }
  // nothing may be printed by the frontend's default implementations: stdout carries the protocol
  virtual void commandStarted(Command* c) override { std::lock_guard<std::mutex> l(mu); ran.push_back(c->getName().str()); }
  virtual void commandHadError(Command* c, StringRef m) override { say("command error (" + c->getName().str() + "): " + m.str()); }
  virtual void commandHadNote(Command*, StringRef) override {}
  virtual void commandHadWarning(Command*, StringRef) override {}
  virtual void commandFinished(Command*, ProcessStatus) override {}
  virtual void commandCannotBuildOutputDueToMissingInputs(Command* c, Node*, ArrayRef<BuildKey>) override {
    say("missing inputs for " + c->getName().str());
  }
  virtual Command* chooseCommandFromMultipleProducers(Node*, std::vector<Command*>) override { return nullptr; }
  virtual void cannotBuildNodeDueToMultipleProducers(Node*, std::vector<Command*>) override {}
  virtual void commandProcessStarted(Command*, ProcessHandle) override {}
  virtual void commandProcessHadError(Command* c, ProcessHandle, const Twine& m) override { say("process error: " + m.str()); }
  virtual void commandProcessHadOutput(Command*, ProcessHandle, StringRef) override {}
  virtual void commandProcessFinished(Command*, ProcessHandle, const ProcessResult&) override {}
};

struct Session {
  llvm::SourceMgr sm;
  BuildSystemInvocation inv{};
  std::unique_ptr<DepsDelegate> del;
  std::unique_ptr<BuildSystemFrontend> fe;
};
std::unique_ptr<Session> session;

std::string doOpen(const SV& t) {
  session.reset(new Session());
  session->inv.chdirPath = unhex(t[1]);
  session->inv.buildFilePath = unhex(t[2]);
  session->inv.dbPath = unhex(t[3]);
  int lanes = atoi(t[4].c_str());
  session->inv.useSerialBuild = (lanes == 0);
  session->inv.schedulerLanes = lanes;
  session->del.reset(new DepsDelegate(session->sm));
  session->fe.reset(new BuildSystemFrontend(*session->del, session->inv, createLocalFileSystem()));
  return "ok";
}

std::string doBuild(const SV& t) {
  if (!session) return "ERR no session";
  DepsDelegate& d = *session->del;
  d.reset();
  bool ok = session->fe->build(unhex(t[1]));
  std::string r;
  for (auto& n : d.ran) { if (!r.empty()) r += ","; r += n; }
  return std::string("ok=") + (ok ? "1" : "0") + " ran=" + (r.empty() ? "." : r) + " errors=" + std::to_string(d.errors) +
         " failed=" + std::to_string(d.failed) + " msgs=" + hex(d.msgs);
}

std::string handle(const SV& t) {
  if (t[0] == "open" && t.size() == 5) return doOpen(t);
  if (t[0] == "build" && t.size() == 2) return doBuild(t);
  if (t[0] == "close" && t.size() == 1) { session.reset(); return "ok"; }
  return "ERR unknown";
}

}

int main() {
  std::string line;
  while (std::getline(std::cin, line)) {
    if (line.empty()) { puts(""); fflush(stdout); continue; }
    std::string r = handle(split(line, ' '));
    fputs(r.c_str(), stdout); fputc('\n', stdout); fflush(stdout);
  }
  return 0;
}
